#!/usr/bin/python3
"""Self-validation of the checkers (DESIGN.md §7).

  selftest/run.py [--only NAME] [--kind mutants|neutral|all] [-j N]

Every selftest/mutants/*.patch breaks one rule instance (and still compiles): the checks named in
its first line `# expect: C04 C10 ...` must exit 1; every selftest/neutral/*.patch is a
behaviour-preserving edit: the checks named in `# checks: ...` must exit 0.  Patches are applied to
a scratch copy of the CURRENT /repo tree (include/ + doc/) outside /repo and /verif, analysed with
FSVERIF_REPO, and the copy is removed immediately."""
import argparse, glob, os, re, shutil, subprocess, sys, tempfile, json
from concurrent.futures import ThreadPoolExecutor

VERIF = os.path.dirname(os.path.dirname(os.path.abspath(__file__)))
REPO = os.environ.get("FSVERIF_REPO", "/repo")
SCRATCH = os.environ.get("VERIF_SCRATCH", "/var/tmp")

CHECK_TIMEOUT = 1200      # seconds per check: a runaway analysis is reported, not waited for


def _run_check(cmd, **kw):
    try:
        return subprocess.run(cmd, **kw)
    except subprocess.TimeoutExpired:
        class _R:
            returncode = 124
            stdout = "ANALYSIS-BROKEN: the check did not finish within %d s\n" % CHECK_TIMEOUT
            stderr = ""
        return _R()


def run_patch(path, kind):
    name = os.path.basename(path)
    head = open(path).readline()
    m = re.match(r"#\s*(expect|checks):\s*(.*)", head)
    if not m:
        return name, kind, "BAD-HEADER", {}
    ids = m.group(2).split()
    d = tempfile.mkdtemp(prefix="fsvmut.", dir=SCRATCH)
    try:
        shutil.copytree(os.path.join(REPO, "include"), os.path.join(d, "include"))
        shutil.copytree(os.path.join(REPO, "doc"), os.path.join(d, "doc"))
        r = subprocess.run(["patch", "-p1", "-s", "-d", d, "-i", path], capture_output=True, text=True)
        if r.returncode != 0:
            return name, kind, "PATCH-DOES-NOT-APPLY", {"err": (r.stdout + r.stderr)[-300:]}
        res = {}
        env = dict(os.environ, FSVERIF_REPO=d, FSVERIF_CACHE=os.path.join(d, ".cache"),
                   FSVERIF_EVIDENCE=os.path.join(d, "evidence"))
        for pid in ids:
            r = _run_check([os.path.join(VERIF, "check"), pid], capture_output=True, text=True,
                               env=env, cwd=VERIF, timeout=CHECK_TIMEOUT)
            first = [l for l in r.stdout.splitlines() if l.startswith("  rule") or l.startswith("ANALYSIS")]
            res[pid] = (r.returncode, first[0][:220] if first else "")
        if kind == "mutants":
            ok = all(rc == 1 for rc, _ in res.values())
        else:
            ok = all(rc == 0 for rc, _ in res.values())
        return name, kind, "OK" if ok else "FAIL", res
    finally:
        shutil.rmtree(d, ignore_errors=True)


def main():
    ap = argparse.ArgumentParser()
    ap.add_argument("--only")
    ap.add_argument("--kind", default="all")
    ap.add_argument("-j", type=int, default=4)
    a = ap.parse_args()
    jobs = []
    for kind in ("mutants", "neutral"):
        if a.kind not in ("all", kind):
            continue
        for p in sorted(glob.glob(os.path.join(VERIF, "selftest", kind, "*.patch"))):
            if a.only and a.only not in p:
                continue
            jobs.append((p, kind))
    bad = 0
    with ThreadPoolExecutor(max_workers=a.j) as ex:
        for name, kind, status, res in ex.map(lambda j: run_patch(*j), jobs):
            print("%-8s %-45s %s" % (kind, name, status))
            for pid, (rc, line) in res.items() if isinstance(res, dict) and status != "PATCH-DOES-NOT-APPLY" else []:
                print("           %s exit %s %s" % (pid, rc, line))
            if status != "OK":
                bad += 1
    print("%d patch(es), %d not as expected" % (len(jobs), bad))
    return 1 if bad else 0


if __name__ == "__main__":
    sys.exit(main())
