// triage for C09-P5: mst_sink_resolver::m_basin_method changed between two updates is ignored
#include <iostream>
#include <random>
#include "xtensor/xio.hpp"
#include "fastscapelib/grid/raster_grid.hpp"
#include "fastscapelib/flow/flow_graph.hpp"
#include "fastscapelib/flow/flow_router.hpp"
#include "fastscapelib/flow/sink_resolver.hpp"
namespace fastscapelib {
// same shape as the helper of the python bindings (python/src/flow_graph.hpp)
template <class FG, class OPs>
flow_operator_sequence<FG> make_flow_operator_sequence(OPs&& ops)
{
    flow_operator_sequence<FG> seq;
    seq.add_operator(std::get<0>(ops));
    seq.add_operator(std::get<1>(ops));
    return seq;
}
}
namespace fs = fastscapelib;
using G = fs::raster_grid<>;
using FG = fs::flow_graph<G>;
int main()
{
    std::mt19937 rng(7);
    for (int trial = 0; trial < 2000; ++trial)
    {
        G grid({ 7, 7 }, { 1., 1. }, fs::node_status::fixed_value);
        xt::xarray<double> e = xt::zeros<double>({ 7, 7 });
        for (auto& v : e) v = double(rng() % 3);
        auto r1 = std::make_shared<fs::single_flow_router>();
        auto m1 = std::make_shared<fs::mst_sink_resolver>(fs::mst_method::kruskal, fs::mst_route_method::basic);
        FG hist(grid, fs::make_flow_operator_sequence<FG::impl_type>(std::make_tuple(r1, m1)));
        hist.update_routes(e);                       // first call: kruskal
        m1->m_basin_method = fs::mst_method::boruvka;  // parameter change (Python: resolver.basin_method = ...)
        hist.update_routes(e);
        auto r2 = std::make_shared<fs::single_flow_router>();
        auto m2 = std::make_shared<fs::mst_sink_resolver>(fs::mst_method::boruvka, fs::mst_route_method::basic);
        FG fresh(grid, fs::make_flow_operator_sequence<FG::impl_type>(std::make_tuple(r2, m2)));
        fresh.update_routes(e);
        if (hist.impl().receivers() != fresh.impl().receivers())
        {
            std::cout << "trial " << trial << ": receivers differ between a fresh boruvka graph and a graph switched to boruvka\n" << e << "\n";
            return 1;
        }
    }
    std::cout << "no difference found\n";
    return 0;
}
