/* Triage aid for DESIGN.md section 8, row 9 (lost wake-up in thread_pool::resume).
 *   gcc -shared -fPIC cond_wait_delay.c -o /var/tmp/cond_wait_delay.so -ldl
 *   LD_PRELOAD=/var/tmp/cond_wait_delay.so timeout 20 /var/tmp/triage 9 ; echo $?   -> 124 (hang)
 * The worker sleeps (still holding the mutex) before it really waits, so the caller's
 * notify_all(), issued without the mutex and without a predicate, is lost. */
#define _GNU_SOURCE
#include <dlfcn.h>
#include <pthread.h>
#include <unistd.h>
int pthread_cond_wait(pthread_cond_t* c, pthread_mutex_t* m)
{
    static int (*real)(pthread_cond_t*, pthread_mutex_t*) = 0;
    if (!real)
        real = dlvsym(RTLD_NEXT, "pthread_cond_wait", "GLIBC_2.3.2");
    usleep(200000);
    return real(c, m);
}
