// Triage reproducers for the defects listed in DESIGN.md section 8.
// They are NOT part of any check: the deciding step of every check is static.
// They exist to answer "real defect or checker bug?" for a report on the unchanged tree.
//
//   g++ -std=gnu++17 -O1 -g -I/repo/include triage.cpp -o /var/tmp/triage -lpthread
//   (row 1: add -fsanitize=address ; row 8: clang++ ... -fsanitize=thread)
//   /var/tmp/triage <row>
#include <cstdlib>
#include <iostream>
#include <random>
#include "xtensor/xio.hpp"
#include "xtensor/xrandom.hpp"
#include "fastscapelib/grid/raster_grid.hpp"
#include "fastscapelib/grid/profile_grid.hpp"
#include "fastscapelib/grid/trimesh.hpp"
#include "fastscapelib/flow/flow_graph.hpp"
#include "fastscapelib/flow/flow_router.hpp"
#include "fastscapelib/flow/sink_resolver.hpp"
#include "fastscapelib/flow/flow_snapshot.hpp"
#include "fastscapelib/eroders/spl.hpp"
namespace fs = fastscapelib;
using G = fs::raster_grid<>;

static fs::trimesh make_mesh(std::size_t n)
{
    xt::xtensor<double, 2> pts = xt::zeros<double>({ n * n, std::size_t(2) });
    for (std::size_t r = 0; r < n; ++r)
        for (std::size_t c = 0; c < n; ++c)
        {
            pts(r * n + c, 0) = double(c);
            pts(r * n + c, 1) = double(r);
        }
    xt::xtensor<std::size_t, 2> tri = xt::zeros<std::size_t>({ 2 * (n - 1) * (n - 1), std::size_t(3) });
    std::size_t t = 0;
    for (std::size_t r = 0; r + 1 < n; ++r)
        for (std::size_t c = 0; c + 1 < n; ++c)
        {
            std::size_t a = r * n + c, b = a + 1, d = a + n, e = d + 1;
            tri(t, 0) = a; tri(t, 1) = b; tri(t, 2) = d; ++t;
            tri(t, 0) = b; tri(t, 1) = e; tri(t, 2) = d; ++t;
        }
    return fs::trimesh(pts, tri);
}

int main(int argc, char** argv)
{
    int row = argc > 1 ? std::atoi(argv[1]) : 0;
    std::cout.precision(17);
    if (row == 1)
    {  // C08-B1: build with -fsanitize=address: heap-buffer-overflow in nodes_indices(status)
        G grid({ 4, 4 }, { 1., 1. }, fs::node_status::fixed_value);
        fs::flow_graph<G> fg(grid, { fs::single_flow_router() });
        std::cout << "constructed (run under ASan to see the out-of-bounds read)\n";
    }
    if (row == 2)
    {  // C16-T1: snapshot misses bfs order and donors beyond column 0
        G grid({ 4, 4 }, { 1., 1. }, fs::node_status::fixed_value);
        fs::flow_graph<G> fg(grid, { fs::single_flow_router(), fs::flow_snapshot("s"), fs::mst_sink_resolver() });
        xt::xarray<double> e = { { 0.6, 0.6, 0.6, 0.6 }, { 0.4, 0.1, 0.4, 0.4 }, { 0.2, 0.2, 0.2, 0.2 }, { 0.1, 0.0, 0.1, 0.1 } };
        fg.update_routes(e);
        auto& s = fg.graph_snapshot("s");
        std::cout << "snapshot bfs_indices: " << s.impl().bfs_indices() << "\nmain bfs_indices: " << fg.impl().bfs_indices()
                  << "\nsnapshot donors row 5: " << xt::row(s.impl().donors(), 5) << " count " << s.impl().donors_count()(5) << "\n";
    }
    if (row == 3)
    {  // C13-L1 / C12-V1: n = 0.5 classified linear, accepted on a multi-flow graph
        G grid({ 4, 4 }, { 1., 1. }, fs::node_status::fixed_value);
        fs::flow_graph<G> fg(grid, { fs::multi_flow_router(1.0) });
        try
        {
            fs::spl_eroder<fs::flow_graph<G>> er(fg, 1e-3, 0.4, 0.5, 1e-3);
            std::cout << "slope exponent 0.5 accepted on a multiple-direction graph (defect)\n";
        }
        catch (std::exception& ex)
        {
            std::cout << "rejected: " << ex.what() << "\n";
        }
    }
    if (row == 4)
    {  // C01-E1 / C04-S1: plateau at elevation 0 next to a base level keeps pits
        fs::profile_grid<> grid(5, 2.0, { fs::node_status::fixed_value, fs::node_status::core });
        fs::flow_graph<fs::profile_grid<>> fg(grid, { fs::pflood_sink_resolver(), fs::single_flow_router() });
        xt::xarray<double> e = { 0., 0., 0., 0., 0. };
        auto& r = fg.update_routes(e);
        std::cout << "filled: " << r << "\nreceivers: " << xt::col(fg.impl().receivers(), 0) << "\n";
    }
    if (row == 5)
    {  // C05-M2: pow underflow -> weights 0/0
        fs::profile_grid<> grid(3, 1.0, { fs::node_status::fixed_value, fs::node_status::core });
        fs::flow_graph<fs::profile_grid<>> fg(grid, { fs::multi_flow_router(2.0) });
        xt::xarray<double> e = { 0., 1e-200, 2e-200 };
        fg.update_routes(e);
        std::cout << "weights: " << fg.impl().receivers_weight() << "\n";
    }
    if (row == 6)
    {  // C09-P3: priority-flood result depends on the history of the base-level set
        std::mt19937 rng(1);
        for (int it = 0; it < 2000; ++it)
        {
            G grid({ 6, 6 }, { 1., 1. }, fs::node_status::core);
            xt::xarray<double> e = xt::zeros<double>({ 6, 6 });
            for (auto& v : e) v = double(rng() % 3);
            std::vector<std::size_t> bl;
            for (std::size_t i = 0; i < 36; ++i) if (rng() % 4 == 0) bl.push_back(i);
            if (bl.empty()) bl.push_back(0);
            fs::flow_graph<G> a(grid, { fs::pflood_sink_resolver(), fs::single_flow_router() });
            fs::flow_graph<G> b(grid, { fs::pflood_sink_resolver(), fs::single_flow_router() });
            a.set_base_levels(bl);
            std::vector<std::size_t> many;
            for (std::size_t i = 0; i < 36; ++i) many.push_back(i);
            b.set_base_levels(many);
            b.update_routes(e);
            b.set_base_levels(bl);
            xt::xarray<double> ra = a.update_routes(e);
            xt::xarray<double> rb = b.update_routes(e);
            if (!(ra == rb))
            {
                std::cout << "history-dependent result at iteration " << it << "\ninput:\n" << e << "\nfresh:\n" << ra << "\nused:\n" << rb << "\n";
                return 0;
            }
        }
        std::cout << "no difference found\n";
    }
    if (row == 7)
    {  // C10-X1: parallel router on a cache-less grid (argv[2] = points per side, default 500)
        std::size_t n = argc > 2 ? std::size_t(std::atoi(argv[2])) : 500;
        fs::trimesh mesh = make_mesh(n);
        xt::random::seed(3);
        xt::xarray<double> elev = xt::random::rand<double>({ n * n });
        for (int rep = 0; rep < 5; ++rep)
        {
            fs::flow_graph<fs::trimesh> gs(mesh, { fs::single_flow_router() });
            fs::flow_graph<fs::trimesh> gp(mesh, { fs::single_flow_router(8) });
            gs.update_routes(elev);
            gp.update_routes(elev);
            std::size_t diff = 0;
            for (std::size_t i = 0; i < n * n; ++i)
                if (gs.impl().receivers()(i, 0) != gp.impl().receivers()(i, 0)) ++diff;
            std::cout << "repetition " << rep << ": receivers differing from sequential: " << diff << "\n";
        }
    }
    if (row == 8 || row == 9)
    {  // C11-A1 (build with -fsanitize=thread) / C11-A2 (run with LD_PRELOAD=cond_wait_delay.so under `timeout 20`)
        G grid({ 40, 40 }, { 1., 1. }, fs::node_status::fixed_value);
        xt::random::seed(3);
        xt::xarray<double> elev = xt::random::rand<double>({ 40, 40 });
        fs::flow_graph<G> gp(grid, { fs::single_flow_router(4) });
        for (int k = 0; k < 3; ++k) gp.update_routes(elev);
        std::cout << "done\n";
    }
    if (row == 10)
    {  // C16-T1: snapshot has no mask
        G grid({ 4, 4 }, { 1., 1. }, fs::node_status::fixed_value);
        xt::xarray<double> e = { { 0.6, 0.6, 0.6, 0.6 }, { 0.4, 0.1, 0.4, 0.4 }, { 0.2, 0.2, 0.2, 0.2 }, { 0.1, 0.0, 0.1, 0.1 } };
        xt::xarray<bool> mask = xt::zeros<bool>({ 4, 4 });
        mask(1, 1) = true;
        mask(1, 2) = true;
        fs::flow_graph<G> full(grid, { fs::single_flow_router(), fs::flow_snapshot("s"), fs::mst_sink_resolver() });
        fs::flow_graph<G> prefix(grid, { fs::single_flow_router() });
        full.set_mask(mask);
        prefix.set_mask(mask);
        full.update_routes(e);
        prefix.update_routes(e);
        std::cout << "prefix graph basins:\n" << prefix.basins() << "\nsnapshot basins:\n" << full.graph_snapshot("s").basins() << "\n";
    }
    return 0;
}
