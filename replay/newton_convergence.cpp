// triage: C13 for slope exponent n < 1 -- residual of the implicit equation vs the Newton tolerance
#include <cmath>
#include <iostream>
#include "fastscapelib/grid/profile_grid.hpp"
#include "fastscapelib/flow/flow_graph.hpp"
#include "fastscapelib/flow/flow_router.hpp"
#include "fastscapelib/eroders/spl.hpp"
namespace fs = fastscapelib;
int main()
{
    using G = fs::profile_grid<>;
    const std::size_t n = 8;
    const double dx = 100.;
    G grid(n, dx, { fs::node_status::fixed_value, fs::node_status::core });
    fs::flow_graph<G> fg(grid, { fs::single_flow_router() });
    xt::xarray<double> h = xt::zeros<double>({ n });
    for (std::size_t i = 0; i < n; ++i) h(i) = 5.0 * double(i);
    fg.update_routes(h);
    auto area = fg.accumulate(1.0);
    double worst = 0;
    for (double nexp : { 0.5, 0.7, 1.5, 2.0 })
    {
        const double K = 1e-3, m = 0.4, tol = 1e-6, dt = 2e3;
        fs::spl_eroder<fs::flow_graph<G>> er(fg, K, m, nexp, tol);
        auto e = er.erode(h, area, dt);
        double w = 0;
        for (std::size_t i = 1; i < n; ++i)
        {
            double hn = h(i) - e(i), hr = h(i - 1) - e(i - 1);
            if (er.n_corr() > 0) continue;
            double res = hn - h(i) + dt * K * std::pow(area(i), m) * std::pow((hn - hr) / dx, nexp);
            w = std::max(w, std::fabs(res));
        }
        std::cout << "n = " << nexp << ": worst |residual| = " << w << " (tolerance " << tol << "), n_corr = " << er.n_corr() << "\n";
        if (nexp < 1) worst = std::max(worst, w);
    }
    return worst > 1e-5 ? 1 : 0;
}
