#!/bin/sh
# builds the fsx extractor (offline, from files on disk)
set -e
cd "$(dirname "$0")"
mkdir -p ../bin
if [ ../bin/fsx -nt fsx.cc ] && [ "$1" != "-f" ]; then exit 0; fi
clang++ $(llvm-config-14 --cxxflags) -O1 -fno-rtti fsx.cc -o ../bin/fsx \
  /usr/lib/llvm-14/lib/libclang-cpp.so.14 /usr/lib/llvm-14/lib/libLLVM-14.so
