#!/bin/bash
# tool/try_patch.sh <patch-file> <check-id>... : run checks against a scratch copy of /repo with the patch applied
p=$(realpath "$1"); shift
d=$(mktemp -d /var/tmp/fsvtry.XXXXXX)
cp -r /repo/include $d/; cp -r /repo/doc $d/
if ! patch -p1 -s -d $d -i "$p"; then echo "PATCH DOES NOT APPLY"; rm -rf $d; exit 3; fi
for c in "$@"; do
  FSVERIF_REPO=$d FSVERIF_CACHE=$d/.cache FSVERIF_EVIDENCE=$d/ev /verif/check $c 2>/dev/null | grep -E "^  rule|ANALYSIS|PASS|FAIL" | cut -c1-${COLS:-260} | awk -v c=$c 'NR<=6{print c": "$0}'
  echo "$c exit ${PIPESTATUS[0]}"
done
rm -rf $d
