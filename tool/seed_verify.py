#!/usr/bin/python3
"""tool/seed_verify.py <PROP> <VARIANT> [--round 2] [--checks "C12 C09 ..."]
Confirms a sub-agent's seeded change in its scratch worktree /tmp/seed_<PROP> (applies
OUT/<VARIANT>/patch.diff, rebuilds and runs the repo's test-suite, builds and runs the demo with and
without the change), then runs the /verif checks against the changed tree (FSVERIF_REPO) and stores
everything under /verif/seeded/<PROP>-<VARIANT>/ (patch.diff, demo.cpp, README.md, meta.json)."""
import json, os, shutil, subprocess, sys, time

VERIF = os.path.dirname(os.path.dirname(os.path.abspath(__file__)))
ALL = "C01 C02 C03 C04 C05 C06 C07 C08 C09 C10 C11 C12 C13 C14 C15 C16 C17 C18 C19 C20".split()

CHECK_TIMEOUT = 1200      # seconds per check: a runaway analysis is reported, not waited for


def _run_check(cmd, **kw):
    try:
        return subprocess.run(cmd, **kw)
    except subprocess.TimeoutExpired:
        class _R:
            returncode = 124
            stdout = "ANALYSIS-BROKEN: the check did not finish within %d s\n" % CHECK_TIMEOUT
            stderr = ""
        return _R()


def sh(cmd, **kw):
    return subprocess.run(cmd, shell=True, capture_output=True, text=True, **kw)


def main():
    prop, var = sys.argv[1], sys.argv[2]
    checks = ALL
    if "--checks" in sys.argv:
        checks = sys.argv[sys.argv.index("--checks") + 1].split()
    dflags = ""
    cxx = "g++"
    if "--demo-flags" in sys.argv:
        dflags = sys.argv[sys.argv.index("--demo-flags") + 1]
    if "--cxx" in sys.argv:
        cxx = sys.argv[sys.argv.index("--cxx") + 1]
    rnd = ""
    if "--round" in sys.argv:
        rnd = sys.argv[sys.argv.index("--round") + 1]
    wt = "/tmp/seed%s_%s" % (rnd, prop)
    src = os.path.join(wt, "OUT", var)
    name = rnd + var
    patch = os.path.join(src, "patch.diff")
    meta = {"property": prop, "variant": name, "worktree": wt, "when": time.strftime("%Y-%m-%d %H:%M"),
            "demo_build": "%s -std=gnu++17 -O1 -I<tree>/include demo.cpp -lpthread %s" % (cxx, dflags)}
    sh("git -C %s checkout -- include" % wt)
    r = sh("git -C %s apply --check %s" % (wt, patch))
    if r.returncode != 0:
        print("patch does not apply:", r.stderr)
        return 1
    sh("git -C %s apply %s" % (wt, patch))
    try:
        if not os.path.exists(os.path.join(wt, "_build", "build.ninja")):
            sh("cmake -G Ninja -S %s -B %s/_build -DFS_BUILD_TESTS=ON -DCMAKE_BUILD_TYPE=RelWithDebInfo" % (wt, wt))
        b = sh("cmake --build %s/_build -j16 2>&1 | tail -2" % wt)
        t = sh("ctest --test-dir %s/_build -j8 --timeout 900 2>&1 | tail -3" % wt)
        meta["tests_with_change"] = t.stdout.strip().splitlines()[0] if t.stdout.strip() else b.stdout[-300:]
        d = sh("%s -std=gnu++17 -O1 -I%s/include %s/demo.cpp -o /var/tmp/seed_demo_%s_%s -lpthread %s" % (cxx, wt, src, prop, var, dflags))
        if d.returncode != 0:
            meta["demo_with_change"] = "demo does not compile: " + d.stderr[-300:]
        else:
            r1 = sh("timeout 300 /var/tmp/seed_demo_%s_%s" % (prop, var))
            meta["demo_with_change"] = {"exit": r1.returncode, "tail": r1.stdout[-400:]}
        # the checks against the changed tree
        res = {}
        env = dict(os.environ, FSVERIF_REPO=wt, FSVERIF_CACHE="/var/tmp/seedcache_%s" % prop,
                   FSVERIF_EVIDENCE="/var/tmp/seedevid_%s" % prop)
        _run_check([os.path.join(VERIF, "check"), "C06"], capture_output=True, text=True, env=env, cwd=VERIF, timeout=CHECK_TIMEOUT)  # warm the SIR cache
        from concurrent.futures import ThreadPoolExecutor

        def one(c):
            r = _run_check([os.path.join(VERIF, "check"), c], capture_output=True, text=True, env=env, cwd=VERIF, timeout=CHECK_TIMEOUT)
            first = [l for l in r.stdout.splitlines() if l.startswith("  rule") or l.startswith("ANALYSIS")]
            return c, {"exit": r.returncode, "first": first[0][:260] if first else ""}
        with ThreadPoolExecutor(max_workers=6) as ex:
            for c, v in ex.map(one, checks):
                res[c] = v
        meta["checks_on_changed_tree"] = res
        meta["caught_by"] = sorted(c for c, v in res.items() if v["exit"] == 1)
        meta["analysis_broken"] = sorted(c for c, v in res.items() if v["exit"] == 2)
    finally:
        sh("git -C %s checkout -- include" % wt)
    d = sh("%s -std=gnu++17 -O1 -I%s/include %s/demo.cpp -o /var/tmp/seed_demo_%s_%s -lpthread %s" % (cxx, wt, src, prop, var, dflags))
    r0 = sh("timeout 300 /var/tmp/seed_demo_%s_%s" % (prop, var))
    meta["demo_without_change"] = {"exit": r0.returncode, "tail": r0.stdout[-200:]}
    sh("rm -f /var/tmp/seed_demo_%s_%s; rm -rf /var/tmp/seedcache_%s /var/tmp/seedevid_%s" % (prop, var, prop, prop))
    ok = "100% tests passed" in str(meta.get("tests_with_change")) and \
        isinstance(meta.get("demo_with_change"), dict) and meta["demo_with_change"]["exit"] != 0 and \
        meta["demo_without_change"]["exit"] == 0
    meta["confirmed"] = ok
    out = os.path.join(VERIF, "seeded", "%s-%s" % (prop, name))
    if ok:
        os.makedirs(out, exist_ok=True)
        for f in ("patch.diff", "demo.cpp", "README.md"):
            if os.path.exists(os.path.join(src, f)):
                shutil.copy(os.path.join(src, f), os.path.join(out, f))
        json.dump(meta, open(os.path.join(out, "meta.json"), "w"), indent=1)
    print(json.dumps({k: meta[k] for k in ("confirmed", "tests_with_change", "caught_by", "analysis_broken")}, indent=1))
    print("demo with:", meta.get("demo_with_change"), "\ndemo without:", meta.get("demo_without_change"))
    for c, v in meta.get("checks_on_changed_tree", {}).items():
        if v["exit"] != 0:
            print(" ", c, v["exit"], v["first"])
    return 0


if __name__ == "__main__":
    sys.exit(main())
