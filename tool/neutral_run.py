#!/usr/bin/python3
"""tool/neutral_run.py [-j N] <patch> [<patch> ...]: applies each behaviour-preserving patch to a scratch
copy of the CURRENT /repo tree and runs ALL checks (quick tier); prints every non-zero exit (a false
alarm or an analysis-broken verdict on code where the properties hold)."""
import json, os, shutil, subprocess, sys, tempfile
from concurrent.futures import ThreadPoolExecutor
V = os.path.dirname(os.path.dirname(os.path.abspath(__file__)))
ALL = [c["property_id"] for c in json.load(open(os.path.join(V, "MANIFEST.json")))["checks"]]

CHECK_TIMEOUT = 1200      # seconds per check: a runaway analysis is reported, not waited for


def _run_check(cmd, **kw):
    try:
        return subprocess.run(cmd, **kw)
    except subprocess.TimeoutExpired:
        class _R:
            returncode = 124
            stdout = "ANALYSIS-BROKEN: the check did not finish within %d s\n" % CHECK_TIMEOUT
            stderr = ""
        return _R()


def one(patch):
    patch = os.path.abspath(patch)
    tmp = tempfile.mkdtemp(prefix="fsvneut.", dir="/var/tmp")
    try:
        shutil.copytree("/repo/include", os.path.join(tmp, "include"))
        shutil.copytree("/repo/doc", os.path.join(tmp, "doc"))
        r = subprocess.run(["patch", "-p1", "-s", "-d", tmp, "-i", patch], capture_output=True, text=True)
        if r.returncode != 0:
            return patch, None, "patch does not apply: " + (r.stdout + r.stderr)[-200:]
        env = dict(os.environ, FSVERIF_REPO=tmp, FSVERIF_CACHE=os.path.join(tmp, ".cache"),
                   FSVERIF_EVIDENCE=os.path.join(tmp, "evidence"))
        res = {}
        for c in ALL:
            r = _run_check([os.path.join(V, "check"), c], capture_output=True, text=True, env=env, cwd=V, timeout=CHECK_TIMEOUT)
            if r.returncode != 0:
                first = [l for l in (r.stdout + r.stderr).splitlines() if l.startswith("  rule") or "ANALYSIS" in l or "Error" in l or "error" in l]
                res[c] = (r.returncode, first[0][:300] if first else (r.stdout + r.stderr)[-300:])
        return patch, res, ""
    finally:
        shutil.rmtree(tmp, ignore_errors=True)


def main():
    args = sys.argv[1:]
    j = 6
    if "-j" in args:
        j = int(args[args.index("-j") + 1])
        del args[args.index("-j"):args.index("-j") + 2]
    bad = 0
    with ThreadPoolExecutor(max_workers=j) as ex:
        for patch, res, err in ex.map(one, args):
            if res is None:
                print("ERROR", patch, err)
                bad += 1
            elif res:
                bad += 1
                print("NOT SILENT", patch)
                for c, (rc, first) in sorted(res.items()):
                    print("    %s exit %d  %s" % (c, rc, first))
            else:
                print("silent    ", patch)
    return 1 if bad else 0


if __name__ == "__main__":
    sys.exit(main())
