#!/usr/bin/python3
"""tool/mkmut.py <kind:mutants|neutral> <name> "<ids>" <file-rel-to-repo> <old> <new> [<file> <old> <new> ...]
creates selftest/<kind>/<name>.patch from exact-text replacements on the CURRENT /repo tree"""
import difflib, os, sys
VERIF = os.path.dirname(os.path.dirname(os.path.abspath(__file__)))
kind, name, ids = sys.argv[1:4]
rest = sys.argv[4:]
out = ["# %s: %s\n" % ("expect" if kind == "mutants" else "checks", ids)]
files = {}
order = []
for i in range(0, len(rest), 3):
    rel, old, new = rest[i:i + 3]
    if rel not in files:
        files[rel] = open(os.path.join("/repo", rel)).read()
        order.append(rel)
    if files[rel].count(old) != 1:
        sys.exit("pattern occurs %d times in %s" % (files[rel].count(old), rel))
    files[rel] = files[rel].replace(old, new)
for rel in order:
    src = open(os.path.join("/repo", rel)).read()
    out += list(difflib.unified_diff(src.splitlines(True), files[rel].splitlines(True), "a/" + rel, "b/" + rel))
open(os.path.join(VERIF, "selftest", kind, name + ".patch"), "w").writelines(out)
print("wrote", name)
