#!/usr/bin/python3
import sys, os
sys.path.insert(0, os.path.dirname(os.path.dirname(os.path.abspath(__file__))))
from fsverif import extract
from fsverif.effects import Effects, path_str
pat = sys.argv[1]
units = sys.argv[2:] or ["raster_queen"]
db, info = extract.load(units, quiet=True)
eff = Effects(db)
for fn in db.all_fns():
    if pat in fn.bn:
        s = eff.summary(fn)
        print("==", fn.unit.name, fn.bn, fn.ploc)
        for (k, p, h) in sorted(s.effects, key=lambda x: (x[0], path_str(x[1]))):
            print("   ", k, h, path_str(p), "@", s.locs[(k, p, h)])
        print("    ret:", sorted(path_str(p) for p in s.ret))
        if s.opaque: print("    opaque:", sorted(s.opaque))
        if s.unknown: print("    unknown:", sorted(s.unknown))
