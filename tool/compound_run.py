#!/usr/bin/python3
"""tool/compound_run.py [-j N] [--neutral GLOB] [--kind mutants|seeded|both]:
violations must still be reported after a behaviour-preserving refactoring.

For every pair (neutral patch, violating patch) that touch a common file, the neutral patch and then
the violating patch (a selftest mutant, checks from its `# expect:` line; or a seeded change, check =
its own property) are applied to a scratch copy of the CURRENT /repo tree; when both apply without
fuzz the expected checks are run and must exit 1.  Pairs whose second patch does not apply (the
refactoring rewrote the very lines) are counted and skipped.  Prints every pair that is NOT reported."""
import glob, json, os, re, shutil, subprocess, sys, tempfile
from concurrent.futures import ThreadPoolExecutor
V = os.path.dirname(os.path.dirname(os.path.abspath(__file__)))
CHECK_TIMEOUT = 1200


def files_of(patch):
    out = set()
    for l in open(patch, errors="replace"):
        if l.startswith("+++ "):
            out.add(l[4:].split("\t")[0].strip().split("/", 1)[-1])
    return out


def expected(patch, kind):
    if kind == "mutants":
        m = re.match(r"#\s*expect:\s*(.*)", open(patch).readline())
        return m.group(1).split() if m else []
    sid = os.path.basename(os.path.dirname(patch))
    return [sid.split("-")[0]]


def one(job):
    neutral, bad, ids = job
    tmp = tempfile.mkdtemp(prefix="fsvcomp.", dir="/var/tmp")
    try:
        shutil.copytree("/repo/include", os.path.join(tmp, "include"))
        shutil.copytree("/repo/doc", os.path.join(tmp, "doc"))
        for p in (neutral, bad):
            r = subprocess.run(["patch", "-p1", "-s", "-F0", "-d", tmp, "-i", p], capture_output=True, text=True)
            if r.returncode != 0:
                return job, None
        env = dict(os.environ, FSVERIF_REPO=tmp, FSVERIF_CACHE=os.path.join(tmp, ".cache"),
                   FSVERIF_EVIDENCE=os.path.join(tmp, "evidence"))
        res = {}
        for c in ids:
            try:
                r = subprocess.run([os.path.join(V, "check"), c], capture_output=True, text=True, env=env, cwd=V,
                                   timeout=CHECK_TIMEOUT)
                rc, txt = r.returncode, r.stdout + r.stderr
            except subprocess.TimeoutExpired:
                rc, txt = 124, "timeout"
            first = [l for l in txt.splitlines() if l.startswith("  rule") or "ANALYSIS" in l]
            res[c] = (rc, first[0][:200] if first else "")
        return job, res
    finally:
        shutil.rmtree(tmp, ignore_errors=True)


def main():
    args = sys.argv[1:]
    j, nglob, kind = 8, os.path.join(V, "selftest/neutral/n3_*.patch"), "both"
    if "-j" in args:
        j = int(args[args.index("-j") + 1])
    if "--neutral" in args:
        nglob = args[args.index("--neutral") + 1]
    if "--kind" in args:
        kind = args[args.index("--kind") + 1]
    bads = []
    if kind in ("mutants", "both"):
        bads += [(p, "mutants") for p in sorted(glob.glob(os.path.join(V, "selftest/mutants/*.patch")))]
    if kind in ("seeded", "both"):
        bads += [(p, "seeded") for p in sorted(glob.glob(os.path.join(V, "seeded/*/patch.diff")))]
    jobs = []
    for n in sorted(glob.glob(nglob)):
        nf = files_of(n)
        for b, k in bads:
            ids = expected(b, k)
            if ids and nf & files_of(b):
                jobs.append((n, b, ids))
    applied = missed = 0
    with ThreadPoolExecutor(max_workers=j) as ex:
        for job, res in ex.map(one, jobs):
            if res is None:
                continue
            applied += 1
            if not all(rc == 1 for rc, _ in res.values()):
                missed += 1
                print("NOT REPORTED  %s + %s" % (os.path.basename(job[0]), job[1].replace(V + "/", "")))
                for c, (rc, first) in res.items():
                    if rc != 1:
                        print("    %s exit %d  %s" % (c, rc, first))
                sys.stdout.flush()
    print("%d pair(s) share a file, %d applied, %d not reported" % (len(jobs), applied, missed))
    sys.exit(1 if missed else 0)


main()
