// fsx — serialises the resolved, template-instantiated AST of fastscapelib into "SIR" JSON.
//
// Usage: fsx <driver.cpp> -o <out.json> -- <compile flags>
//
// For every function (member function, free function, lambda call operator) whose *definition
// pattern* lies under include/fastscapelib/ and which is not dependent (i.e. a plain function or
// an instantiation), fsx emits its body as a structure-preserving tree (see DESIGN.md §3.1).
// Callees are resolved through the type checker; callees defined in the library are referenced by
// function id ("fid"), others by their plain qualified name ("bn": identifiers only, no template
// arguments) so that the rule layer can give them an effect summary.
//
// build: see /verif/tool/build.sh

#include "clang/AST/ASTConsumer.h"
#include "clang/AST/ASTContext.h"
#include "clang/AST/DeclCXX.h"
#include "clang/AST/DeclTemplate.h"
#include "clang/AST/ExprCXX.h"
#include "clang/AST/RecursiveASTVisitor.h"
#include "clang/AST/StmtCXX.h"
#include "clang/Frontend/CompilerInstance.h"
#include "clang/Frontend/FrontendAction.h"
#include "clang/Tooling/CommonOptionsParser.h"
#include "clang/Tooling/Tooling.h"
#include "llvm/Support/CommandLine.h"
#include "llvm/Support/JSON.h"
#include "llvm/Support/raw_ostream.h"

#include <deque>
#include <map>
#include <set>
#include <string>
#include <vector>

using namespace clang;
namespace json = llvm::json;

static llvm::cl::OptionCategory FsxCat("fsx options");
static llvm::cl::opt<std::string> OutFile("o", llvm::cl::desc("output json"), llvm::cl::Required,
                                          llvm::cl::cat(FsxCat));
static llvm::cl::opt<std::string> LibMarker("lib", llvm::cl::desc("path marker of library files"),
                                            llvm::cl::init("include/fastscapelib/"),
                                            llvm::cl::cat(FsxCat));

namespace
{

    class Emitter
    {
    public:
        Emitter(ASTContext& ctx)
            : Ctx(ctx)
            , SM(ctx.getSourceManager())
            , PP(ctx.getLangOpts())
        {
            PP.SuppressTagKeyword = true;
            PP.Bool = true;
        }

        ASTContext& Ctx;
        SourceManager& SM;
        PrintingPolicy PP;

        std::map<const FunctionDecl*, int> FuncIds;
        std::deque<const FunctionDecl*> Work;
        std::map<const Decl*, int> DeclIds;
        std::map<std::string, int> TypeIds;
        std::vector<std::string> Types;
        std::map<std::string, int> FileIds;
        std::vector<std::string> Files;
        std::set<const CXXRecordDecl*> RecordsSeen;
        std::deque<const CXXRecordDecl*> RecordWork;

        json::Array Functions;
        json::Array Records;
        json::Array Patterns;

        // ---------------------------------------------------------------- helpers
        std::string fileOf(SourceLocation loc)
        {
            if (loc.isInvalid())
                return "";
            PresumedLoc p = SM.getPresumedLoc(SM.getExpansionLoc(loc));
            if (p.isInvalid())
                return "";
            return p.getFilename();
        }

        bool inLib(SourceLocation loc)
        {
            std::string f = fileOf(loc);
            return f.find(LibMarker) != std::string::npos;
        }

        json::Value locOf(SourceLocation loc)
        {
            if (loc.isInvalid())
                return nullptr;
            PresumedLoc p = SM.getPresumedLoc(SM.getExpansionLoc(loc));
            if (p.isInvalid())
                return nullptr;
            std::string f = p.getFilename();
            auto pos = f.find(LibMarker);
            if (pos != std::string::npos)
                f = f.substr(pos + std::string("include/").size());
            auto it = FileIds.find(f);
            int id;
            if (it == FileIds.end())
            {
                id = (int) Files.size();
                FileIds[f] = id;
                Files.push_back(f);
            }
            else
                id = it->second;
            return json::Array{ id, (int64_t) p.getLine(), (int64_t) p.getColumn() };
        }

        int typeId(QualType t)
        {
            if (t.isNull())
                return -1;
            std::string s = t.getCanonicalType().getAsString(PP);
            auto it = TypeIds.find(s);
            if (it != TypeIds.end())
                return it->second;
            int id = (int) Types.size();
            TypeIds[s] = id;
            Types.push_back(s);
            return id;
        }

        int declId(const Decl* d)
        {
            d = d->getCanonicalDecl();
            auto it = DeclIds.find(d);
            if (it != DeclIds.end())
                return it->second;
            int id = (int) DeclIds.size() + 1;
            DeclIds[d] = id;
            return id;
        }

        // plain qualified name: identifiers only, no template arguments
        std::string plainName(const NamedDecl* nd)
        {
            std::vector<std::string> parts;
            std::string self;
            if (nd->getDeclName().isIdentifier())
                self = nd->getName().str();
            else
                self = nd->getDeclName().getAsString();
            if (auto* fd = dyn_cast<FunctionDecl>(nd))
            {
                if (isa<CXXConstructorDecl>(fd))
                    self = "<ctor>";
                else if (isa<CXXDestructorDecl>(fd))
                    self = "<dtor>";
                else if (isa<CXXConversionDecl>(fd))
                    self = "<conv>";
            }
            parts.push_back(self);
            const DeclContext* dc = nd->getDeclContext();
            while (dc && !dc->isTranslationUnit())
            {
                if (auto* ns = dyn_cast<NamespaceDecl>(dc))
                {
                    if (!ns->isAnonymousNamespace() && !ns->isInline())
                        parts.push_back(ns->getName().str());
                }
                else if (auto* rd = dyn_cast<CXXRecordDecl>(dc))
                {
                    if (rd->isLambda())
                        parts.push_back("<lambda>");
                    else if (rd->getDeclName().isIdentifier() && !rd->getName().empty())
                        parts.push_back(rd->getName().str());
                    else
                        parts.push_back("<anon>");
                }
                else if (auto* fd = dyn_cast<FunctionDecl>(dc))
                {
                    if (fd->getDeclName().isIdentifier())
                        parts.push_back(fd->getName().str());
                    else
                        parts.push_back(fd->getDeclName().getAsString());
                }
                dc = dc->getParent();
            }
            std::string out;
            for (auto it = parts.rbegin(); it != parts.rend(); ++it)
            {
                if (!out.empty())
                    out += "::";
                out += *it;
            }
            return out;
        }

        // definition (with body) of a function, following instantiation patterns for location
        const FunctionDecl* definitionOf(const FunctionDecl* fd)
        {
            const FunctionDecl* def = nullptr;
            if (fd->hasBody(def))
                return def;
            return nullptr;
        }

        const FunctionDecl* patternDefOf(const FunctionDecl* fd)
        {
            const FunctionDecl* pat = fd->getTemplateInstantiationPattern();
            if (!pat)
                pat = fd;
            const FunctionDecl* def = nullptr;
            if (pat->hasBody(def))
                return def;
            return pat;
        }

        bool isLibFunction(const FunctionDecl* fd)
        {
            const FunctionDecl* p = patternDefOf(fd);
            return inLib(p->getLocation());
        }

        int funcId(const FunctionDecl* def)
        {
            def = cast<FunctionDecl>(def);
            auto it = FuncIds.find(def);
            if (it != FuncIds.end())
                return it->second;
            int id = (int) FuncIds.size() + 1;
            FuncIds[def] = id;
            Work.push_back(def);
            return id;
        }

        void addRoot(const FunctionDecl* fd)
        {
            if (fd->isDependentContext())
                return;
            const FunctionDecl* def = definitionOf(fd);
            if (!def || def->isDependentContext())
                return;
            if (def->isDefaulted() || def->isDeleted())
                return;
            if (!isLibFunction(def))
                return;
            funcId(def);
        }

        void noteRecord(const CXXRecordDecl* rd)
        {
            if (!rd)
                return;
            rd = rd->getDefinition();
            if (!rd || rd->isDependentContext())
                return;
            if (RecordsSeen.count(rd))
                return;
            const CXXRecordDecl* pat = rd->getTemplateInstantiationPattern();
            if (!inLib((pat ? pat : rd)->getLocation()))
                return;
            RecordsSeen.insert(rd);
            RecordWork.push_back(rd);
        }

        // ---------------------------------------------------------------- constants
        void addConst(json::Object& o, const Expr* e)
        {
            if (e->isValueDependent() || e->containsErrors())
                return;
            QualType t = e->getType();
            if (t.isNull())
                return;
            if (e->isGLValue())
            {
                // only constants named through variables
                const Expr* x = e->IgnoreParenImpCasts();
                const ValueDecl* vd = nullptr;
                if (auto* dr = dyn_cast<DeclRefExpr>(x))
                    vd = dr->getDecl();
                else if (auto* me = dyn_cast<MemberExpr>(x))
                    vd = me->getMemberDecl();
                auto* var = dyn_cast_or_null<VarDecl>(vd);
                if (!var)
                    return;
                if (!(var->isConstexpr() || var->getType().isConstQualified()))
                    return;
                if (!var->getType()->isIntegralOrEnumerationType()
                    && !var->getType()->isFloatingType())
                    return;
                const VarDecl* dv = nullptr;
                const Expr* init = var->getAnyInitializer(dv);
                if (!init || !dv || init->isValueDependent() || isa<ParmVarDecl>(dv))
                    return;
                const APValue* v = dv->evaluateValue();
                if (!v)
                    return;
                putAPValue(o, *v, var->getType());
                return;
            }
            if (!(t->isIntegralOrEnumerationType() || t->isFloatingType()))
                return;
            Expr::EvalResult res;
            if (!e->EvaluateAsRValue(res, Ctx))
                return;
            if (res.HasSideEffects)
                return;
            putAPValue(o, res.Val, t);
        }

        void putAPValue(json::Object& o, const APValue& v, QualType t)
        {
            if (v.isInt())
            {
                llvm::APSInt i = v.getInt();
                if (t->isBooleanType())
                    o["cv"] = i.getBoolValue();
                else if (i.isSigned())
                    o["cv"] = (int64_t) i.getSExtValue();
                else
                {
                    uint64_t u = i.getZExtValue();
                    if (u <= (uint64_t) INT64_MAX)
                        o["cv"] = (int64_t) u;
                    else
                        o["cvs"] = std::to_string(u);  // too large for json int
                }
                if (const EnumType* et = t->getAs<EnumType>())
                {
                    for (auto* ec : et->getDecl()->enumerators())
                        if (llvm::APSInt::isSameValue(ec->getInitVal(), i))
                        {
                            o["cen"] = ec->getName().str();
                            break;
                        }
                }
            }
            else if (v.isFloat())
            {
                llvm::SmallString<32> s;
                v.getFloat().toString(s, 0, 0);
                o["cvf"] = s.str().str();
            }
        }

        // ---------------------------------------------------------------- expressions
        json::Value emitExprOpt(const Expr* e)
        {
            if (!e)
                return nullptr;
            return emitExpr(e);
        }

        json::Value calleeInfo(json::Object& o, const FunctionDecl* callee)
        {
            if (!callee)
            {
                o["bn"] = "<indirect>";
                return nullptr;
            }
            o["bn"] = plainName(callee);
            const FunctionDecl* def = definitionOf(callee);
            if (def && !def->isDependentContext() && isLibFunction(def) && !def->isDeleted())
            {
                if (!def->isDefaulted())
                    o["fid"] = funcId(def);
                o["lib"] = true;
            }
            else if (isLibFunction(callee))
            {
                o["lib"] = true;
            }
            if (auto* md = dyn_cast<CXXMethodDecl>(callee))
            {
                if (md->isConst())
                    o["cm"] = true;
                if (md->isStatic())
                    o["sm"] = true;
                if (md->isVirtual())
                    o["virt"] = true;
                o["cls"] = plainName(md->getParent());
                o["clst"] = typeId(Ctx.getRecordType(md->getParent()));
            }
            if (callee->isConstexpr())
                o["cx"] = true;
            if (const TemplateArgumentList* tal = callee->getTemplateSpecializationArgs())
            {
                json::Array ta;
                for (unsigned i = 0; i < tal->size() && i < 4; ++i)
                {
                    const TemplateArgument& a = tal->get(i);
                    if (a.getKind() == TemplateArgument::Integral)
                        ta.push_back((int64_t) a.getAsIntegral().getExtValue());
                    else if (a.getKind() == TemplateArgument::Type)
                        ta.push_back(a.getAsType().getCanonicalType().getAsString(PP).substr(0, 200));
                    else
                        ta.push_back(nullptr);
                }
                o["targs"] = std::move(ta);
            }
            {
                // which parameters may be written through (non-const lvalue reference / pointer)
                json::Array pw;
                bool any = false;
                for (auto* p : callee->parameters())
                {
                    QualType t = p->getType();
                    bool w = false;
                    if (t->isLValueReferenceType() || t->isPointerType())
                        w = !t->getPointeeType().isConstQualified();
                    else if (t->isRValueReferenceType())
                        w = true;  // forwarding / sink
                    pw.push_back(w);
                    any = any || w;
                }
                if (any)
                    o["pw"] = std::move(pw);
            }
            return nullptr;
        }

        json::Value emitExpr(const Expr* e)
        {
            // peel wrappers that carry no semantics for us
            while (true)
            {
                if (auto* x = dyn_cast<ParenExpr>(e))
                    e = x->getSubExpr();
                else if (auto* x = dyn_cast<ImplicitCastExpr>(e))
                {
                    if (x->getCastKind() == CK_UserDefinedConversion
                        || x->getCastKind() == CK_ConstructorConversion)
                        e = x->getSubExpr();
                    else if (x->getCastKind() == CK_IntegralToFloating
                             || x->getCastKind() == CK_FloatingToIntegral
                             || x->getCastKind() == CK_IntegralCast
                             || x->getCastKind() == CK_IntegralToBoolean
                             || x->getCastKind() == CK_FloatingToBoolean
                             || x->getCastKind() == CK_FloatingCast
                             || x->getCastKind() == CK_DerivedToBase
                             || x->getCastKind() == CK_UncheckedDerivedToBase
                             || x->getCastKind() == CK_BaseToDerived)
                        break;  // keep: numeric / hierarchy conversions matter
                    else
                        e = x->getSubExpr();
                }
                else if (auto* x = dyn_cast<ExprWithCleanups>(e))
                    e = x->getSubExpr();
                else if (auto* x = dyn_cast<MaterializeTemporaryExpr>(e))
                    e = x->getSubExpr();
                else if (auto* x = dyn_cast<CXXBindTemporaryExpr>(e))
                    e = x->getSubExpr();
                else if (auto* x = dyn_cast<ConstantExpr>(e))
                    e = x->getSubExpr();
                else if (auto* x = dyn_cast<SubstNonTypeTemplateParmExpr>(e))
                    e = x->getReplacement();
                else if (auto* x = dyn_cast<CXXDefaultArgExpr>(e))
                    e = x->getExpr();
                else if (auto* x = dyn_cast<CXXDefaultInitExpr>(e))
                    e = x->getExpr();
                else
                    break;
            }

            json::Object o;
            o["l"] = locOf(e->getExprLoc());
            o["t"] = typeId(e->getType());
            addConst(o, e);

            if (auto* x = dyn_cast<CastExpr>(e))
            {
                o["k"] = "cast";
                o["ck"] = x->getCastKindName();
                o["impl"] = isa<ImplicitCastExpr>(x);
                o["e"] = emitExpr(x->getSubExpr());
            }
            else if (auto* x = dyn_cast<IntegerLiteral>(e))
            {
                o["k"] = "lit";
                (void) x;
            }
            else if (isa<FloatingLiteral>(e) || isa<CXXBoolLiteralExpr>(e)
                     || isa<CharacterLiteral>(e))
            {
                o["k"] = "lit";
            }
            else if (auto* x = dyn_cast<StringLiteral>(e))
            {
                o["k"] = "lit";
                if (x->isAscii() || x->isUTF8())
                    o["s"] = x->getString().str();
            }
            else if (isa<CXXNullPtrLiteralExpr>(e) || isa<GNUNullExpr>(e))
            {
                o["k"] = "lit";
                o["null"] = true;
            }
            else if (isa<CXXThisExpr>(e))
            {
                o["k"] = "this";
            }
            else if (auto* x = dyn_cast<DeclRefExpr>(e))
            {
                const ValueDecl* vd = x->getDecl();
                o["k"] = "ref";
                o["n"] = vd->getDeclName().getAsString();
                if (auto* fd = dyn_cast<FunctionDecl>(vd))
                {
                    o["rk"] = "func";
                    calleeInfo(o, fd);
                }
                else if (auto* bd = dyn_cast<BindingDecl>(vd))
                {
                    o["rk"] = "binding";
                    o["d"] = declId(bd);
                    if (const Expr* be = bd->getBinding())
                        o["be"] = emitExpr(be);
                }
                else if (isa<EnumConstantDecl>(vd))
                {
                    o["rk"] = "enum";
                }
                else if (auto* var = dyn_cast<VarDecl>(vd))
                {
                    o["d"] = declId(var);
                    if (isa<ParmVarDecl>(var))
                        o["rk"] = "param";
                    else if (var->isLocalVarDecl())
                        o["rk"] = var->isStaticLocal() ? "slocal" : "local";
                    else if (var->isStaticDataMember())
                    {
                        o["rk"] = "smember";
                        o["cls"] = plainName(cast<NamedDecl>(var->getDeclContext()));
                    }
                    else
                        o["rk"] = "global";
                    if (x->refersToEnclosingVariableOrCapture())
                        o["cap"] = true;
                    if (var->getTLSKind() != VarDecl::TLS_None)
                        o["tls"] = true;
                    o["vt"] = typeId(var->getType());
                    if (var->getType()->isReferenceType())
                        o["isref"] = true;
                }
                else
                    o["rk"] = "other";
            }
            else if (auto* x = dyn_cast<MemberExpr>(e))
            {
                const ValueDecl* md = x->getMemberDecl();
                o["k"] = "member";
                o["n"] = md->getDeclName().getAsString();
                o["arrow"] = x->isArrow();
                o["b"] = emitExpr(x->getBase());
                if (auto* fd = dyn_cast<FieldDecl>(md))
                {
                    o["mk"] = "field";
                    o["cls"] = plainName(fd->getParent());
                    o["ft"] = typeId(fd->getType());
                    if (fd->isMutable())
                        o["mut"] = true;
                    if (auto* rd = dyn_cast<CXXRecordDecl>(fd->getParent()))
                        noteRecord(rd);
                }
                else if (auto* var = dyn_cast<VarDecl>(md))
                {
                    o["mk"] = "svar";
                    o["cls"] = plainName(cast<NamedDecl>(var->getDeclContext()));
                }
                else if (auto* m = dyn_cast<CXXMethodDecl>(md))
                {
                    o["mk"] = "method";
                    calleeInfo(o, m);
                }
                else
                    o["mk"] = "other";
            }
            else if (auto* x = dyn_cast<CXXOperatorCallExpr>(e))
            {
                o["k"] = "call";
                o["op"] = getOperatorSpelling(x->getOperator());
                const FunctionDecl* callee = x->getDirectCallee();
                calleeInfo(o, callee);
                json::Array args;
                unsigned first = 0;
                if (callee && isa<CXXMethodDecl>(callee) && x->getNumArgs() > 0)
                {
                    o["obj"] = emitExpr(x->getArg(0));
                    first = 1;
                }
                for (unsigned i = first; i < x->getNumArgs(); ++i)
                    args.push_back(emitExpr(x->getArg(i)));
                o["a"] = std::move(args);
            }
            else if (auto* x = dyn_cast<CXXMemberCallExpr>(e))
            {
                o["k"] = "call";
                const CXXMethodDecl* callee = x->getMethodDecl();
                calleeInfo(o, callee);
                if (const Expr* obj = x->getImplicitObjectArgument())
                    o["obj"] = emitExpr(obj);
                if (auto* me = dyn_cast<MemberExpr>(x->getCallee()->IgnoreParenImpCasts()))
                    o["arrow"] = me->isArrow();
                json::Array args;
                for (auto* a : x->arguments())
                    args.push_back(emitExpr(a));
                o["a"] = std::move(args);
            }
            else if (auto* x = dyn_cast<CallExpr>(e))
            {
                o["k"] = "call";
                const FunctionDecl* callee = x->getDirectCallee();
                calleeInfo(o, callee);
                if (!callee)
                    o["ce"] = emitExpr(x->getCallee());
                json::Array args;
                for (auto* a : x->arguments())
                    args.push_back(emitExpr(a));
                o["a"] = std::move(args);
            }
            else if (auto* x = dyn_cast<CXXConstructExpr>(e))
            {
                o["k"] = "construct";
                const CXXConstructorDecl* cd = x->getConstructor();
                o["cls"] = plainName(cd->getParent());
                if (cd->isCopyConstructor())
                    o["copy"] = true;
                if (cd->isMoveConstructor())
                    o["move"] = true;
                const FunctionDecl* def = definitionOf(cd);
                if (def && !def->isDependentContext() && isLibFunction(def) && !def->isDefaulted()
                    && !def->isDeleted())
                    o["fid"] = funcId(def);
                if (auto* rd = cd->getParent())
                    noteRecord(rd);
                json::Array args;
                for (auto* a : x->arguments())
                    args.push_back(emitExpr(a));
                o["a"] = std::move(args);
            }
            else if (auto* x = dyn_cast<CXXNewExpr>(e))
            {
                o["k"] = "new";
                if (x->getInitializer())
                    o["e"] = emitExpr(x->getInitializer());
            }
            else if (auto* x = dyn_cast<CXXDeleteExpr>(e))
            {
                o["k"] = "delete";
                o["e"] = emitExpr(x->getArgument());
            }
            else if (auto* x = dyn_cast<InitListExpr>(e))
            {
                o["k"] = "initlist";
                const InitListExpr* sem = x->isSemanticForm() ? x : x->getSemanticForm();
                if (!sem)
                    sem = x;
                json::Array args;
                for (auto* a : sem->inits())
                    args.push_back(emitExprOpt(a));
                o["a"] = std::move(args);
            }
            else if (auto* x = dyn_cast<CXXStdInitializerListExpr>(e))
            {
                return emitExpr(x->getSubExpr());
            }
            else if (auto* x = dyn_cast<CXXThrowExpr>(e))
            {
                o["k"] = "throw";
                o["e"] = emitExprOpt(x->getSubExpr());
            }
            else if (auto* x = dyn_cast<LambdaExpr>(e))
            {
                o["k"] = "lambda";
                const CXXMethodDecl* op = x->getCallOperator();
                if (op && op->hasBody() && !op->isDependentContext() && !x->isGenericLambda())
                    o["fid"] = funcId(op);
                else
                {
                    // generic lambda: the instantiated specialisations of its call operator
                    o["generic"] = true;
                    json::Array fids;
                    if (op)
                        if (auto* ftd = op->getDescribedFunctionTemplate())
                            for (auto* spec : ftd->specializations())
                            {
                                const FunctionDecl* sdef = definitionOf(spec);
                                if (sdef && sdef->hasBody() && !sdef->isDependentContext())
                                    fids.push_back(funcId(sdef));
                            }
                    if (fids.size() == 1)
                        o["fid"] = *fids[0].getAsInteger();
                    o["fids"] = std::move(fids);
                }
                o["lcls"] = typeId(Ctx.getRecordType(x->getLambdaClass()));
                json::Array caps;
                auto initIt = x->capture_init_begin();
                for (auto it = x->capture_begin(); it != x->capture_end(); ++it, ++initIt)
                {
                    json::Object c;
                    if (it->capturesThis())
                    {
                        c["this"] = true;
                    }
                    else if (it->capturesVariable())
                    {
                        const VarDecl* v = it->getCapturedVar();
                        c["n"] = v->getName().str();
                        c["d"] = declId(v);
                        c["byref"] = it->getCaptureKind() == LCK_ByRef;
                        if (v->isInitCapture())
                        {
                            c["initcap"] = true;
                            if (v->getInit())
                                c["init"] = emitExpr(v->getInit());
                        }
                        c["vt"] = typeId(v->getType());
                    }
                    caps.push_back(std::move(c));
                }
                o["caps"] = std::move(caps);
            }
            else if (auto* x = dyn_cast<UnaryOperator>(e))
            {
                o["k"] = "unop";
                o["op"] = UnaryOperator::getOpcodeStr(x->getOpcode()).str();
                if (x->isPostfix())
                    o["post"] = true;
                o["e"] = emitExpr(x->getSubExpr());
            }
            else if (auto* x = dyn_cast<BinaryOperator>(e))
            {
                o["k"] = "binop";
                o["op"] = x->getOpcodeStr().str();
                o["lhs"] = emitExpr(x->getLHS());
                o["rhs"] = emitExpr(x->getRHS());
            }
            else if (auto* x = dyn_cast<ConditionalOperator>(e))
            {
                o["k"] = "cond";
                o["c"] = emitExpr(x->getCond());
                o["then"] = emitExpr(x->getTrueExpr());
                o["else"] = emitExpr(x->getFalseExpr());
            }
            else if (auto* x = dyn_cast<ArraySubscriptExpr>(e))
            {
                o["k"] = "index";
                o["b"] = emitExpr(x->getBase());
                o["i"] = emitExpr(x->getIdx());
            }
            else if (auto* x = dyn_cast<UnaryExprOrTypeTraitExpr>(e))
            {
                o["k"] = "lit";
                (void) x;
            }
            else if (auto* x = dyn_cast<CXXScalarValueInitExpr>(e))
            {
                o["k"] = "lit";
                o["zero"] = true;
                (void) x;
            }
            else if (auto* x = dyn_cast<ImplicitValueInitExpr>(e))
            {
                o["k"] = "lit";
                o["zero"] = true;
                (void) x;
            }
            else if (auto* x = dyn_cast<CXXFoldExpr>(e))
            {
                o["k"] = "other";
                o["cn"] = "CXXFoldExpr";
                (void) x;
            }
            else if (auto* x = dyn_cast<OpaqueValueExpr>(e))
            {
                if (x->getSourceExpr())
                    return emitExpr(x->getSourceExpr());
                o["k"] = "other";
                o["cn"] = "OpaqueValueExpr";
            }
            else if (auto* x = dyn_cast<ArrayInitLoopExpr>(e))
            {
                o["k"] = "other";
                o["cn"] = "ArrayInitLoopExpr";
                o["e"] = emitExpr(x->getCommonExpr());
            }
            else
            {
                o["k"] = "other";
                o["cn"] = e->getStmtClassName();
                json::Array ch;
                for (const Stmt* c : e->children())
                    if (auto* ce = dyn_cast_or_null<Expr>(c))
                        ch.push_back(emitExpr(ce));
                o["a"] = std::move(ch);
            }
            return std::move(o);
        }

        // ---------------------------------------------------------------- statements
        json::Value emitVar(const VarDecl* v)
        {
            json::Object o;
            o["d"] = declId(v);
            o["n"] = v->getName().str();
            o["t"] = typeId(v->getType());
            o["l"] = locOf(v->getLocation());
            if (v->getType()->isReferenceType())
                o["isref"] = true;
            if (v->getType().getNonReferenceType().isConstQualified())
                o["const"] = true;
            if (v->isStaticLocal())
                o["static"] = true;
            if (v->getTLSKind() != VarDecl::TLS_None)
                o["tls"] = true;
            if (v->hasInit())
                o["init"] = emitExpr(v->getInit());
            if (auto* dd = dyn_cast<DecompositionDecl>(v))
            {
                json::Array bs;
                for (auto* b : dd->bindings())
                {
                    json::Object bo;
                    bo["d"] = declId(b);
                    bo["n"] = b->getName().str();
                    if (const Expr* be = b->getBinding())
                        bo["be"] = emitExpr(be);
                    if (const VarDecl* hv = b->getHoldingVar())
                        bo["hv"] = emitVar(hv);
                    bs.push_back(std::move(bo));
                }
                o["bindings"] = std::move(bs);
            }
            if (auto* rd = v->getType().getNonReferenceType()->getAsCXXRecordDecl())
                noteRecord(rd);
            return std::move(o);
        }

        json::Value emitStmtOpt(const Stmt* s)
        {
            if (!s)
                return nullptr;
            return emitStmt(s);
        }

        json::Value emitStmt(const Stmt* s)
        {
            if (auto* e = dyn_cast<Expr>(s))
            {
                json::Object o;
                o["k"] = "expr";
                o["l"] = locOf(e->getExprLoc());
                o["e"] = emitExpr(e);
                return std::move(o);
            }
            json::Object o;
            o["l"] = locOf(s->getBeginLoc());
            if (auto* x = dyn_cast<CompoundStmt>(s))
            {
                o["k"] = "compound";
                json::Array b;
                for (auto* c : x->body())
                    b.push_back(emitStmt(c));
                o["b"] = std::move(b);
            }
            else if (auto* x = dyn_cast<IfStmt>(s))
            {
                o["k"] = "if";
                if (x->isConstexpr())
                    o["constexpr"] = true;
                if (x->getInit())
                    o["init"] = emitStmt(x->getInit());
                if (x->getConditionVariable())
                    o["cvar"] = emitVar(x->getConditionVariable());
                o["c"] = emitExpr(x->getCond());
                o["then"] = emitStmtOpt(x->getThen());
                o["else"] = emitStmtOpt(x->getElse());
            }
            else if (auto* x = dyn_cast<ForStmt>(s))
            {
                o["k"] = "for";
                o["init"] = emitStmtOpt(x->getInit());
                o["c"] = x->getCond() ? emitExpr(x->getCond()) : json::Value(nullptr);
                o["inc"] = x->getInc() ? emitExpr(x->getInc()) : json::Value(nullptr);
                o["body"] = emitStmtOpt(x->getBody());
            }
            else if (auto* x = dyn_cast<WhileStmt>(s))
            {
                o["k"] = "while";
                o["c"] = emitExpr(x->getCond());
                o["body"] = emitStmtOpt(x->getBody());
            }
            else if (auto* x = dyn_cast<DoStmt>(s))
            {
                o["k"] = "do";
                o["c"] = emitExpr(x->getCond());
                o["body"] = emitStmtOpt(x->getBody());
            }
            else if (auto* x = dyn_cast<CXXForRangeStmt>(s))
            {
                o["k"] = "rangefor";
                o["var"] = emitVar(x->getLoopVariable());
                o["range"] = emitExpr(x->getRangeInit());
                o["body"] = emitStmtOpt(x->getBody());
            }
            else if (auto* x = dyn_cast<ReturnStmt>(s))
            {
                o["k"] = "return";
                o["e"] = emitExprOpt(x->getRetValue());
            }
            else if (isa<BreakStmt>(s))
            {
                o["k"] = "break";
            }
            else if (isa<ContinueStmt>(s))
            {
                o["k"] = "continue";
            }
            else if (isa<NullStmt>(s))
            {
                o["k"] = "null";
            }
            else if (auto* x = dyn_cast<DeclStmt>(s))
            {
                o["k"] = "decl";
                json::Array vars;
                for (auto* d : x->decls())
                {
                    if (auto* v = dyn_cast<VarDecl>(d))
                        vars.push_back(emitVar(v));
                }
                o["vars"] = std::move(vars);
            }
            else if (auto* x = dyn_cast<SwitchStmt>(s))
            {
                o["k"] = "switch";
                o["c"] = emitExpr(x->getCond());
                o["body"] = emitStmtOpt(x->getBody());
                // number of enumerators when the condition is of enumeration type (exhaustiveness)
                {
                    QualType ct = x->getCond()->IgnoreParenImpCasts()->getType();
                    if (const auto* et = ct->getAs<EnumType>())
                    {
                        int n = 0;
                        for (auto it = et->getDecl()->enumerator_begin(); it != et->getDecl()->enumerator_end(); ++it)
                            ++n;
                        o["enum_n"] = n;
                    }
                    if (x->isAllEnumCasesCovered())
                        o["all_enum"] = true;
                }
            }
            else if (auto* x = dyn_cast<CaseStmt>(s))
            {
                o["k"] = "case";
                o["v"] = emitExpr(x->getLHS());
                o["body"] = emitStmtOpt(x->getSubStmt());
            }
            else if (auto* x = dyn_cast<DefaultStmt>(s))
            {
                o["k"] = "default";
                o["body"] = emitStmtOpt(x->getSubStmt());
            }
            else if (auto* x = dyn_cast<CXXTryStmt>(s))
            {
                o["k"] = "try";
                o["body"] = emitStmt(x->getTryBlock());
                json::Array hs;
                for (unsigned i = 0; i < x->getNumHandlers(); ++i)
                    hs.push_back(emitStmtOpt(x->getHandler(i)->getHandlerBlock()));
                o["handlers"] = std::move(hs);
            }
            else if (auto* x = dyn_cast<AttributedStmt>(s))
            {
                return emitStmt(x->getSubStmt());
            }
            else
            {
                o["k"] = "otherstmt";
                o["cn"] = s->getStmtClassName();
            }
            return std::move(o);
        }

        // ---------------------------------------------------------------- functions
        void emitFunction(const FunctionDecl* def)
        {
            json::Object f;
            f["fid"] = FuncIds[def];
            f["qn"] = def->getQualifiedNameAsString();
            f["bn"] = plainName(def);
            f["n"] = def->getDeclName().getAsString();
            const FunctionDecl* pat = patternDefOf(def);
            f["ploc"] = locOf(pat->getLocation());
            f["loc"] = locOf(def->getLocation());
            f["inst"] = def->getTemplateInstantiationPattern() != nullptr;
            f["rt"] = typeId(def->getReturnType());
            if (auto* md = dyn_cast<CXXMethodDecl>(def))
            {
                const CXXRecordDecl* rd = md->getParent();
                f["cls"] = plainName(rd);
                f["clst"] = typeId(Ctx.getRecordType(rd));
                f["const"] = md->isConst();
                f["static"] = md->isStatic();
                f["virt"] = md->isVirtual();
                switch (md->getAccess())
                {
                    case AS_public:
                        f["acc"] = "public";
                        break;
                    case AS_protected:
                        f["acc"] = "protected";
                        break;
                    case AS_private:
                        f["acc"] = "private";
                        break;
                    default:
                        f["acc"] = "none";
                }
                if (rd->isLambda())
                {
                    f["lambda"] = true;
                    // enclosing function
                    const DeclContext* dc = rd->getDeclContext();
                    while (dc && !isa<FunctionDecl>(dc))
                        dc = dc->getParent();
                    if (auto* ef = dyn_cast_or_null<FunctionDecl>(dc))
                    {
                        const FunctionDecl* edef = definitionOf(ef);
                        if (edef && FuncIds.count(edef))
                            f["encl"] = FuncIds[edef];
                    }
                }
                noteRecord(rd);
            }
            if (isa<CXXConstructorDecl>(def))
                f["ctor"] = true;
            if (isa<CXXDestructorDecl>(def))
                f["dtor"] = true;

            json::Array params;
            for (auto* p : def->parameters())
            {
                json::Object po;
                po["d"] = declId(p);
                po["n"] = p->getName().str();
                po["t"] = typeId(p->getType());
                if (p->getType()->isReferenceType())
                    po["isref"] = true;
                if (p->getType().getNonReferenceType().isConstQualified())
                    po["const"] = true;
                params.push_back(std::move(po));
            }
            f["params"] = std::move(params);

            if (auto* cd = dyn_cast<CXXConstructorDecl>(def))
            {
                json::Array inits;
                for (auto* ci : cd->inits())
                {
                    json::Object io;
                    if (ci->isAnyMemberInitializer())
                    {
                        io["field"] = ci->getAnyMember()->getName().str();
                        io["written"] = ci->isWritten();
                    }
                    else if (ci->isBaseInitializer())
                    {
                        io["base"] = typeId(QualType(ci->getBaseClass(), 0));
                    }
                    else if (ci->isDelegatingInitializer())
                    {
                        io["delegating"] = true;
                    }
                    io["l"] = locOf(ci->getSourceLocation());
                    if (ci->getInit())
                        io["init"] = emitExpr(ci->getInit());
                    inits.push_back(std::move(io));
                }
                f["inits"] = std::move(inits);
            }
            f["body"] = emitStmtOpt(def->getBody());
            Functions.push_back(std::move(f));
        }

        void emitRecord(const CXXRecordDecl* rd)
        {
            json::Object r;
            r["bn"] = plainName(rd);
            r["t"] = typeId(Ctx.getRecordType(rd));
            r["l"] = locOf(rd->getLocation());
            const CXXRecordDecl* pat = rd->getTemplateInstantiationPattern();
            r["ploc"] = locOf((pat ? pat : rd)->getLocation());
            json::Array fields;
            for (auto* fd : rd->fields())
            {
                json::Object fo;
                fo["n"] = fd->getName().str();
                fo["t"] = typeId(fd->getType());
                fo["l"] = locOf(fd->getLocation());
                if (fd->isMutable())
                    fo["mut"] = true;
                if (fd->getType()->isReferenceType())
                    fo["isref"] = true;
                if (fd->getType().getNonReferenceType().isConstQualified())
                    fo["const"] = true;
                if (fd->hasInClassInitializer() && fd->getInClassInitializer())
                    fo["init"] = emitExpr(fd->getInClassInitializer());
                fields.push_back(std::move(fo));
            }
            r["fields"] = std::move(fields);
            json::Array svars;
            for (auto* d : rd->decls())
            {
                if (auto* v = dyn_cast<VarDecl>(d))
                {
                    if (!v->isStaticDataMember())
                        continue;
                    json::Object vo;
                    vo["n"] = v->getName().str();
                    vo["t"] = typeId(v->getType());
                    vo["l"] = locOf(v->getLocation());
                    if (v->getType()->isIntegralOrEnumerationType()
                        || v->getType()->isFloatingType())
                    {
                        if (v->isConstexpr() || v->getType().isConstQualified())
                        {
                            const VarDecl* dv = nullptr;
                            const Expr* init = v->getAnyInitializer(dv);
                            if (init && dv && !init->isValueDependent())
                                if (const APValue* val = dv->evaluateValue())
                                    putAPValue(vo, *val, v->getType());
                        }
                    }
                    {
                        const VarDecl* dv2 = nullptr;
                        const Expr* init2 = v->getAnyInitializer(dv2);
                        if (init2 && !init2->isValueDependent() && vo.find("cv") == vo.end())
                            vo["init"] = emitExpr(init2);
                    }
                    svars.push_back(std::move(vo));
                }
            }
            r["svars"] = std::move(svars);
            json::Array bases;
            for (auto& b : rd->bases())
            {
                json::Object bo;
                bo["t"] = typeId(b.getType());
                if (auto* brd = b.getType()->getAsCXXRecordDecl())
                {
                    bo["bn"] = plainName(brd);
                    noteRecord(brd);
                }
                bases.push_back(std::move(bo));
            }
            r["bases"] = std::move(bases);
            json::Array methods;
            for (auto* m : rd->methods())
            {
                if (m->isImplicit())
                    continue;
                json::Object mo;
                mo["n"] = m->getDeclName().getAsString();
                mo["const"] = m->isConst();
                switch (m->getAccess())
                {
                    case AS_public:
                        mo["acc"] = "public";
                        break;
                    case AS_protected:
                        mo["acc"] = "protected";
                        break;
                    default:
                        mo["acc"] = "private";
                }
                const FunctionDecl* def = definitionOf(m);
                if (def && FuncIds.count(def))
                    mo["fid"] = FuncIds[def];
                if (isa<CXXConstructorDecl>(m))
                    mo["ctor"] = true;
                methods.push_back(std::move(mo));
            }
            r["methods"] = std::move(methods);
            Records.push_back(std::move(r));
        }

        void drain()
        {
            while (!Work.empty())
            {
                const FunctionDecl* fd = Work.front();
                Work.pop_front();
                emitFunction(fd);
            }
            while (!RecordWork.empty())
            {
                const CXXRecordDecl* rd = RecordWork.front();
                RecordWork.pop_front();
                emitRecord(rd);
                // emitting a record may reference functions (in-class initialisers)
                while (!Work.empty())
                {
                    const FunctionDecl* fd = Work.front();
                    Work.pop_front();
                    emitFunction(fd);
                }
            }
        }
    };

    class Visitor : public RecursiveASTVisitor<Visitor>
    {
    public:
        Visitor(Emitter& e)
            : E(e)
        {
        }
        bool shouldVisitTemplateInstantiations() const
        {
            return true;
        }
        bool shouldVisitImplicitCode() const
        {
            return false;
        }

        bool VisitFunctionDecl(FunctionDecl* fd)
        {
            if (!fd->doesThisDeclarationHaveABody())
                return true;
            // pattern inventory
            bool lib = E.inLib(fd->getLocation());
            if (lib && fd->isDependentContext())
            {
                json::Object p;
                p["ploc"] = E.locOf(fd->getLocation());
                p["bn"] = E.plainName(fd);
                p["dep"] = true;
                E.Patterns.push_back(std::move(p));
                return true;
            }
            if (lib && !fd->getTemplateInstantiationPattern())
            {
                json::Object p;
                p["ploc"] = E.locOf(fd->getLocation());
                p["bn"] = E.plainName(fd);
                p["dep"] = false;
                E.Patterns.push_back(std::move(p));
            }
            E.addRoot(fd);
            return true;
        }

        bool VisitCXXRecordDecl(CXXRecordDecl* rd)
        {
            if (rd->isThisDeclarationADefinition() && !rd->isDependentContext())
                E.noteRecord(rd);
            return true;
        }

        Emitter& E;
    };

    class Consumer : public ASTConsumer
    {
    public:
        void HandleTranslationUnit(ASTContext& ctx) override
        {
            if (ctx.getDiagnostics().hasErrorOccurred())
            {
                llvm::errs() << "fsx: compilation errors, no output\n";
                return;
            }
            Emitter E(ctx);
            Visitor V(E);
            V.TraverseDecl(ctx.getTranslationUnitDecl());
            E.drain();

            json::Object root;
            root["functions"] = std::move(E.Functions);
            root["records"] = std::move(E.Records);
            root["patterns"] = std::move(E.Patterns);
            json::Array types;
            for (auto& t : E.Types)
                types.push_back(t);
            root["types"] = std::move(types);
            json::Array files;
            for (auto& f : E.Files)
                files.push_back(f);
            root["files"] = std::move(files);

            std::error_code ec;
            llvm::raw_fd_ostream os(OutFile, ec);
            if (ec)
            {
                llvm::errs() << "fsx: cannot write " << OutFile << "\n";
                return;
            }
            os << json::Value(std::move(root));
            os << "\n";
        }
    };

    class Action : public ASTFrontendAction
    {
    public:
        std::unique_ptr<ASTConsumer> CreateASTConsumer(CompilerInstance&, StringRef) override
        {
            return std::make_unique<Consumer>();
        }
    };

}  // namespace

int
main(int argc, const char** argv)
{
    auto parser = tooling::CommonOptionsParser::create(argc, argv, FsxCat);
    if (!parser)
    {
        llvm::errs() << llvm::toString(parser.takeError()) << "\n";
        return 2;
    }
    tooling::ClangTool tool(parser->getCompilations(), parser->getSourcePathList());
    int rc = tool.run(tooling::newFrontendActionFactory<Action>().get());
    return rc;
}
