#!/usr/bin/python3
"""tool/splice_table.py: copies the table of seeded/SEEDED.md into DESIGN.md section 13 (between the table
header and the 'N seeded changes kept' line)"""
import os, re
V = os.path.dirname(os.path.dirname(os.path.abspath(__file__)))
t = open(os.path.join(V, "seeded", "SEEDED.md")).read().splitlines()
i = next(k for k, l in enumerate(t) if l.startswith("| id | change"))
table = t[i:]
d = open(os.path.join(V, "DESIGN.md")).read().splitlines()
a = next(k for k, l in enumerate(d) if l.startswith("| id | change | needs to manifest"))
b = next(k for k, l in enumerate(d) if re.match(r"^\d+ seeded changes kept", l))
d[a:b + 1] = [l for l in table if l.strip() or True]
while d[a + len(table) - 1] == "":
    break
open(os.path.join(V, "DESIGN.md"), "w").write("\n".join(d) + "\n")
print("spliced", len(table), "lines")
