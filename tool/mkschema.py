#!/usr/bin/python3
"""tool/mkschema.py: records the member / method names of every fastscapelib record as extracted from the
CURRENT /repo tree into /verif/anchor_schema.json.  The rule modules anchor on these names; when a later
tree renames a private member or method (same type / same signature, unique match) fsverif/sir.py maps the
new name back to the recorded one, so that a pure rename neither breaks nor silences a check."""
import json, os, sys
V = os.path.dirname(os.path.dirname(os.path.abspath(__file__)))
sys.path.insert(0, V)
os.environ["FSVERIF_NO_RENAME"] = "1"
from fsverif import extract
from fsverif.sir import schema_of
db, info = extract.load(None, quiet=True)
out = {"generated_from": info.get("cache_key"), "units": {}}
for name, u in sorted(db.units.items()):
    out["units"][name] = schema_of(u)
json.dump(out, open(os.path.join(V, "anchor_schema.json"), "w"), indent=0, sort_keys=True)
print("schema:", {k: (len(v["records"]), len(v["methods"])) for k, v in out["units"].items()})
