#!/usr/bin/python3
"""tool/seed_recheck.py [-j N] [--only ID]: applies every seeded/<id>/patch.diff to a scratch copy of the
CURRENT /repo tree, runs all checks (quick tier) against it and records the verdicts in
seeded/<id>/meta.json under "checks_now" / "caught_by" / "analysis_broken"."""
import glob, json, os, shutil, subprocess, sys, tempfile
from concurrent.futures import ThreadPoolExecutor
V = os.path.dirname(os.path.dirname(os.path.abspath(__file__)))
ALL = [c["property_id"] for c in json.load(open(os.path.join(V, "MANIFEST.json")))["checks"]]

CHECK_TIMEOUT = 1200      # seconds per check: a runaway analysis is reported, not waited for


def _run_check(cmd, **kw):
    try:
        return subprocess.run(cmd, **kw)
    except subprocess.TimeoutExpired:
        class _R:
            returncode = 124
            stdout = "ANALYSIS-BROKEN: the check did not finish within %d s\n" % CHECK_TIMEOUT
            stderr = ""
        return _R()


def one(d):
    sid = os.path.basename(d)
    tmp = tempfile.mkdtemp(prefix="fsvseed.", dir="/var/tmp")
    try:
        shutil.copytree("/repo/include", os.path.join(tmp, "include"))
        shutil.copytree("/repo/doc", os.path.join(tmp, "doc"))
        r = subprocess.run(["patch", "-p1", "-s", "-d", tmp, "-i", os.path.join(d, "patch.diff")],
                           capture_output=True, text=True)
        if r.returncode != 0:
            return sid, None, "patch does not apply to the current tree: " + (r.stdout + r.stderr)[-200:]
        env = dict(os.environ, FSVERIF_REPO=tmp, FSVERIF_CACHE=os.path.join(tmp, ".cache"),
                   FSVERIF_EVIDENCE=os.path.join(tmp, "evidence"))
        res = {}
        for c in ALL:
            r = _run_check([os.path.join(V, "check"), c], capture_output=True, text=True, env=env, cwd=V, timeout=CHECK_TIMEOUT)
            first = [l for l in r.stdout.splitlines() if l.startswith("  rule") or l.startswith("ANALYSIS")]
            res[c] = {"exit": r.returncode, "first": first[0][:260] if first else ""}
        return sid, res, ""
    finally:
        shutil.rmtree(tmp, ignore_errors=True)


def main():
    j = int(sys.argv[sys.argv.index("-j") + 1]) if "-j" in sys.argv else 6
    only = sys.argv[sys.argv.index("--only") + 1] if "--only" in sys.argv else None
    dirs = [d for d in sorted(glob.glob(os.path.join(V, "seeded", "C*-*"))) if not only or only in d]
    bad = 0
    with ThreadPoolExecutor(max_workers=j) as ex:
        for sid, res, err in ex.map(one, dirs):
            mp = os.path.join(V, "seeded", sid, "meta.json")
            m = json.load(open(mp))
            if res is None:
                print(sid, "ERROR", err)
                bad += 1
                continue
            m["checks_now"] = res
            m["caught_by"] = sorted(c for c, v in res.items() if v["exit"] == 1)
            m["analysis_broken"] = sorted(c for c, v in res.items() if v["exit"] == 2)
            json.dump(m, open(mp, "w"), indent=1)
            print("%-7s caught by %-22s exit2: %s" % (sid, ",".join(m["caught_by"]) or "NOTHING", ",".join(m["analysis_broken"]) or "-"))
            if not m["caught_by"]:
                bad += 1
    return 1 if bad else 0


if __name__ == "__main__":
    sys.exit(main())
