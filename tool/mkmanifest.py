#!/usr/bin/python3
"""Regenerates /verif/MANIFEST.json from the table below (single source of truth)."""
import json, os
VERIF = os.path.dirname(os.path.dirname(os.path.abspath(__file__)))
props = [json.loads(l) for l in open(os.path.join(VERIF, "properties.jsonl"))]

TB = ("clang 14 front end + constant evaluator; bin/fsx serialisation of the instantiated AST; the "
      "std::/xt:: effect table; the rule definitions; only instantiations present in /verif/drivers "
      "are analysed (python bindings / Eigen adaptor are not parsed)")

CLAIMED = {
 "C08": dict(technique="custom clang-LibTooling AST extraction + guard-order (short-circuit aware must-facts) and must-precede dataflow rules; constant evaluation of table shapes",
             text="Static decision of three necessary clauses of memory safety named by the property's anchors (filter call guarded by the bounds test, donors-table width, resume-before-resize) on every instantiated grid type, all paths, of 'no read after move', of 'no built-in shift by an unbounded amount', and -- shared with other properties' bounded interpretations -- that the spanning-tree resolver interpreted as a whole on small node graphs (with and without a masked node) and the mesh / basin-graph code index no table out of bounds, and that no setter overload leaves a stride describing the previous array. The bulk of index arithmetic over runtime data is not decided.",
             ref="§5 C08"),
 "C11": dict(technique="custom AST rules on resolved std::atomic / condition_variable / lock calls: memory-order constants, predicate-wait and state-change-under-mutex discipline, must-precede ordering of the handshake",
             text="Static decision, on all paths of thread_pool's functions, of the synchronisation discipline (release/acquire hand-off, no lost wake-up by construction, handshake ordering, run_tasks() publishes the task set installed by the preceding set_tasks()), and, within a bound, of the block partition arithmetic and of run_blocks' dispatch (each index exactly once, twice on the same pool). Exactly-once execution under every schedule is not decided as such.",
             ref="§5 C11"),
 "C13": dict(technique="abstract interpretation over (a) an interval domain for the linear-case classification and the Newton exit test, (b) an exact rational-function domain with uninterpreted pow (numeric representatives deciding the control path) for the discrete equation; who-may-write rule",
             text="Decides, as symbolic identities valid for all values, that the linear-case erosion is the exact solution of the backward-Euler equation (1 and 2 receivers) and that the Newton loop evaluates the residual / update of that equation; (in single- and multi-column tables); that the linear-case classification is two-sided and the Newton exit test is two-sided (|residual| <= tolerance); that the overloads of set_k_coef agree on the state they replace. The residual actually reached, rounding and iteration counts are numerical and not decided.",
             ref="§5 C13, §12.2"),
 "C10": dict(technique="effect summaries (access paths, aliases, index shapes, callee summaries through returned references) of every run_blocks callable per grid type; must-precede rule for the sequential donors rebuild; sibling write-set agreement",
             text="Decides race freedom of the parallel regions by an effect discipline (shared objects written only at block-derived indices) for all 7 grid instantiations and all paths, plus the ordering of the donors rebuild. Numeric equality beyond race freedom and identical per-index logic is not decided; user kernel callbacks are assumed index-partitioned.",
             ref="§5 C10"),
 "C16": dict(technique="effect summaries of all operator implementations and query functions + must-write (all-paths) analysis of the snapshot copy routine; guard-dominance analysis of flow_graph mutators",
             text="Decides copy completeness of graph snapshots (every member operators write and snapshot queries read is copied on every path, with column-shape reasoning) and that every mutating public method is dominated by the read-only guard, for all 7 grid instantiations. Equality with a prefix-only graph on all inputs is not decided as such.",
             ref="§5 C16"),
 "C09": dict(technique="effect summaries vs declared constexpr flags; guard analysis of the const_cast pass-through; interprocedural must-kill-before-read audit of all members that persist between calls; unordered-iteration / heap-comparator totality rule; parameter-capture rule; who-may-write purity of the neighbour memo",
             text="Decides, for all 7 grid instantiations and all paths, the shape-level sources of impurity of update_routes: undeclared elevation writes, const_cast pass-through, every persistent member read before being reset (with a reasoned exception table), history-dependent iteration order feeding a heap, operator parameters frozen by cached helpers, impure neighbour memo. Bit-equality of floating-point results as such is not decided.",
             ref="§5 C09"),
 "C17": dict(technique="abstract interpretation of the status-composition code over an abstract array of first/middle/last index classes, exhaustive over all border-status combinations; truth-table interpretation of the symmetry check; guard-order rule and bounded exhaustive interpretation of the filtered iterator",
             text="Decides the documented status composition (borders, corner precedence, overrides, rejections) for every border combination and every shape >= 3 per axis by exhaustive abstract interpretation of set_nodes_status / the boundary-status constructors, the default base-level seeding and the filter predicate; the iterator is decided structurally plus a bounded (size <= 5) exhaustive interpretation. The xtensor view library is modelled, not analysed.",
             ref="§5 C17"),
 "C20": dict(technique="exhaustive abstract interpretation (exact flag domain) of the sequence builder, move constructor and flow_graph constructor checks for every operator sequence up to length 3/4 against a declarative specification; documented flag table vs constexpr flags; declared vs actual effects via effect summaries",
             text="Decides acceptance/rejection, reported direction, single-column storage, snapshot keys and pass-through for every sequence of <= 3 (quick) / <= 4 (thorough) operators by interpreting the library's own validation code, plus agreement of declared flags with documentation and with the actual effects of each implementation.",
             ref="§5 C20"),
 "C01": dict(technique="exhaustive abstract interpretation (order domain with exact successor semantics, finite neighbourhood scenarios) of router eligibility, MST tilt and priority-flood step; typestate rule on the recomputation of donors/orders",
             text="Decides the resolver->router contract for every order-isomorphism class of neighbourhoods: any strictly lower unmasked neighbour is eligible in all three router bodies, base/masked nodes never drain, both resolvers leave every reached node strictly above its parent/receiver; the MST resolver acts whenever a pit exists; and, bounded end to end (mst_sink_resolver::apply as a whole on small node graphs, all elevation assignments from 3 levels), every node reaches a base level along strictly decreasing elevations. Termination, acyclicity and reachability on larger graphs are not decided.",
             ref="§5 C01"),
 "C02": dict(technique="abstract interpretation with a write log of the two elevation write sites over all order classes of the compared values; exact result on tree-shaped abstract neighbourhoods",
             text="Decides the shape-level clauses only: every elevation write raises, masked/base/outlet nodes are never written, on tree-shaped neighbourhoods the result is exactly the spill level plus one increment, and -- bounded -- the minimax spill level within one increment per node for the priority flood on every graph of <= 3/4 nodes and for the spanning-tree resolver (apply() end to end) on small node graphs. Larger graphs are not decided.",
             ref="§5 C02 / §6"),
 "C04": dict(technique="exhaustive abstract interpretation (order/flag domain, whitelisted lemmas) of single_flow_router::apply -- sequential body and parallel callable -- over all neighbourhood scenarios, against a declarative steepest-descent oracle; sibling outcome agreement",
             text="Decides the receiver-selection logic for every input up to order isomorphism of the neighbourhood (<= 2 quick / 3 thorough neighbours enumerated): own receiver iff no unmasked strictly lower neighbour, else an argmax of the computed slope with its distance, weight one; sequential and parallel bodies agree. Correctness of grid.neighbors() is C07; float vs real slope order is not decided.",
             ref="§5 C04"),
 "C05": dict(technique="exhaustive abstract interpretation of multi_flow_router::apply over neighbourhood scenarios; scaled-magnitude abstract domain deciding that the normalising sum cannot be 0/inf/NaN",
             text="Decides receiver membership/order/distances/count, donor registration, that all weights are normalised by the same complete sum, and that this sum is finite and non-zero for every slope magnitude and exponent >= 0. Numerical proportionality to slope^p is not decided.",
             ref="§5 C05"),
 "C06": dict(technique="typestate (must-fact) analysis with callee transformers and effect summaries over every graph-updating operator",
             text="Decides that after receivers change, donors, bottom-up and breadth-first orders are rebuilt in dependency order before every exit and before being read, and that multi-direction routers use the Kahn order, for all 7 grid instantiations. Correctness of the traversal algorithms on arbitrary graphs is not decided.",
             ref="§5 C06"),
 "C03": dict(technique="exhaustive interpretation of accumulate over an exact symbolic domain (free polynomials over source/area/weight symbols) on all small flow graphs; must-kill analysis of the output array; overload delegation rule",
             text="Decides that accumulate computes the upstream-integral recurrence exactly (symbolically) on every flow graph of <= 3/4 nodes with array and scalar sources, that the output array is reset on every path before accumulation, and that all public overloads reach the same implementation. Floating-point rounding and the weights-sum-to-one precondition (C05/C04) are not decided here.",
             ref="§5 C03"),
 "C12": dict(technique="interval interpretation of the exponent validation; must-kill analysis of erode's persistent members; abstract interpretation of the per-node sweep body (order representatives + opaque numerics, forking on undetermined comparisons)",
             text="Decides the rejection rule for exponents != 1 on multi-direction graphs, the per-step reset of erosion/counter, and the control structure that guarantees zero erosion at outlets/pits/lake nodes, the minimality of the lake level and the clamp of the new elevation at the lake level on every path. Non-negativity beyond rounding and all numerics are not decided.",
             ref="§5 C12"),
 "C19": dict(technique="exhaustive abstract interpretation (flag domain) of compute_basins/pits over all short bottom-up sequences; must-kill analysis; must-precede freshness rule",
             text="Decides the labelling case analysis (masked -> reserved label, roots -> consecutive new labels + outlets, others -> current label), pits = non-base outlets, list resets, and that library-internal readers recompute basins first. 'Same label as its receiver' on arbitrary graphs depends on the bottom-up order property and is not decided.",
             ref="§5 C19"),
 "C07": dict(technique="symbolic abstract interpretation of the raster/profile neighbour tables (offsets, counts, linearisation) for every connectivity x looping configuration x node code x axis-length class; who-may-write purity; interpretation of the by-reference accessors for output-size agreement; concrete interpretation of the distance table builder and of the (row, col) accessors on representative shapes",
             text="Decides that offset lists, neighbour counts and index linearisation equal the geometric specification for symbolic shapes (>= 3 per axis, plus the concrete 2-node class), that neighbour look-ups are memos of a pure function (cache on/off and query order cannot matter), that accessors draw from the same sources and return exactly `count` entries; on representative shapes (every looping configuration, spacing dy != dx) that every entry of the per-code distance table is one Euclidean step long, looped borders included, and that the (row, col) accessors report the row and column of each neighbour's flat index on torus neighbourhoods. Distances on other shapes, neighbour statuses and trimesh are not decided.",
             ref="§5 C07"),
 "C15": dict(technique="bounded exhaustive abstract interpretation (order representatives for pass elevations) of connect_basins, Kruskal, Boruvka and orient_edges on all basin graphs of <= 4 basins / small node graphs, each run twice on the same object",
             text="Decides, within the stated bound (<= 4 basins, all weight orders incl. ties; paths and a 2x3 raster with all elevation assignments from 3 levels), that the tree spans with basins-1 edges and minimum weight for both methods, that edges are oriented away from the root with passes swapped consistently, and that connect_basins keeps the lowest pass per adjacent pair. No argument is made for larger graphs; Boruvka's large-degree path is outside the bound.",
             ref="§12.2 (bounded claim)"),
 "C14": dict(technique="compositional abstract interpretation over an exact rational-function domain (factored denominators) with symbolic xtensor containers / views / transposes: factor tables, Thomas solver residual identities, line sweep with the solver summarised by fresh symbols, composition of the two sweeps with the sweep summarised; end-to-end cross-check against an independent symbolic Gaussian elimination on small grids",
             text="Decides, as identities of rational functions valid for all elevations, diffusivities, spacings and time steps (real arithmetic): the factor tables (scalar, face-averaged array, the two agreeing for a uniform array), that the tridiagonal solver solves every system of the shape the sweep produces (3..8 / 3..10 unknowns), that each sweep assembles exactly the implicit Peaceman-Rachford half step with fixed-value ends on any line (grids 3x3, 4x5; uninitialised border factor entries never used), that erode() composes the two sweeps on the transposes with the factor roles exchanged, zero erosion on the borders and linearity. Lines longer than 10 nodes (no inductive argument over the Thomas recursion) and floating-point rounding / stiffness are not decided.",
             ref="§12.2 (C14)"),
 "C18": dict(technique="bounded exhaustive abstract interpretation of the mesh construction code over all small triangle lists, the unordered edge map being driven by the repository's own interpreted key-equality functor (plus a symbolic hash/equality consistency check); exact rational-function interpretation of the distance and area code with uninterpreted square roots against independently computed circumcentre quadrilaterals",
             text="Decides, for every list of <= 3 triangles over <= 5 nodes (thorough: also 3 over 6 nodes and 4 over 5 nodes) with every edge in at most two triangles, every vertex order of one triangle at a time and both map iteration orders: neighbours = nodes sharing a triangle edge (no duplicates, symmetric, accessors agree), symbolic Euclidean distances, default fixed-value status exactly on end points of edges seen once; that the edge key equality / hash ignore orientation; and, as identities of rational functions of symbolic coordinates, the squared triangle area, the circumcentric share of every node in every triangle and the total area, on 1-3 triangle meshes in all vertex orders. Larger meshes, degenerate triangles and rounding are not decided.",
             ref="§12.2 (C18)"),
}
NA = {
 "C18": "edge lengths, boundary detection from edge multiplicities and circumcentric areas are geometric values over arbitrary triangulations; static analysis has no domain relating mesh input to those outputs",
}
DEFAULT_NA = "check not implemented yet (framework under construction)"

checks = []
for p in props:
    pid = p["id"]
    if pid in CLAIMED:
        c = CLAIMED[pid]
        checks.append({
            "property_id": pid,
            "quick_cmd": "./check %s --tier quick" % pid,
            "thorough_cmd": "./check %s --tier thorough" % pid,
            "evidence_file": "/verif/evidence/%s.json" % pid,
            "replay_cmd_template": "cat {path}",
            "engine": "fsverif",
            "level_claimed": {"category": "other", "text": c["text"], "design_ref": "DESIGN.md " + c["ref"]},
            "level_note": TB,
            "technique": c["technique"],
        })
na = [{"property_id": p["id"], "reason": NA.get(p["id"], DEFAULT_NA)} for p in props if p["id"] not in CLAIMED]
m = {
 "version": 1,
 "setup_cmd": "./tool/build.sh",
 "hooks": {"guard": "FASTSCAPELIB_VERIF", "enable": "none needed: the static checks read /repo's sources through clang; no hook commits exist",
           "baseline_off_cmd": "cmake --build /repo/_build -j16 && ctest --test-dir /repo/_build -j8 --timeout 900",
           "source_commits": [], "add_only": True},
 "engines": [{"name": "fsverif", "path": "/verif/check", "serves_properties": sorted(CLAIMED),
              "kind_free_text": "static analysis: clang-14 LibTooling extractor (bin/fsx) serialising the resolved, template-instantiated AST of include/fastscapelib + python rule layer (guards/dominance, effect summaries, must-kill-before-read, finite-domain abstract interpreter)"}],
 "checks": checks,
 "notes": "Exit codes: 0 pass, 1 VIOLATION, 2 ANALYSIS-BROKEN (anchor vanished / unmodelled construct; never a pass). FSVERIF_REPO=<dir> analyses another checkout (used for mutant testing). Genuine defects repaired by fix: commits in /repo are listed in known_findings.json.",
 "not_applicable": na,
}
json.dump(m, open(os.path.join(VERIF, "MANIFEST.json"), "w"), indent=1)
print("claimed:", sorted(CLAIMED), "na:", len(na))
