#include "common.hpp"
using G = fs::raster_grid<fs::xt_selector, fs::raster_connect::bishop>;
template class fs::raster_grid<fs::xt_selector, fs::raster_connect::bishop>;
template struct flow_driver<G>;
void drive(G& g, xt::xarray<double>& e)
{
    flow_driver<G>::use(g, e);
    (void) g.neighbors_indices(1, 1);
    (void) g.neighbors(1, 1);
}
