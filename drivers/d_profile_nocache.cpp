#include "common.hpp"
using G = fs::profile_grid<fs::xt_selector, fs::neighbors_no_cache<2>>;
template class fs::profile_grid<fs::xt_selector, fs::neighbors_no_cache<2>>;
template struct flow_driver<G>;
void drive(G& g, xt::xarray<double>& e)
{
    flow_driver<G>::use(g, e);
}
