#include "common.hpp"
using G = fs::trimesh;
template class fs::trimesh_xt<fs::xt_selector>;
template struct flow_driver<G>;
void drive(G& g, xt::xarray<double>& e)
{
    flow_driver<G>::use(g, e);
    xt::xtensor<double, 2> pts;
    xt::xtensor<std::size_t, 2> tri;
    G g2(pts, tri);
    G g3(pts, tri, { { 0, fs::node_status::fixed_value } });
}
