#include "common.hpp"
using G = fs::profile_grid<>;
template class fs::profile_grid<>;
template struct flow_driver<G>;
void drive(G& g, xt::xarray<double>& e)
{
    flow_driver<G>::use(g, e);
    G g2 = G::from_length(5, 4., fs::node_status::fixed_value);
    fs::profile_boundary_status b1(fs::node_status::core, fs::node_status::core);
    fs::profile_boundary_status b2(std::array<fs::node_status, 2>{ fs::node_status::core, fs::node_status::core });
    (void) b1.is_horizontal_looped();
    (void) g2.spacing();
    (void) g2.length();
}
