// Instantiation driver (never executed): forces clang to instantiate the library templates for
// one grid type so that fsx can serialise the resolved bodies.  DESIGN.md §3.2.
#include <array>
#include <vector>
#include "xtensor/xtensor.hpp"
#include "xtensor/xarray.hpp"
#include "fastscapelib/grid/base.hpp"
#include "fastscapelib/grid/profile_grid.hpp"
#include "fastscapelib/grid/raster_grid.hpp"
#include "fastscapelib/grid/trimesh.hpp"
#include "fastscapelib/flow/flow_graph.hpp"
#include "fastscapelib/flow/flow_router.hpp"
#include "fastscapelib/flow/sink_resolver.hpp"
#include "fastscapelib/flow/flow_snapshot.hpp"
#include "fastscapelib/flow/flow_kernel.hpp"
#include "fastscapelib/flow/basin_graph.hpp"
#include "fastscapelib/eroders/spl.hpp"
#include "fastscapelib/eroders/diffusion_adi.hpp"
#include "fastscapelib/algo/pflood.hpp"
#include "fastscapelib/utils/union_find.hpp"
#include "fastscapelib/utils/thread_pool.hpp"

namespace fs = fastscapelib;

template <class G>
struct flow_driver
{
    using FG = fs::flow_graph<G>;
    using impl_type = typename FG::impl_type;
    using data_array_type = typename FG::data_array_type;

    static void use(G& grid, data_array_type& elevation)
    {
        // every operator type, with and without threads, both MST methods / route methods
        FG g1(grid, { fs::single_flow_router() });
        FG g2(grid, { fs::single_flow_router(4) });
        FG g3(grid, { fs::multi_flow_router(1.1) });
        FG g4(grid, { fs::pflood_sink_resolver(), fs::single_flow_router() });
        FG g5(grid,
              { fs::single_flow_router(),
                fs::flow_snapshot("a", true, true),
                fs::mst_sink_resolver(fs::mst_method::kruskal, fs::mst_route_method::basic),
                fs::flow_snapshot("b", true, false),
                fs::multi_flow_router(0.0),
                fs::flow_snapshot("c", false, true) });
        FG g6(grid,
              { fs::single_flow_router(),
                fs::mst_sink_resolver(fs::mst_method::boruvka, fs::mst_route_method::carve) });

        // move assignment of the operator sequence (only instantiated when used)
        fs::flow_operator_sequence<impl_type> s1(fs::single_flow_router{});
        fs::flow_operator_sequence<impl_type> s2(fs::pflood_sink_resolver{}, fs::single_flow_router{});
        s1 = std::move(s2);

        const data_array_type& r = g5.update_routes(elevation);
        (void) r;
        g1.update_routes(elevation);

        // public API of flow_graph
        (void) g5.operators();
        (void) g5.single_flow();
        (void) g5.graph_snapshot_keys();
        (void) g5.graph_snapshot("a");
        (void) g5.elevation_snapshot_keys();
        (void) g5.elevation_snapshot("a");
        (void) g5.grid();
        (void) g5.size();
        (void) g5.grid_shape();
        (void) g5.impl();
        (void) g5.impl_ptr();
        (void) g5.base_levels();
        std::vector<typename FG::size_type> levels{ 0 };
        g5.set_base_levels(levels);
        (void) g5.mask();
        xt::xarray<bool> mask(elevation.shape(), false);
        g5.set_mask(mask);
        data_array_type acc = g5.accumulate(elevation);
        g5.accumulate(acc, elevation);
        acc = g5.accumulate(1.0);
        g5.accumulate(acc, 1.0);
        (void) g5.basins();

        // implementation API
        auto& impl = const_cast<impl_type&>(g5.impl());
        (void) impl.single_flow();
        (void) impl.grid();
        (void) impl.size();
        (void) impl.receivers();
        (void) impl.receivers_count();
        (void) impl.receivers_distance();
        (void) impl.receivers_weight();
        (void) impl.donors();
        (void) impl.donors_count();
        (void) impl.storage_indices();
        (void) impl.any_order_levels();
        (void) impl.dfs_indices();
        (void) impl.bfs_indices();
        (void) impl.bfs_levels();
        (void) impl.base_levels();
        (void) impl.mask();
        (void) impl.is_masked(0);
        (void) impl.is_base_level(0);
        (void) impl.pits();
        (void) impl.outlets();
        (void) impl.basins();
        impl.compute_basins();
        impl.compute_donors();
        impl.compute_dfs_indices_bottomup();
        impl.compute_dfs_indices_topdown();
        impl.compute_bfs_indices_bottomup();
        (void) impl.nodes_indices_bottomup();

        // kernels
        fs::detail::flow_kernel kernel;
        fs::detail::flow_kernel_data kdata;
        g1.apply_kernel(kernel, kdata);

        // basin graph
        fs::basin_graph<impl_type> bg(impl, fs::mst_method::kruskal);
        bg.update_routes(elevation);
        (void) bg.basins_count();
        (void) bg.outlets();
        (void) bg.edges();
        (void) bg.tree();

        // eroders
        fs::spl_eroder<FG> spl(g1, 1e-3, 0.4, 1.0, 1e-3);
        spl.set_k_coef(2e-3);
        spl.set_k_coef(elevation);
        spl.set_area_exp(0.5);
        spl.set_slope_exp(1.0);
        (void) spl.k_coef();
        (void) spl.area_exp();
        (void) spl.slope_exp();
        (void) spl.tolerance();
        (void) spl.n_corr();
        (void) spl.erode(elevation, acc, 1.0);
        auto spl2 = fs::make_spl_eroder(g1, elevation, 0.4, 1.5, 1e-3);
        (void) spl2;

        // grid API
        (void) grid.size();
        (void) grid.shape();
        (void) grid.nodes_status();
        (void) grid.nodes_status(0);
        for (auto i : grid.nodes_indices())
            (void) i;
        for (auto i : grid.nodes_indices(fs::node_status::fixed_value))
            (void) i;
        auto ni = grid.nodes_indices();
        for (auto it = ni.rbegin(); it != ni.rend(); ++it)
            (void) *it;
        (void) grid.nodes_areas();
        (void) grid.nodes_areas(0);
        (void) grid.neighbors_count(0);
        (void) grid.neighbors_distances(0);
        (void) grid.neighbors_indices(0);
        typename G::neighbors_indices_type nidx;
        (void) grid.neighbors_indices(0, nidx);
        (void) grid.neighbors(0);
        typename G::neighbors_type nb;
        (void) grid.neighbors(0, nb);
        (void) grid.neighbors_indices_cache();
    }
};

template class fs::thread_pool<std::size_t>;
template class fs::detail::union_find<std::size_t>;
