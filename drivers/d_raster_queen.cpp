#include "common.hpp"
using G = fs::raster_grid<>;
template class fs::raster_grid<>;
template struct flow_driver<G>;
void drive(G& g, xt::xarray<double>& e)
{
    flow_driver<G>::use(g, e);
    G g2 = G::from_length({ 5, 5 }, { 4., 4. }, fs::node_status::fixed_value);
    (void) g2.neighbors_indices(1, 1);
    (void) g2.neighbors(1, 1);
    (void) g2.nodes_codes(1, 1);
    (void) g2.nodes_codes(1);
    (void) g2.bounds_status();
    (void) g2.spacing();
    (void) g2.length();
    fs::raster_boundary_status bs(std::array<fs::node_status, 4>{ fs::node_status::core, fs::node_status::core, fs::node_status::core, fs::node_status::core });
    (void) bs.is_vertical_looped();
    fs::diffusion_adi_eroder<G> adi(g, 1e-3);
    adi.set_k_coef(2e-3);
    adi.set_k_coef(e);
    (void) adi.k_coef();
    (void) adi.erode(e, 1.0);
    auto adi2 = fs::make_diffusion_adi_eroder(g, e);
    (void) adi2;
}
