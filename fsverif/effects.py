"""A3 — effect summaries with access paths, aliases and index shapes (DESIGN.md §3.3, App. B).

A *path* is a tuple of elements: a root
    ("this",) | ("p", k) | ("cap", declid, name) | ("local", declid, name) | ("tmp",) | ("global", name)
followed by ("f", field) and ("[]", (idxclass, ...)) elements.
An *index class* is ("lit", v) | ("p", k) | ("dp", frozenset{k}) | ("var", declid, name) |
("cap", declid, name) | ("other",).

summary(fn) -> Summary(effects=set((kind, path, how)), ret=set(path), opaque=set(...), unknown=set)
    kind "r"/"w"; how in elem|whole|grow|rmw|read
Effects rooted at locals / temporaries are dropped (they are not visible outside the call).
"""
from .sir import pp, strip, walk, const_value, has_const, AnalysisBroken

ASSIGN_OPS = {"=", "+=", "-=", "*=", "/=", "%=", "&=", "|=", "^=", "<<=", ">>="}

# ------------------------------------------------------------------ library effect table (App. B)
ELEM_ACCESS = {"operator()", "operator[]", "flat", "at", "unchecked", "front", "back", "element",
               "data_element", "top"}
WHOLE_ALIAS = {"begin", "end", "cbegin", "cend", "rbegin", "rend", "crbegin", "crend", "data",
               "storage", "derived_cast", "get", "operator*", "operator->", "base", "value",
               "first", "second", "expression", "find", "lower_bound", "upper_bound"}
MUT_WHOLE = {"fill", "clear", "assign", "swap", "operator=", "reset", "release", "store", "exchange",
             "notify_one", "notify_all", "wait", "lock", "unlock", "join", "detach", "reshape",
             "compare_exchange_weak", "compare_exchange_strong", "test_and_set", "merge"}
MUT_RMW = {"operator++", "operator--", "operator+=", "operator-=", "operator*=", "operator/=",
           "operator|=", "operator&=", "operator^=", "fetch_add", "fetch_sub", "fetch_or",
           "fetch_and", "fetch_xor"}
MUT_GROW = {"resize", "reserve", "push_back", "emplace_back", "emplace", "insert", "erase", "pop",
            "pop_back", "pop_front", "push", "push_front", "shrink_to_fit", "emplace_front"}
ALIAS_FREE = {"std::next", "std::prev", "std::back_inserter", "std::inserter", "std::front_inserter", "std::move", "std::forward", "std::ref", "std::cref", "std::addressof", "std::get",
              "std::as_const", "std::static_pointer_cast", "std::max", "std::min", "std::tie",
              "std::begin", "std::end", "std::make_reverse_iterator",
              "xt::col", "xt::row", "xt::view", "xt::flatten", "xt::strided_view", "xt::adapt",
              "xt::transpose", "xt::broadcast", "xt::noalias", "xt::ravel", "xt::reshape_view",
              "xt::squeeze", "xt::eval", "xt::flip", "xt::index_view", "xt::filter", "xt::diagonal"}
WRITE_RANGE_FREE = {"std::copy_if": [2], "std::fill": [0], "std::iota": [0], "std::sort": [0], "std::reverse": [0],
                    "std::stable_sort": [0], "std::swap": [0, 1], "std::fill_n": [0],
                    "std::transform": [2], "std::copy": [2], "std::copy_n": [2],
                    "std::partial_sort": [0], "std::nth_element": [0], "std::rotate": [0],
                    "std::unique": [0], "std::generate": [0], "std::iter_swap": [0, 1],
                    "std::make_heap": [0], "std::push_heap": [0], "std::pop_heap": [0],
                    "std::sort_heap": [0], "std::exchange": [0], "std::memset": [0], "std::memcpy": [0]}
PURE_PREFIXES = ("std::numeric_limits", "std::pow", "std::fabs", "std::abs", "std::sqrt",
                 "std::nextafter", "std::isnan", "std::isinf", "std::isfinite", "std::floor",
                 "std::ceil", "std::exp", "std::log", "std::hypot", "std::atan", "std::cos",
                 "std::sin", "std::make_shared", "std::make_unique", "std::make_pair",
                 "std::make_tuple", "std::to_string", "std::operator", "xt::zeros", "xt::ones",
                 "xt::empty", "xt::arange", "xt::linspace", "xt::operator", "xt::same_shape",
                 "xt::sum", "xt::amax", "xt::amin", "xt::all", "xt::any", "xt::equal", "xt::where",
                 "xt::sqrt", "xt::pow", "xt::abs", "xt::maximum", "xt::minimum", "xt::full_like",
                 "xt::zeros_like", "xt::ones_like", "xt::empty_like", "xt::cast", "xt::detail",
                 "xt::xt", "std::distance", "std::accumulate", "std::count", "std::find",
                 "std::all_of", "std::any_of", "std::none_of", "std::count_if", "std::find_if", "std::equal", "std::is_", "std::hash",
                 "__builtin", "__assert_fail", "std::size", "std::empty", "std::invoke",
                 "std::lower_bound", "std::upper_bound", "std::max_element", "std::min_element", "std::advance",
                 "fastscapelib::", "std::chrono", "std::this_thread", "std::fmod", "std::round",
                 "xt::isclose", "xt::allclose", "xt::mean", "xt::prod", "xt::cumsum", "xt::diff",
                 "xt::stack", "xt::concatenate", "xt::unique", "xt::argsort", "xt::sort",
                 "xt::argmax", "xt::argmin", "xt::norm", "xt::square", "xt::not_equal",
                 "xt::less", "xt::greater", "xt::isnan", "xt::nan_to_num", "xt::random")
VIEW_TYPES = ("xt::xview<", "xt::xstrided_view<", "xt::xbroadcast<", "xt::xfunction<",
              "xt::xtensor_adaptor<", "xt::xarray_adaptor<", "xt::xindex_view<", "xt::xiterator",
              "__gnu_cxx::__normal_iterator<", "std::reverse_iterator<", "std::reference_wrapper<",
              "fastscapelib::stl_container_iterator_wrapper<", "fastscapelib::grid_nodes_indices<",
              "fastscapelib::detail::grid_node_index_iterator<", "xt::xdynamic_view<",
              "xt::xnoalias_proxy<", "xt::xtensor_view<", "std::_Rb_tree_", "std::__detail::_Node_",
              "std::tuple<", "xt::xstepper", "xt::xreducer<", "xt::xgenerator<", "xt::xscalar<")
ITERATOR_TYPES = ("__gnu_cxx::__normal_iterator<", "std::reverse_iterator<", "std::_Rb_tree_const_iterator<",
                  "std::_Rb_tree_iterator<", "std::__detail::_Node_iterator<", "std::__detail::_Node_const_iterator<",
                  "std::_List_iterator<", "std::_List_const_iterator<", "std::_Deque_iterator<", "xt::xiterator<",
                  "xt::xstepper<", "xt::linear_begin", "fastscapelib::detail::grid_node_index_iterator<",
                  "std::move_iterator<", "std::back_insert_iterator<")
WRAPPER_CLASSES = {"fastscapelib::stl_container_iterator_wrapper", "fastscapelib::grid_nodes_indices",
                   "fastscapelib::detail::grid_node_index_iterator", "std::reverse_iterator",
                   "std::reference_wrapper", "std::tuple"}

TMP = ("tmp",)


def root_of(path):
    return path[0]


def is_external_root(path):
    return path[0][0] in ("this", "p", "cap", "global")


def fields_of(path):
    return [e[1] for e in path[1:] if e[0] == "f"]


def first_index(path):
    for e in path[1:]:
        if e[0] == "[]":
            return e[1]
    return None


def path_str(path):
    out = []
    for e in path:
        if e[0] == "this":
            out.append("this")
        elif e[0] == "p":
            out.append("param%d" % e[1])
        elif e[0] in ("cap", "local"):
            out.append("%s:%s" % (e[0], e[2]))
        elif e[0] == "f":
            out.append("." + e[1])
        elif e[0] == "[]":
            out.append("[" + ",".join(cls_str(c) for c in e[1]) + "]")
        elif e[0] == "global":
            out.append("::" + e[1])
        else:
            out.append("<%s>" % e[0])
    return "".join(out)


def cls_str(c):
    if c[0] == "lit":
        return repr(c[1])
    if c[0] == "p":
        return "param%d" % c[1]
    if c[0] == "dp":
        return "f(param%s)" % ",".join(str(k) for k in sorted(c[1]))
    if c[0] in ("var", "cap"):
        return c[2]
    return "?"


class Summary:
    def __init__(self):
        self.effects = set()     # (kind, path, how)
        self.ret = set()         # paths
        self.opaque = set()      # (what, text)
        self.unknown = set()     # (bn, where)
        self.locs = {}           # (kind, path, how) -> first location

    def writes(self):
        return {(p, h) for (k, p, h) in self.effects if k == "w"}

    def reads(self):
        return {p for (k, p, h) in self.effects if k == "r"}


class Effects:
    def __init__(self, db):
        self.db = db
        self.memo = {}
        self.in_progress = set()

    def summary(self, fn):
        if fn.key in self.memo:
            return self.memo[fn.key]
        if fn.key in self.in_progress:
            s = Summary()
            s.opaque.add(("recursion", fn.bn))
            return s
        self.in_progress.add(fn.key)
        a = FnAnalysis(self, fn)
        s = a.run()
        self.in_progress.discard(fn.key)
        self.memo[fn.key] = s
        return s


class FnAnalysis:
    def __init__(self, eff, fn):
        self.eff = eff
        self.fn = fn
        self.s = Summary()
        self.env = {}        # declid -> set(paths)   (alias variables)
        self.vcls = {}       # declid -> index class
        self.lambdas = {}    # declid -> list of lambda nodes held by the variable
        self._folding = False
        self.param_idx = {p["d"]: i for i, p in enumerate(fn.params)}
        self.params = fn.params
        self.direct_only = False   # do not fold callee effects; log the calls instead
        self.call_log = []         # [(node, callee Fn, this_paths, [(arg node, paths)], capmap)]

    # ---------------------------------------------------------------- recording
    def rec(self, kind, paths, how, node):
        for p in paths:
            if not is_external_root(p):
                continue
            key = (kind, p, how)
            if key not in self.s.effects:
                self.s.effects.add(key)
                self.s.locs[key] = self.fn.loc(node) if node is not None else self.fn.ploc

    def read(self, paths, node):
        self.rec("r", paths, "read", node)

    def write(self, paths, how, node):
        for p in paths:
            h = how
            if how == "whole" and p and p[-1][0] == "[]":
                h = "elem"
            self.rec("w", [p], h, node)

    # ---------------------------------------------------------------- index classes
    def cls(self, e):
        e = strip(e)
        if e is None:
            return ("other",)
        if has_const(e):
            return ("lit", const_value(e))
        k = e.get("k")
        if k == "ref":
            d = e.get("d")
            if e.get("rk") == "param" and d in self.param_idx and not e.get("cap"):
                return ("p", self.param_idx[d])
            if e.get("cap") and self.fn.is_lambda and d not in self.vcls:
                return ("cap", d, e["n"])
            if d in self.vcls:
                return self.vcls[d]
            return ("var", d, e["n"])
        if k == "binop" and e["op"] in ("+", "-", "*", "/", "%"):
            a, b = self.cls(e["lhs"]), self.cls(e["rhs"])
            ks = set()
            for c in (a, b):
                if c[0] == "p":
                    ks.add(c[1])
                elif c[0] == "dp":
                    ks |= set(c[1])
                elif c[0] != "lit":
                    return ("other",)
            return ("dp", frozenset(ks)) if ks else ("other",)
        if k == "call" and e.get("fid") is None and e.get("bn") in ("std::move", "std::forward"):
            return self.cls(e["a"][0])
        return ("other",)

    def join_cls(self, a, b):
        if a is None:
            return b
        if a == b:
            return a
        ks = set()
        for c in (a, b):
            if c[0] == "p":
                ks.add(c[1])
            elif c[0] == "dp":
                ks |= set(c[1])
            else:
                return ("other",)
        return ("dp", frozenset(ks))

    # ---------------------------------------------------------------- variables
    def is_alias_type(self, tstr, isref):
        if isref:
            return True
        t = tstr.replace("const ", "").strip()
        if t.endswith("*"):
            return True
        return any(t.startswith(v) for v in VIEW_TYPES)

    def declare(self, v):
        tstr = self.fn.type(v.get("t"))
        init = v.get("init")
        d = v["d"]
        paths = set()
        if init is not None:
            paths = self.visit(init)
            ie = strip(init)
            lam = self.find_lambda(ie)
            if lam is not None:
                self.lambdas.setdefault(d, []).append(lam)
        if self.is_alias_type(tstr, v.get("isref")):
            self.env[d] = set(paths) if paths else {TMP}
        else:
            if init is not None:
                self.read(paths, init)
        # index class of the variable
        if init is not None:
            c = self.cls(init)
            if c[0] in ("p", "dp"):
                c = ("dp", frozenset([c[1]]) if c[0] == "p" else c[1])
                self.vcls[d] = self.join_cls(self.vcls.get(d), c)
            elif c[0] == "lit":
                pass
        for b in v.get("bindings", []) or []:
            self.env[b["d"]] = set(paths) if paths else {TMP}
            if b.get("hv") is not None:
                self.env[b["hv"]["d"]] = set(paths) if paths else {TMP}

    def find_lambda(self, e):
        e = strip(e)
        if e is None:
            return None
        if e.get("k") == "lambda":
            return e
        if e.get("k") == "construct" and len(e.get("a", [])) == 1:
            return self.find_lambda(e["a"][0])
        return None

    # ---------------------------------------------------------------- statements
    def run(self):
        fn = self.fn
        for ini in fn.d.get("inits", []) or []:
            if ini.get("init") is not None:
                ps = self.visit(ini["init"])
                self.read(ps, ini["init"])
            if ini.get("field"):
                self.write({(("this",), ("f", ini["field"]))}, "whole", ini)
        # two passes so that flow-insensitive alias sets (pointers assigned later) stabilise
        self.stmt(fn.body)
        before = len(self.s.effects)
        self.stmt(fn.body)
        if len(self.s.effects) != before:
            self.stmt(fn.body)
        return self.s

    def stmt(self, s):
        if s is None:
            return
        k = s.get("k")
        if k == "compound":
            for c in s["b"]:
                self.stmt(c)
        elif k == "expr":
            ps = self.visit(s["e"])
        elif k == "decl":
            for v in s["vars"]:
                self.declare(v)
        elif k == "if":
            self.stmt(s.get("init"))
            if s.get("cvar") is not None:
                self.declare(s["cvar"])
            self.read(self.visit(s["c"]), s["c"])
            self.stmt(s.get("then"))
            self.stmt(s.get("else"))
        elif k == "for":
            self.stmt(s.get("init"))
            if s.get("c") is not None:
                self.read(self.visit(s["c"]), s["c"])
                self.bound_loop_var(s)
            if s.get("inc") is not None:
                self.visit(s["inc"])
            self.stmt(s.get("body"))
        elif k in ("while", "do"):
            self.read(self.visit(s["c"]), s["c"])
            self.stmt(s.get("body"))
        elif k == "rangefor":
            ps = self.visit(s["range"])
            self.read(ps, s["range"])
            v = s["var"]
            elem = {p + (("[]", (("other",),)),) for p in ps} or {TMP}
            tstr = self.fn.type(v.get("t"))
            if self.is_alias_type(tstr, v.get("isref")):
                self.env[v["d"]] = elem
            for b in v.get("bindings", []) or []:
                self.env[b["d"]] = elem
                if b.get("hv") is not None:
                    self.env[b["hv"]["d"]] = elem
            # the loop variable keeps its identity as an index class
            self.stmt(s.get("body"))
        elif k == "return":
            if s.get("e") is not None:
                ps = self.visit(s["e"])
                rt = self.fn.type(self.fn.d.get("rt"))
                if self.is_alias_type(rt, rt.endswith("&")):
                    self.s.ret |= {p for p in ps}
                else:
                    self.read(ps, s["e"])
        elif k == "switch":
            self.read(self.visit(s["c"]), s["c"])
            self.stmt(s.get("body"))
        elif k in ("case", "default"):
            self.stmt(s.get("body"))
        elif k == "try":
            self.stmt(s.get("body"))
            for h in s.get("handlers", []):
                self.stmt(h)
        elif k in ("break", "continue", "null"):
            pass
        else:
            self.s.unknown.add(("stmt:" + str(k), self.fn.loc(s)))

    def bound_loop_var(self, s):
        """for (i = a; i < b; ...): i is derived from the parameters bounding it"""
        c = strip(s["c"])
        if c.get("k") == "binop" and c["op"] in ("<", "<=", "!=", ">", ">="):
            l, r = strip(c["lhs"]), strip(c["rhs"])
            if l.get("k") == "ref" and l.get("d") is not None:
                rc = self.cls(r)
                if rc[0] in ("p", "dp"):
                    cur = self.vcls.get(l["d"])
                    add = ("dp", frozenset([rc[1]]) if rc[0] == "p" else rc[1])
                    if cur is not None and cur[0] == "dp":
                        self.vcls[l["d"]] = ("dp", cur[1] | add[1])

    # ---------------------------------------------------------------- expressions
    def visit(self, e):
        """returns the set of paths the expression designates; records effects of evaluating it"""
        if e is None:
            return set()
        k = e.get("k")
        m = getattr(self, "v_" + k, None)
        if m is None:
            out = set()
            for key in ("e", "b", "i"):
                if isinstance(e.get(key), dict):
                    out |= self.visit(e[key])
            for a in e.get("a", []) or []:
                if isinstance(a, dict):
                    out |= self.visit(a)
            return out
        return m(e)

    def v_lit(self, e):
        return set()

    def v_this(self, e):
        return {(("this",),)}

    def v_cast(self, e):
        return self.visit(e["e"])

    def v_ref(self, e):
        rk = e.get("rk")
        d = e.get("d")
        if rk in ("enum", "func"):
            return set()
        if e.get("cap") and self.fn.is_lambda and d not in self.env and d not in self.param_idx:
            return {(("cap", d, e["n"]),)}
        if rk == "param":
            if d in self.env:
                return set(self.env[d])
            if d in self.param_idx:
                p = self.params[self.param_idx[d]]
                tstr = self.fn.type(p.get("t"))
                if self.is_alias_type(tstr, p.get("isref")):
                    return {(("p", self.param_idx[d]),)}
                return {(("local", d, e["n"]),)}
            return {(("cap", d, e["n"]),)}
        if rk in ("local", "slocal", "binding"):
            if d in self.env:
                return set(self.env[d])
            if rk == "slocal" and not e.get("tls"):
                return {(("global", e["n"]),)}
            return {(("local", d, e["n"]),)}
        if rk in ("global", "smember"):
            if has_const(e):
                return set()
            if e.get("tls"):
                return {(("local", d, e["n"]),)}
            return {(("global", e["n"]),)}
        return set()

    def v_member(self, e):
        if e.get("mk") == "svar":
            return set() if has_const(e) else {(("global", e["n"]),)}
        if e.get("mk") != "field":
            return self.visit(e["b"])
        base = self.visit(e["b"])
        return {p + (("f", e["n"]),) for p in base}

    def v_index(self, e):
        base = self.visit(e["b"])
        self.read(self.visit(e["i"]), e["i"])
        c = (self.cls(e["i"]),)
        return {p + (("[]", c),) for p in base}

    def v_cond(self, e):
        self.read(self.visit(e["c"]), e["c"])
        return self.visit(e["then"]) | self.visit(e["else"])

    def v_unop(self, e):
        ps = self.visit(e["e"])
        if e["op"] in ("++", "--"):
            sub = strip(e["e"])
            if sub.get("k") == "ref" and sub.get("d") in self.vcls:
                pass
            if sub.get("k") == "ref" and sub.get("rk") in ("local", "param"):
                vt_ = self.fn.type(sub.get("vt") if sub.get("vt") is not None else sub.get("t")).replace("const ", "").strip()
                if vt_.endswith("*") or any(vt_.startswith(p_) for p_ in ITERATOR_TYPES):
                    # ++p on a local pointer / iterator moves the cursor, it does not write the pointee
                    self.read(ps, e)
                    return ps
            self.write(ps, "rmw", e)
            self.read(ps, e)
            return ps
        if e["op"] in ("*", "&"):
            return ps
        self.read(ps, e)
        return set()

    def v_binop(self, e):
        op = e["op"]
        if op in ASSIGN_OPS:
            rhs = self.visit(e["rhs"])
            lhs_e = strip(e["lhs"])
            # assignment to a pointer / alias variable re-binds it
            if lhs_e.get("k") == "ref" and lhs_e.get("d") in self.env and \
                    self.fn.type(lhs_e.get("vt")).replace("const ", "").strip().endswith("*"):
                self.env[lhs_e["d"]] |= rhs
                return set(self.env[lhs_e["d"]])
            lhs = self.visit(e["lhs"])
            self.read(rhs, e["rhs"])
            if lhs_e.get("k") == "ref" and lhs_e.get("d") is not None:
                c = self.cls(e["rhs"])
                if op == "=" and c[0] in ("p", "dp"):
                    c = ("dp", frozenset([c[1]]) if c[0] == "p" else c[1])
                    self.vcls[lhs_e["d"]] = self.join_cls(self.vcls.get(lhs_e["d"]), c)
                elif lhs_e["d"] in self.vcls:
                    self.vcls[lhs_e["d"]] = ("other",)
            if op != "=":
                self.read(lhs, e)
            self.write(lhs, "whole" if op == "=" else "rmw", e)
            return lhs
        if op == ",":
            self.visit(e["lhs"])
            return self.visit(e["rhs"])
        a = self.visit(e["lhs"])
        b = self.visit(e["rhs"])
        self.read(a, e["lhs"])
        self.read(b, e["rhs"])
        return set()

    def v_initlist(self, e):
        out = set()
        for a in e.get("a", []) or []:
            if a:
                ps = self.visit(a)
                self.read(ps, a)
                out |= ps
        return out

    def v_throw(self, e):
        if e.get("e") is not None:
            self.read(self.visit(e["e"]), e)
        return set()

    def v_new(self, e):
        if e.get("e") is not None:
            self.read(self.visit(e["e"]), e)
        return {TMP}

    def v_delete(self, e):
        self.write(self.visit(e["e"]), "whole", e)
        return set()

    def v_other(self, e):
        out = set()
        for a in e.get("a", []) or []:
            if isinstance(a, dict):
                out |= self.visit(a)
        return out

    def v_lambda(self, e, call_args=None):
        """creating a closure: fold the effects of its body (it may be called); with call_args: a
        direct call of the closure, its parameters bound to the actual arguments"""
        lfn = self.fn.unit.fns.get(e.get("fid"))
        capmap = {}
        for c in e.get("caps", []):
            if c.get("this"):
                continue
            d = c["d"]
            if c.get("initcap"):
                ps = self.visit(c["init"]) if c.get("init") is not None else set()
                tstr = self.fn.type(c.get("vt"))
                capmap[d] = ps if self.is_alias_type(tstr, False) else {TMP}
                continue
            tstr = self.fn.type(c.get("vt"))
            ref = {"k": "ref", "rk": "local" if d not in self.param_idx else "param", "d": d,
                   "n": c["n"], "cap": self.fn.is_lambda and d not in self.env and d not in self.param_idx}
            cur = self.v_ref(ref)
            if c.get("byref") or self.is_alias_type(tstr, False):
                capmap[d] = cur
            else:
                self.read(cur, e)
                capmap[d] = {TMP}
        if lfn is None:
            specs = [self.fn.unit.fns[f] for f in e.get("fids", []) if f in self.fn.unit.fns]
            if not specs:
                self.s.opaque.add(("generic-lambda", self.fn.loc(e)))
                return {TMP}
            for sp in specs:        # a generic lambda: every instantiated specialisation may be called
                self.apply_summary(self.eff.summary(sp), {(("this",),)}, [], e, capmap=capmap, lam=True)
            return {TMP}
        ls = self.eff.summary(lfn)
        if call_args is not None:
            self.apply_summary(ls, {(("this",),)}, call_args, e, capmap=capmap, lam="call")
        else:
            self.apply_summary(ls, {(("this",),)}, [], e, capmap=capmap, lam=True)
        return {TMP}

    def v_construct(self, e):
        args = e.get("a", [])
        arg_paths = [self.visit(a) for a in args]
        if (e.get("copy") or e.get("move")) and len(args) == 1:
            self.read(arg_paths[0], e)
            tstr = self.fn.type(e.get("t"))
            if self.is_alias_type(tstr, False):
                return arg_paths[0]
            return {TMP}
        if e.get("fid") is not None:
            callee = self.fn.unit.fns.get(e["fid"])
            if callee is not None:
                cs = self.eff.summary(callee)
                self.apply_summary(cs, {TMP}, [(a, ps) for a, ps in zip(args, arg_paths)], e,
                                   callee=callee)
        else:
            for ps, a in zip(arg_paths, args):
                self.read(ps, a)
        if e.get("cls") in WRAPPER_CLASSES or self.is_alias_type(self.fn.type(e.get("t")), False):
            out = set()
            for ps in arg_paths:
                out |= ps
            return out or {TMP}
        return {TMP}

    # ---------------------------------------------------------------- calls
    def subst_cls(self, c, args, capcls=None):
        if c[0] == "p":
            if c[1] < len(args):
                return self.cls(args[c[1]][0])
            return ("other",)
        if c[0] == "dp":
            ks = set()
            for k in c[1]:
                if k < len(args):
                    ac = self.cls(args[k][0])
                    if ac[0] == "p":
                        ks.add(ac[1])
                    elif ac[0] == "dp":
                        ks |= set(ac[1])
                    elif ac[0] == "lit":
                        continue
                    else:
                        return ("other",)
                else:
                    return ("other",)
            return ("dp", frozenset(ks)) if ks else ("other",)
        if c[0] in ("var", "cap"):
            return ("other",)
        return c

    def subst_path(self, p, this_paths, args, capmap, lam):
        root = p[0]
        rest = []
        for el in p[1:]:
            if el[0] == "[]":
                if lam == "call":
                    # direct call of a local closure: its parameters are bound to the actual arguments
                    rest.append(("[]", tuple(self.subst_cls(c, args) if c[0] in ("p", "dp") else
                                             (("other",) if c[0] in ("var", "cap") else c)
                                             for c in el[1])))
                elif lam:
                    rest.append(("[]", tuple(("other",) if c[0] in ("p", "dp", "var", "cap") else c
                                             for c in el[1])))
                else:
                    rest.append(("[]", tuple(self.subst_cls(c, args) for c in el[1])))
            else:
                rest.append(el)
        rest = tuple(rest)
        if root[0] == "this":
            bases = this_paths
        elif root[0] == "p":
            if lam and lam != "call":
                return set()
            bases = args[root[1]][1] if root[1] < len(args) else set()
        elif root[0] == "cap":
            if capmap is not None and root[1] in capmap:
                bases = capmap[root[1]]
            else:
                bases = {(root,)}
        elif root[0] == "global":
            bases = {(root,)}
        else:
            return set()
        return {b + rest for b in bases}

    def apply_summary(self, cs, this_paths, args, node, capmap=None, lam=False, callee=None):
        if self.direct_only:
            if callee is not None and not lam:
                self.call_log.append((node, callee, set(this_paths), list(args), capmap))
            out = set()
            for p in cs.ret:
                out |= self.subst_path(p, this_paths, args, capmap, lam)
            return out
        for (kind, p, how) in cs.effects:
            for q in self.subst_path(p, this_paths, args, capmap, lam):
                self.rec(kind, [q], how, node)
        self.s.opaque |= cs.opaque
        self.s.unknown |= cs.unknown
        out = set()
        for p in cs.ret:
            out |= self.subst_path(p, this_paths, args, capmap, lam)
        return out

    def v_call(self, e):
        fn = self.fn
        bn = e.get("bn", "")
        name = bn.split("::")[-1]
        args_n = e.get("a", [])
        obj_n = e.get("obj")
        obj_paths = self.visit(obj_n) if obj_n is not None else None
        arg_paths = [self.visit(a) for a in args_n]
        args = list(zip(args_n, arg_paths))

        # closures passed as arguments / assigned are assumed callable: effects folded at creation
        # and, for a closure held by a local variable, again where the variable is passed on or
        # called (that is where its body runs: position-sensitive analyses need the effects there)
        callee0 = fn.callee(e)
        direct_closure_call = callee0 is not None and callee0.is_lambda and obj_n is not None
        for use in ([obj_n] if obj_n is not None else []) + list(args_n):
            u = strip(use)
            while isinstance(u, dict) and u.get("k") == "call" and u.get("bn") in ("std::move", "std::forward", "std::ref", "std::cref") \
                    and u.get("a"):
                u = strip(u["a"][0])
            if isinstance(u, dict) and u.get("k") == "ref" and u.get("d") in self.lambdas and not self._folding:
                self._folding = True
                try:
                    for lam in self.lambdas[u["d"]]:
                        self.v_lambda(lam, call_args=args if (use is obj_n and direct_closure_call) else None)
                finally:
                    self._folding = False
        callee = fn.callee(e)
        if callee is not None:
            # call of a local lambda variable: its effects were folded above
            if callee.is_lambda and obj_n is not None:
                if self.direct_only:
                    self.call_log.append((e, callee, set(), list(args), "lambda"))
                return {TMP}
            cs = self.eff.summary(callee)
            ret = self.apply_summary(cs, obj_paths or {TMP}, args, e, callee=callee)
            rt = callee.type(callee.d.get("rt"))
            if self.is_alias_type(rt, rt.endswith("&")):
                return ret or {TMP}
            return {TMP}
        if e.get("virt") and e.get("lib"):
            self.s.opaque.add(("virtual", bn))
            for ps, a in args:
                pass
            return {TMP}
        if bn == "<indirect>":
            self.s.opaque.add(("indirect", pp(e)[:60]))
            return {TMP}

        # ------------------------------------------------------------ external callee
        rt = fn.type(e.get("t"))
        if obj_paths is not None:
            if bn == "std::function::operator()" or bn.startswith("std::function::operator()"):
                self.s.opaque.add(("callback", path_str(sorted(obj_paths)[0]) if obj_paths else "?"))
                self.read(obj_paths, e)
                for ps, a in zip(arg_paths, args_n):
                    self.read(ps, a)
                return {TMP}
            if name in ELEM_ACCESS:
                for ps, a in zip(arg_paths, args_n):
                    self.read(ps, a)
                c = tuple(self.cls(a) for a in args_n) or (("other",),)
                return {p + (("[]", c),) for p in obj_paths}
            if name in WHOLE_ALIAS:
                for ps, a in zip(arg_paths, args_n):
                    self.read(ps, a)
                if name in ("find", "lower_bound", "upper_bound"):
                    self.read(obj_paths, e)
                    return {p + (("[]", (("other",),)),) for p in obj_paths}
                return set(obj_paths)
            ot_ = fn.type(strip(obj_n).get("t")).replace("const ", "")
            if (name in MUT_RMW or name == "operator=") and any(ot_.startswith(p_) for p_ in ITERATOR_TYPES):
                # advancing / re-seating an iterator changes the iterator (a local value), not the
                # container it points into
                for ps, a in zip(arg_paths, args_n):
                    self.read(ps, a)
                self.read(obj_paths, e)
                return set(obj_paths)
            if name in MUT_WHOLE or name in MUT_RMW or name in MUT_GROW:
                for ps, a in zip(arg_paths, args_n):
                    self.read(ps, a)
                how = "whole" if name in MUT_WHOLE else "rmw" if name in MUT_RMW else "grow"
                if name == "resize" and args_n and const_value(strip(args_n[0])) == 0:
                    how = "whole"       # resize(0) empties the container, like clear()
                elif name in ("reserve", "resize", "shrink_to_fit"):
                    how = name
                elif how != "whole":
                    self.read(obj_paths, e)
                self.write(obj_paths, how, e)
                if name == "operator=" or name in MUT_RMW:
                    return set(obj_paths)
                return {TMP}
            if e.get("cm") or name in ("size", "shape", "empty", "count", "dimension", "capacity",
                                       "load", "<conv>", "operator bool", "joinable", "what",
                                       "c_str", "length", "strides", "layout", "max_size"):
                self.read(obj_paths, e)
                for ps, a in zip(arg_paths, args_n):
                    self.read(ps, a)
                if self.is_alias_type(rt, rt.endswith("&")):
                    return set(obj_paths)
                return {TMP}
            # unknown non-const external method: conservative write
            self.s.unknown.add((bn, fn.loc(e)))
            self.read(obj_paths, e)
            self.write(obj_paths, "whole", e)
            return {TMP}

        # free functions -------------------------------------------------------------------
        if bn in ALIAS_FREE:
            out = set()
            for ps in arg_paths[:1] if not bn.startswith("std::m") and bn != "std::tie" else arg_paths:
                out |= ps
            for ps, a in zip(arg_paths[1:], args_n[1:]):
                self.read(ps, a)
            if bn == "xt::col" or bn == "xt::row":
                c = (("other",), self.cls(args_n[1])) if bn == "xt::col" else (self.cls(args_n[1]), ("other",))
                return {p + (("[]", c),) for p in (arg_paths[0] if arg_paths else set())}
            return out or {TMP}
        if bn in ("std::for_each", "std::for_each_n"):
            # the callable's captured effects were folded where the closure was created; the range is
            # read, and written element-wise only if the callable takes its argument by non-const reference
            writes = False
            if len(args_n) >= 3:
                for n in walk(args_n[2]):
                    if n.get("k") == "lambda" and n.get("fid") in fn.unit.fns:
                        lam = fn.unit.fns[n["fid"]]
                        if lam.params:
                            t0 = lam.type(lam.params[0]["t"])
                            writes = t0.endswith("&") and not t0.startswith("const ") and "const &" not in t0
            for i, (ps, a) in enumerate(zip(arg_paths, args_n)):
                self.read(ps, a)
                if writes and i == 0:
                    self.write(ps, "elem", e)
            return {TMP}
        if bn in ("std::copy_if", "std::copy", "std::copy_n", "std::transform") and args_n and \
                any(n.get("k") == "call" and n.get("bn") in ("std::back_inserter", "std::inserter", "std::front_inserter")
                    for n in walk(args_n[-2 if bn in ("std::copy_if", "std::transform") else -1])):
            # output through an insert iterator: the destination container grows (read-modify-write)
            di = len(args_n) - 2 if bn in ("std::copy_if", "std::transform") else len(args_n) - 1
            for i, (ps, a) in enumerate(zip(arg_paths, args_n)):
                self.read(ps, a)
                if i == di:
                    self.write(ps, "grow", e)
            return {TMP}
        if bn in WRITE_RANGE_FREE:
            wset = set()
            for i in WRITE_RANGE_FREE[bn]:
                if i < len(arg_paths):
                    wset |= arg_paths[i]
            for i, (ps, a) in enumerate(zip(arg_paths, args_n)):
                if i in WRITE_RANGE_FREE[bn]:
                    self.write(ps, "whole", e)
                elif ps and ps <= wset:
                    pass    # the end iterator of the written range
                else:
                    self.read(ps, a)
            return {TMP}
        if any(bn.startswith(p) for p in PURE_PREFIXES) or e.get("op") is not None:
            for ps, a in zip(arg_paths, args_n):
                self.read(ps, a)
            op = e.get("op")
            if op in ASSIGN_OPS and arg_paths:
                self.write(arg_paths[0], "whole" if op == "=" else "rmw", e)
                return arg_paths[0]
            if op in ("++", "--") and arg_paths:
                self.write(arg_paths[0], "rmw", e)
                return arg_paths[0]
            if op in ("*", "->") and len(arg_paths) == 1:
                return arg_paths[0]
            return {TMP}
        # unknown free function: arguments passed by non-const reference may be written
        self.s.unknown.add((bn, fn.loc(e)))
        for ps, a in zip(arg_paths, args_n):
            self.read(ps, a)
            self.write(ps, "whole", e)
        return {TMP}


# ------------------------------------------------------------------ must-write maps (A4-lite)

def _leaf_effects(an, s):
    saved = an.s
    an.s = Summary()
    an.stmt(s)
    out = an.s
    an.s = saved
    saved.effects |= out.effects
    for k, v in out.locs.items():
        saved.locs.setdefault(k, v)
    saved.opaque |= out.opaque
    saved.unknown |= out.unknown
    return out


def obj_key(path):
    """root + fields up to the first index"""
    out = []
    for e in path:
        if e[0] == "[]":
            break
        out.append(e)
    return tuple(out)


def _merge(a, b):
    return {"paths": a["paths"] | b["paths"], "how": a["how"] | b["how"],
            "reads": a["reads"] | b["reads"], "loc": a["loc"] or b["loc"],
            "branches": a.get("branches", 1)}


def must_write_map(an, s, keyfn=obj_key):
    """{key: {"paths", "how", "reads" (paths read by the same leaf statements), "loc"}} of the
    writes that happen on EVERY path through statement s (a loop may run zero times).  Keys are
    `keyfn(path)` (default: the object, i.e. root + fields up to the first index); "paths" keeps
    the precise written paths of all branches."""
    if s is None:
        return {}
    k = s.get("k")
    if k == "compound":
        out = {}
        for c in s["b"]:
            m = must_write_map(an, c, keyfn)
            for p, v in m.items():
                out[p] = _merge(out[p], v) if p in out else v
            if c.get("k") in ("return", "break", "continue") or \
                    (c.get("k") == "expr" and strip(c["e"]).get("k") == "throw"):
                break
        return out
    if k == "if":
        cv = strip(s["c"]).get("cv")
        if s.get("init") is not None:
            _leaf_effects(an, s["init"])
        _leaf_effects(an, {"k": "expr", "e": s["c"], "l": s.get("l")})
        a = must_write_map(an, s.get("then"), keyfn)
        b = must_write_map(an, s.get("else"), keyfn) if s.get("else") is not None else {}
        if cv is True:
            return a
        if cv is False:
            return b
        if _always_exits(s.get("then")):
            return b
        if s.get("else") is not None and _always_exits(s.get("else")):
            return a
        return {p: _merge(a[p], b[p]) for p in a if p in b}
    if k in ("for", "while", "do", "rangefor", "switch", "try"):
        _leaf_effects(an, s)
        if k == "do":
            return must_write_map(an, s.get("body"), keyfn)
        if k == "try":
            return must_write_map(an, s.get("body"), keyfn)
        return {}
    eff = _leaf_effects(an, s)
    reads = eff.reads()
    out = {}
    for (kind, p, how) in eff.effects:
        if kind == "w":
            key = keyfn(p)
            v = {"paths": {p}, "how": {how}, "reads": set(reads), "loc": eff.locs.get((kind, p, how))}
            out[key] = _merge(out[key], v) if key in out else v
    return out


def _always_exits(s):
    if s is None:
        return False
    k = s.get("k")
    if k in ("return",):
        return True
    if k == "expr":
        return strip(s["e"]).get("k") == "throw"
    if k == "compound":
        return any(_always_exits(c) for c in s["b"])
    if k == "if":
        return s.get("else") is not None and _always_exits(s.get("then")) and _always_exits(s.get("else"))
    return False
