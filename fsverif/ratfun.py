"""Exact symbolic domain for A5: rational functions over opaque symbols with uninterpreted function
symbols (pow), paired with a numeric representative that decides comparisons.

A `Dual` carries
  * `rep`  : a double used ONLY to decide the comparisons the interpreted code makes (it fixes the
             control path: which receiver is the lowest, whether the clamp is taken, ...);
  * `num`, `den` : polynomials (interp.Poly) with num/den the exact symbolic value.
Equality of two Duals' symbolic parts is decided by cross-multiplication, i.e. it is an identity
of rational functions, valid for all values of the symbols (pow(x, y) is uninterpreted: two
occurrences are equal only if their arguments are identical rational functions).
"""
import math

from .interp import Poly
from .sir import AnalysisBroken


def canon(p):
    return "+".join("%d*%s" % (v, ".".join(k)) for k, v in sorted(p.terms.items())) or "0"


class Dual:
    __slots__ = ("rep", "num", "den")

    def __init__(self, rep, num, den=None):
        self.rep = float(rep)
        self.num = Poly.of(num)
        self.den = Poly.of(den) if den is not None else Poly.of(1)

    @staticmethod
    def sym(name, rep):
        return Dual(rep, Poly.sym(name))

    @staticmethod
    def of(x):
        if isinstance(x, Dual):
            return x
        if isinstance(x, bool):
            x = int(x)
        if isinstance(x, int):
            return Dual(x, Poly.of(x))
        if isinstance(x, float):
            if float(x) == int(x) and abs(x) < 1e15:
                return Dual(x, Poly.of(int(x)))
            # a non-integer literal: keep it as its own symbol (exact)
            return Dual(x, Poly.sym("lit(%r)" % x))
        raise AnalysisBroken("ratfun: cannot lift %r" % (x,))

    def __deepcopy__(self, memo):
        return self

    def key(self):
        return "(%s)/(%s)" % (canon(self.num), canon(self.den))

    def same(self, o):
        o = Dual.of(o)
        return (self.num * o.den) == (o.num * self.den)

    def __repr__(self):
        return "Dual(%.6g ~ %s)" % (self.rep, self.key()[:160])

    # arithmetic -----------------------------------------------------------------------------
    def add(self, o, sign=1):
        o = Dual.of(o)
        if self.den == o.den:
            return Dual(self.rep + sign * o.rep, self.num + o.num * Poly.of(sign), self.den)
        return Dual(self.rep + sign * o.rep, self.num * o.den + o.num * self.den * Poly.of(sign),
                    self.den * o.den)

    def mul(self, o):
        o = Dual.of(o)
        return Dual(self.rep * o.rep, self.num * o.num, self.den * o.den)

    def div(self, o):
        o = Dual.of(o)
        if o.rep == 0:
            raise AnalysisBroken("ratfun: division by a value whose representative is 0")
        return Dual(self.rep / o.rep, self.num * o.den, self.den * o.num)

    def neg(self):
        return Dual(-self.rep, self.num * Poly.of(-1), self.den)


def upow(x, y):
    x, y = Dual.of(x), Dual.of(y)
    try:
        r = math.pow(x.rep, y.rep)
    except (ValueError, OverflowError):
        raise AnalysisBroken("ratfun: pow(%r, %r) of representatives" % (x.rep, y.rep))
    return Dual(r, Poly.sym("pow[%s;%s]" % (x.key(), y.key())))


def ufun(name, x):
    x = Dual.of(x)
    f = {"fabs": abs, "abs": abs, "sqrt": math.sqrt}[name]
    if name in ("fabs", "abs"):
        # |x| is decided by the representative's sign (the sign is part of the control path)
        return x if x.rep >= 0 else x.neg()
    return Dual(f(x.rep), Poly.sym("%s[%s]" % (name, x.key())))


def binop(op, a, b):
    a, b = Dual.of(a), Dual.of(b)
    if op == "+":
        return a.add(b)
    if op == "-":
        return a.add(b, -1)
    if op == "*":
        return a.mul(b)
    if op == "/":
        return a.div(b)
    raise AnalysisBroken("ratfun: operator %s" % op)


def compare(op, a, b):
    a, b = Dual.of(a), Dual.of(b)
    x, y = a.rep, b.rep
    return {"<": x < y, "<=": x <= y, ">": x > y, ">=": x >= y, "==": x == y, "!=": x != y}[op]
