"""Exact symbolic domain for A5: rational functions over opaque symbols with uninterpreted function
symbols (pow), paired with a numeric representative that decides comparisons.

A `Dual` carries
  * `rep`  : a double used ONLY to decide the comparisons the interpreted code makes (it fixes the
             control path: which receiver is the lowest, whether the clamp is taken, ...);
  * `num`, `den` : polynomials (interp.Poly) with num/den the exact symbolic value.
Equality of two Duals' symbolic parts is decided by cross-multiplication, i.e. it is an identity
of rational functions, valid for all values of the symbols (pow(x, y) is uninterpreted: two
occurrences are equal only if their arguments are identical rational functions).
"""
import math

from .interp import Poly
from .sir import AnalysisBroken


def canon(p):
    return "+".join("%d*%s" % (v, ".".join(k)) for k, v in sorted(p.terms.items())) or "0"


ONE = Poly.of(1)


def _is_one(p):
    return p.terms == {(): 1}


def _expand(fac):
    out = ONE
    for f, e in fac.items():
        for _ in range(e):
            out = out * f
    return out


def _minus(a, b):
    """multiset difference a - b of factor dictionaries"""
    out = {}
    for f, e in a.items():
        r = e - b.get(f, 0)
        if r > 0:
            out[f] = r
    return out


def _lcm(a, b):
    out = dict(a)
    for f, e in b.items():
        if out.get(f, 0) < e:
            out[f] = e
    return out


def _plus(a, b):
    out = dict(a)
    for f, e in b.items():
        out[f] = out.get(f, 0) + e
    return out


class Dual:
    """num / prod(f^e): the denominator is kept as a multiset of polynomial factors (never
    expanded), so the common factors that a division cancels (Thomas recursion, weighted means)
    are cancelled syntactically; identity is still decided by exact cross-multiplication"""
    __slots__ = ("rep", "num", "dfac", "_den")

    def __init__(self, rep, num, den=None, dfac=None):
        self.rep = float(rep)
        self.num = Poly.of(num)
        self._den = None
        if dfac is not None:
            self.dfac = dfac
        else:
            d = Poly.of(den) if den is not None else ONE
            self.dfac = {} if _is_one(d) else {d: 1}
        if not self.num.terms:
            self.dfac = {}
        elif self.dfac.get(self.num):
            # num equals one of the factors: cancel it
            self.dfac = _minus(self.dfac, {self.num: 1})
            self.num = ONE

    @property
    def den(self):
        if self._den is None:
            self._den = _expand(self.dfac)
        return self._den

    @staticmethod
    def sym(name, rep):
        return Dual(rep, Poly.sym(name))

    @staticmethod
    def of(x):
        if isinstance(x, Dual):
            return x
        if isinstance(x, bool):
            x = int(x)
        if isinstance(x, int):
            return Dual(x, Poly.of(x))
        if isinstance(x, float):
            if x != x or x in (float("inf"), float("-inf")):
                return Dual(x, Poly.sym("lit(%r)" % x))     # NaN / infinity: an opaque value, compared as a double
            if float(x) == int(x) and abs(x) < 1e15:
                return Dual(x, Poly.of(int(x)))
            n, d = x.as_integer_ratio()
            if d <= (1 << 20) and abs(n) < (1 << 40):
                # a dyadic literal (0.5, 0.25, 1.5, ...) is the exact rational n / d
                return Dual(x, Poly.of(n), Poly.of(d))
            # any other literal: keep it as its own symbol (exact)
            return Dual(x, Poly.sym("lit(%r)" % x))
        raise AnalysisBroken("ratfun: cannot lift %r" % (x,))

    def __deepcopy__(self, memo):
        return self

    def key(self):
        return "(%s)/(%s)" % (canon(self.num), canon(self.den))

    def same(self, o):
        o = Dual.of(o)
        l = _lcm(self.dfac, o.dfac)
        return (self.num * _expand(_minus(l, self.dfac))) == (o.num * _expand(_minus(l, o.dfac)))

    def __repr__(self):
        return "Dual(%.6g ~ %s)" % (self.rep, self.key()[:160])

    # arithmetic -----------------------------------------------------------------------------
    def add(self, o, sign=1):
        o = Dual.of(o)
        if self.dfac == o.dfac:
            return Dual(self.rep + sign * o.rep, self.num + o.num * Poly.of(sign), dfac=self.dfac)
        l = _lcm(self.dfac, o.dfac)
        return Dual(self.rep + sign * o.rep,
                    self.num * _expand(_minus(l, self.dfac)) + o.num * _expand(_minus(l, o.dfac)) * Poly.of(sign),
                    dfac=l)

    def mul(self, o):
        o = Dual.of(o)
        return Dual(self.rep * o.rep, self.num * o.num, dfac=_plus(self.dfac, o.dfac))

    def div(self, o):
        o = Dual.of(o)
        if o.rep == 0:
            raise AnalysisBroken("ratfun: division by a value whose representative is 0")
        # (a.num / A) / (o.num / O) = a.num * (O - A) / ((A - O) * o.num)
        num = self.num * _expand(_minus(o.dfac, self.dfac))
        dfac = _minus(self.dfac, o.dfac)
        d = o.num
        if d.terms == {(): -1}:
            num = num * Poly.of(-1)
        elif not _is_one(d):
            dfac = _plus(dfac, {d: 1})
        return Dual(self.rep / o.rep, num, dfac=dfac)

    def neg(self):
        return Dual(-self.rep, self.num * Poly.of(-1), dfac=self.dfac)


def upow(x, y):
    x, y = Dual.of(x), Dual.of(y)
    try:
        r = math.pow(x.rep, y.rep)
    except (ValueError, OverflowError):
        raise AnalysisBroken("ratfun: pow(%r, %r) of representatives" % (x.rep, y.rep))
    return Dual(r, Poly.sym("pow[%s;%s]" % (x.key(), y.key())))


def ufun(name, x):
    x = Dual.of(x)
    f = {"fabs": abs, "abs": abs, "sqrt": math.sqrt}[name]
    if name in ("fabs", "abs"):
        # |x| is decided by the representative's sign (the sign is part of the control path)
        return x if x.rep >= 0 else x.neg()
    return Dual(f(x.rep), Poly.sym("%s[%s]" % (name, x.key())))


def binop(op, a, b):
    a, b = Dual.of(a), Dual.of(b)
    if op == "+":
        return a.add(b)
    if op == "-":
        return a.add(b, -1)
    if op == "*":
        return a.mul(b)
    if op == "/":
        return a.div(b)
    raise AnalysisBroken("ratfun: operator %s" % op)


def compare(op, a, b):
    a, b = Dual.of(a), Dual.of(b)
    x, y = a.rep, b.rep
    return {"<": x < y, "<=": x <= y, ">": x > y, ">=": x >= y, "==": x == y, "!=": x != y}[op]
