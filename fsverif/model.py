"""Repository-specific vocabulary shared by the rules (filled from the AST, not hard-coded):
operator classes with their constexpr flags, operator implementations, graph table members."""
import re

from .sir import AnalysisBroken

FLAGS = ("elevation_updated", "graph_updated", "in_flowdir", "out_flowdir")
OP_BASE = "fastscapelib::flow_operator"
IMPL = "fastscapelib::detail::flow_operator_impl"
GRAPH_IMPL = "fastscapelib::detail::flow_graph_impl"
FLOW_GRAPH = "fastscapelib::flow_graph"

# graph tables (members of flow_graph_impl) by role -- confirmed by reading flow_graph_impl.hpp
RECEIVERS = ("m_receivers", "m_receivers_count", "m_receivers_distance", "m_receivers_weight")
DONORS = ("m_donors", "m_donors_count")
DFS = ("m_dfs_indices",)
BFS = ("m_bfs_indices", "m_bfs_levels")


def operator_classes(unit):
    """{operator class plain name: {flag: value-or-enum-name}} for classes derived from flow_operator"""
    recs = {r["bn"]: r for r in unit.records}
    base = recs.get(OP_BASE)
    if base is None:
        raise AnalysisBroken("flow_operator record not found in unit %s" % unit.name)

    def flags_of(rec):
        out = {}
        for v in rec.get("svars", []):
            if v["n"] in FLAGS:
                if "cen" in v:
                    out[v["n"]] = v["cen"]
                elif "cv" in v:
                    out[v["n"]] = v["cv"]
        return out
    base_flags = flags_of(base)
    if set(base_flags) != set(FLAGS):
        raise AnalysisBroken("flow_operator flags not constant-evaluable: %s" % base_flags)
    out = {}
    for r in unit.records:
        if any(b.get("bn") == OP_BASE for b in r.get("bases", [])):
            fl = dict(base_flags)
            fl.update(flags_of(r))
            out[r["bn"]] = fl
    return out


def impl_operator(fn):
    """operator class name of a flow_operator_impl<FG, OP, Tag> member function, else None"""
    if not (fn.cls or "").startswith(IMPL) or fn.cls != IMPL:
        return None
    t = fn.clstype()
    m = re.search(r", (fastscapelib::\w+), fastscapelib::flow_graph_fixed_array_tag>$", t)
    return m.group(1) if m else None


def operator_impls(db, unit):
    """{operator class: {"apply": Fn|None, "save": Fn|None, "fns": [Fn]}}"""
    out = {}
    for fn in db.fns(unit=unit, pred=lambda f: f.cls == IMPL and not f.is_lambda):
        op = impl_operator(fn)
        if op is None:
            continue
        d = out.setdefault(op, {"apply": None, "save": None, "fns": []})
        d["fns"].append(fn)
        if fn.name in ("apply", "save"):
            d[fn.name] = fn
    return out


def first_field(path):
    for e in path[1:]:
        if e[0] == "f":
            return e[1]
    return None
