"""A5 — finite-domain abstract interpreter over SIR (DESIGN.md §3.3).

Interprets the resolved statements of library functions over pluggable value domains:
  * exact flags / enums / small integers (python values),
  * opaque *ordered symbols* (class Sym) that admit only the comparisons / monotone lemmas the
    rule's `World` whitelists,
  * intervals over doubles (class Interval) with three-valued comparisons.
A comparison whose outcome is not determined forks the execution (all decision sequences are
enumerated by `explore`).  Any construct or library call that is not modelled raises
AnalysisBroken: the premise "the code touches these values only in the modelled ways" is thereby
checked, never assumed.
"""
import copy
import math
import re

from .sir import pp, strip, walk, const_value, has_const, AnalysisBroken


class NotHandled:
    pass


NOT_HANDLED = NotHandled()


class ThrowEx(Exception):
    def __init__(self, node, text, where):
        Exception.__init__(self, text)
        self.node = node
        self.text = text
        self.where = where


class ReturnEx(Exception):
    def __init__(self, value):
        self.value = value


class BreakEx(Exception):
    pass


class ContinueEx(Exception):
    pass


class StepLimit(Exception):
    pass


class LoopBound(Exception):
    """a loop was unrolled beyond the world's loop_bound: the path is abandoned (reported as a
    bound of the analysis, never as a verdict)"""


# ------------------------------------------------------------------------------------ values

class Ref:
    def get(self):
        raise NotImplementedError

    def set(self, v):
        raise NotImplementedError


class Cell(Ref):
    __slots__ = ("v", "name")

    def __init__(self, v=None, name=""):
        self.v = v
        self.name = name

    def get(self):
        return self.v

    def set(self, v):
        self.v = v


class ElemRef(Ref):
    __slots__ = ("c", "k")

    def __init__(self, c, k):
        self.c = c
        self.k = k

    def get(self):
        try:
            return self.c[self.k]
        except (IndexError, KeyError):
            raise AnalysisBroken("interp: out-of-range element read %r[%r]" % (type(self.c).__name__, self.k))

    def set(self, v):
        try:
            self.c[self.k] = v
        except IndexError:
            raise AnalysisBroken("interp: out-of-range element write [%r]" % (self.k,))


class FieldRef(Ref):
    __slots__ = ("o", "n")

    def __init__(self, o, n):
        self.o = o
        self.n = n

    def get(self):
        return self.o.getfield(self.n)

    def set(self, v):
        self.o.setfield(self.n, v)


class Obj:
    """instance of a library record"""

    def __init__(self, cls, fields=None, type_str=""):
        self.cls = cls
        self.fields = fields if fields is not None else {}
        self.type_str = type_str

    def getfield(self, n):
        if n not in self.fields:
            raise AnalysisBroken("interp: field %s.%s has no modelled value" % (self.cls, n))
        return self.fields[n]

    def setfield(self, n, v):
        self.fields[n] = v

    def __repr__(self):
        return "<%s %r>" % (self.cls.split("::")[-1], self.fields)

    def __eq__(self, o):
        return isinstance(o, Obj) and o.cls == self.cls and o.fields == self.fields

    def __hash__(self):
        return id(self)


class PyVec(list):
    """std::vector / std::array / xt 1-d container of modelled values"""
    pass


class SeqView(PyVec):
    """xt::view(seq, xt::range(lo, hi)): a window on a modelled 1-d sequence; reads and element
    writes go to the underlying sequence, the window itself cannot be resized"""

    def __init__(self, base, lo, hi):
        list.__init__(self)
        if lo < 0 or hi > len(base) or lo > hi:
            raise OutOfRange("interp: view [%d, %d) of a sequence of size %d" % (lo, hi, len(base)))
        self.base, self.lo, self.hi = base, lo, hi

    def __deepcopy__(self, memo):
        return self         # copying a view object gives another view of the same data

    def __len__(self):
        return self.hi - self.lo

    def _idx(self, i):
        if not isinstance(i, int) or isinstance(i, bool):
            raise AnalysisBroken("interp: view index %r" % (i,))
        if i < 0:
            i += len(self)
        if i < 0 or i >= len(self):
            raise OutOfRange("interp: index %d out of range of a view of size %d" % (i, len(self)))
        return self.lo + i

    def __getitem__(self, i):
        if isinstance(i, slice):
            return [self.base[k] for k in range(self.lo, self.hi)][i]
        return self.base[self._idx(i)]

    def __setitem__(self, i, v):
        if isinstance(i, slice):
            raise AnalysisBroken("interp: a view cannot be resized")
        self.base[self._idx(i)] = v

    def __iter__(self):
        return iter([self.base[k] for k in range(self.lo, self.hi)])

    def __contains__(self, v):
        return any(x == v for x in self)

    def __eq__(self, o):
        return list(self) == list(o) if isinstance(o, list) else NotImplemented

    def __ne__(self, o):
        r = self.__eq__(o)
        return r if r is NotImplemented else not r

    __hash__ = None

    def __repr__(self):
        return "view%r" % (list(self),)

    def _fixed(self, *a, **k):
        raise AnalysisBroken("interp: a view cannot be resized")

    append = extend = insert = pop = clear = remove = sort = reverse = __delitem__ = __iadd__ = __imul__ = _fixed


class LazyCol:
    """xt::col(table, c) / xt::row(table, r) of a world-modelled 2-d table: element i is read through
    the table's own element access (a synthesised `table(i, c)` call evaluated by the world)"""

    def __init__(self, obj_node, frame, fixed, is_col):
        self.obj_node, self.frame, self.fixed, self.is_col = obj_node, frame, fixed, is_col

    def __deepcopy__(self, memo):
        return self

    def elem(self, it, i):
        idx = [i, self.fixed] if self.is_col else [self.fixed, i]
        node = {"k": "call", "bn": "xt::xcontainer::operator()", "cls": "xt::xcontainer", "op": "()",
                "obj": self.obj_node, "a": [{"k": "lit", "cv": x} for x in idx], "l": self.obj_node.get("l")}
        return it.rv(it.eval(node, self.frame))


class Opaque:
    """placeholder for a value of an unmodelled type; any use of it aborts the analysis"""

    def __init__(self, type_str):
        self.type_str = type_str

    def __repr__(self):
        return "<opaque %s>" % self.type_str[:40]

    def __deepcopy__(self, memo):
        return self


class TieRefs:
    """result of std::tie(a, b, ...): a tuple of references"""

    def __init__(self, refs):
        self.refs = refs

    def __deepcopy__(self, memo):
        return self


class Iter:
    """iterator into a modelled sequence"""

    def __init__(self, seq, pos, step=1):
        self.seq = seq
        self.pos = pos
        self.step = step

    def __deepcopy__(self, memo):
        return Iter(self.seq, self.pos, self.step)

    def __eq__(self, o):
        return isinstance(o, Iter) and o.seq is self.seq and o.pos == self.pos and o.step == self.step

    def __hash__(self):
        return hash((id(self.seq), self.pos, self.step))

    def deref(self):
        i = self.pos if self.step == 1 else self.pos - 1
        if i < 0 or i >= len(self.seq):
            raise AnalysisBroken("interp: iterator dereferenced out of range")
        return ElemRef(self.seq, i)


class WholeRange:
    """begin() / end() of a modelled container without positional storage (sparse tables): only
    whole-range algorithms are supported on it"""

    def __init__(self, obj, end):
        self.obj = obj
        self.end = end

    def __deepcopy__(self, memo):
        return self


class BackInserter:
    def __init__(self, seq):
        self.seq = seq

    def __deepcopy__(self, memo):
        return self


class OutOfRange(AnalysisBroken):
    """the interpreted code indexes a modelled std container outside its size: undefined behaviour of
    the code under analysis; rules that run concrete-shape scenarios report it as a violation"""


class Poly:
    """polynomial with integer coefficients over opaque commutative symbols (free algebra):
    an exact abstract domain for code that only adds and multiplies opaque quantities"""

    MAX_PRODUCTS = 4000000

    def __init__(self, terms=None):
        self.terms = {k: v for k, v in (terms or {}).items() if v != 0}

    @staticmethod
    def sym(name):
        return Poly({(name,): 1})

    @staticmethod
    def of(x):
        if isinstance(x, Poly):
            return x
        if isinstance(x, bool):
            x = int(x)
        if isinstance(x, (int, float)) and float(x) == int(x):
            return Poly({(): int(x)})
        raise AnalysisBroken("poly: cannot lift %r" % (x,))

    def __add__(self, o):
        o = Poly.of(o)
        t = dict(self.terms)
        for k, v in o.terms.items():
            t[k] = t.get(k, 0) + v
        return Poly(t)

    def __mul__(self, o):
        o = Poly.of(o)
        if len(self.terms) * len(o.terms) > Poly.MAX_PRODUCTS:
            raise AnalysisBroken("poly: product of %d x %d terms exceeds the size budget (the expected "
                                 "cancellations do not happen in the analysed code)" % (len(self.terms), len(o.terms)))
        t = {}
        for k1, v1 in self.terms.items():
            for k2, v2 in o.terms.items():
                k = tuple(sorted(k1 + k2))
                t[k] = t.get(k, 0) + v1 * v2
        return Poly(t)

    def __eq__(self, o):
        try:
            return self.terms == Poly.of(o).terms
        except AnalysisBroken:
            return False

    def __hash__(self):
        return hash(tuple(sorted(self.terms.items())))

    def __deepcopy__(self, memo):
        return self

    def __repr__(self):
        if not self.terms:
            return "0"
        return " + ".join(("%d*" % v if v != 1 else "") + "*".join(k) if k else str(v)
                          for k, v in sorted(self.terms.items()))


class Closure:
    def __init__(self, fn, caps, this):
        self.fn = fn
        self.caps = caps
        self.this = this

    def __deepcopy__(self, memo):
        # copying a closure copies its by-value captures, never the function (or the program DB)
        caps = {}
        for d, c in self.caps.items():
            caps[d] = c
        return Closure(self.fn, caps, self.this)


class FuncRef:
    def __init__(self, fn=None, bn=None):
        self.fn = fn
        self.bn = bn

    def __deepcopy__(self, memo):
        return self


class Interval:
    """closed interval of doubles (may be unbounded); nan_possible marks 0/0-like hazards"""

    def __init__(self, lo, hi, nan=False):
        self.lo = lo
        self.hi = hi
        self.nan = nan

    def __repr__(self):
        return "[%g, %g]%s" % (self.lo, self.hi, "+NaN" if self.nan else "")

    @staticmethod
    def of(x):
        if isinstance(x, Interval):
            return x
        if isinstance(x, bool):
            x = int(x)
        if isinstance(x, (int, float)):
            if isinstance(x, float) and math.isnan(x):
                return Interval(float("-inf"), float("inf"), True)
            return Interval(float(x), float(x))
        raise AnalysisBroken("interval: cannot lift %r" % (x,))


def _mul(a, b):
    if (a == 0 and math.isinf(b)) or (b == 0 and math.isinf(a)):
        return 0.0
    return a * b


def interval_binop(op, a, b):
    a, b = Interval.of(a), Interval.of(b)
    nan = a.nan or b.nan
    if op == "+":
        return Interval(a.lo + b.lo, a.hi + b.hi, nan)
    if op == "-":
        return Interval(a.lo - b.hi, a.hi - b.lo, nan)
    if op == "*":
        c = [_mul(a.lo, b.lo), _mul(a.lo, b.hi), _mul(a.hi, b.lo), _mul(a.hi, b.hi)]
        return Interval(min(c), max(c), nan)
    if op == "/":
        if b.lo <= 0 <= b.hi:
            return Interval(float("-inf"), float("inf"), nan or (a.lo <= 0 <= a.hi))
        c = [a.lo / b.lo, a.lo / b.hi, a.hi / b.lo, a.hi / b.hi]
        return Interval(min(c), max(c), nan)
    raise AnalysisBroken("interval: operator %s" % op)


def interval_cmp(op, a, b):
    """three-valued: True / False / None (undetermined)"""
    a, b = Interval.of(a), Interval.of(b)
    if a.nan or b.nan:
        return None
    if op == "<":
        if a.hi < b.lo:
            return True
        if a.lo >= b.hi:
            return False
        return None
    if op == "<=":
        if a.hi <= b.lo:
            return True
        if a.lo > b.hi:
            return False
        return None
    if op == ">":
        return interval_cmp("<", b, a)
    if op == ">=":
        return interval_cmp("<=", b, a)
    if op == "==":
        if a.lo == a.hi == b.lo == b.hi:
            return True
        if a.hi < b.lo or b.hi < a.lo:
            return False
        return None
    if op == "!=":
        r = interval_cmp("==", a, b)
        return None if r is None else (not r)
    raise AnalysisBroken("interval: comparison %s" % op)


class Sym:
    """opaque symbol; the World's `sym_binop` / `sym_cmp` define what may be done with it"""

    def __deepcopy__(self, memo):
        return self

    def __init__(self, kind, tag, data=None):
        self.kind = kind
        self.tag = tag
        self.data = data

    def __repr__(self):
        return "%s(%s)" % (self.kind, self.tag)

    def __eq__(self, o):
        return isinstance(o, Sym) and (o.kind, o.tag) == (self.kind, self.tag)

    def __hash__(self):
        return hash((self.kind, self.tag))


def out_param(it, frame, args, k, value):
    """result of a modelled library function that also stores it into its k-th argument (a
    container passed by reference) and returns a reference to that argument"""
    if len(args) > k:
        r = it.eval(args[k], frame)
        if isinstance(r, Ref):
            r.set(value)
            return r
    return value


# ------------------------------------------------------------------------------------ world

class World:
    """Rule-specific model of everything outside the interpreted code"""

    def external(self, it, fn, call, frame):
        """model a call that has no library body (std::, xt::, opaque members).  Return a value /
        Ref, or NOT_HANDLED to fall back on the built-in table."""
        return NOT_HANDLED

    def before_call(self, it, fn, call, callee, frame):
        """intercept a library call before it is inlined.  Return NOT_HANDLED to inline."""
        return NOT_HANDLED

    def member(self, it, fn, node, base, frame):
        """model a member access on a non-Obj base.  Return Ref/value or NOT_HANDLED."""
        return NOT_HANDLED

    def address_of(self, it, ref):
        """&lvalue: a world that models contiguous storage may return an iterator into it"""
        return NOT_HANDLED

    def sym_binop(self, op, a, b):
        raise AnalysisBroken("abstract value used in an un-whitelisted operation: %r %s %r" % (a, op, b))

    def sym_cmp(self, op, a, b):
        raise AnalysisBroken("abstract values compared in an un-whitelisted way: %r %s %r" % (a, op, b))

    def sym_unop(self, op, a):
        raise AnalysisBroken("abstract value used in an un-whitelisted operation: %s %r" % (op, a))

    def range_iter(self, it, fn, node, value, frame):
        return NOT_HANDLED

    def narrow_cast(self, it, type_str, value, where):
        """conversion of an abstract (unbounded) integer to a type narrower than 64 bits"""
        raise AnalysisBroken("interp: narrowing conversion of the abstract value %r to %s at %s"
                             % (value, type_str, where))

    def default_value(self, it, type_str):
        return NOT_HANDLED

    def skip_stmt(self, it, fn, stmt):
        return False

    def on_assign(self, it, fn, node, ref, value):
        pass


NARROW_INT = {}
for _names, _lo, _hi in ((("short", "std::int16_t", "int16_t", "offset_type"), -(1 << 15), (1 << 15) - 1),
                         (("unsigned short", "std::uint16_t", "uint16_t"), 0, (1 << 16) - 1),
                         (("signed char", "std::int8_t", "int8_t"), -128, 127),
                         (("unsigned char", "std::uint8_t", "uint8_t"), 0, 255),
                         (("int", "std::int32_t", "int32_t"), -(1 << 31), (1 << 31) - 1),
                         (("unsigned int", "std::uint32_t", "uint32_t", "unsigned"), 0, (1 << 32) - 1)):
    for _n in _names:
        NARROW_INT[_n] = (_lo, _hi)
NARROW_INT.pop("offset_type")

CMP_OPS = ("<", "<=", ">", ">=", "==", "!=")
ARITH = ("+", "-", "*", "/", "%")


def is_abstract(v):
    return isinstance(v, (Sym, Interval))


class Frame:
    def __init__(self, fn, this=None):
        self.fn = fn
        self.this = this
        self.vars = {}      # decl id -> Cell or Ref


class Interp:
    def __init__(self, world, decisions=None, max_steps=400000):
        self.world = world
        self.decisions = list(decisions or [])
        self.dpos = 0
        self.made = []          # decisions actually taken [(bool, forced?)]
        self.steps = 0
        self.max_steps = max_steps
        self.depth = 0
        self.trace = []

    # ---------------------------------------------------------------- decisions
    def decide(self, what):
        """fork point: the outcome of `what` is not determined by the abstract state"""
        if self.dpos < len(self.decisions):
            d = self.decisions[self.dpos]
        else:
            d = True
        self.dpos += 1
        self.made.append(d)
        return d

    # ---------------------------------------------------------------- helpers
    def rv(self, v):
        while isinstance(v, Ref):
            v = v.get()
        return v

    def tick(self, node=None):
        self.steps += 1
        if self.steps > self.max_steps:
            raise StepLimit()

    def truth(self, v, node=None):
        v = self.rv(v)
        if isinstance(v, bool):
            return v
        if isinstance(v, (int, float)):
            return v != 0
        if v is None:
            return self.decide(node)
        if isinstance(v, Interval):
            r = interval_cmp("!=", v, 0)
            return self.decide(node) if r is None else r
        if isinstance(v, Closure) or isinstance(v, FuncRef):
            return True
        if isinstance(v, PyVec):
            raise AnalysisBroken("interp: container used as condition")
        raise AnalysisBroken("interp: cannot use %r as a condition" % (v,))

    def default_for_type(self, fn, t, node=None):
        ts = fn.type(t) if isinstance(t, int) else t
        w = self.world.default_value(self, ts)
        if w is not NOT_HANDLED:
            return w
        base = ts.replace("const ", "").strip()
        if base.endswith("&"):
            base = base[:-1].strip()
        if base in ("double", "float", "long double"):
            return 0.0
        if base == "bool":
            return False
        if base in ("int", "unsigned int", "long", "unsigned long", "unsigned char", "char",
                    "short", "unsigned short", "long long", "unsigned long long", "signed char"):
            return 0
        m = re.match(r"^std::array<(.*), (\d+)>$", base)
        if m:
            return PyVec([self.default_for_type(fn, m.group(1)) for _ in range(int(m.group(2)))])
        m_at = re.match(r"^std::atomic<(unsigned long|unsigned int|int|long|unsigned char|unsigned short|short)>$", base)
        if m_at:
            return 0
        if base.startswith("std::vector<") or base.startswith("std::deque<"):
            return PyVec()
        if base.startswith("std::map<") or base.startswith("std::unordered_map<"):
            return {}
        if base.startswith("std::basic_string<"):
            return ""
        if base.startswith("std::shared_ptr<") or base.startswith("std::unique_ptr<") or base.endswith("*"):
            return None
        rec = None
        for r in fn.unit.records:
            if fn.unit.type(r["t"]) == base:
                rec = r
                break
        if rec is not None:
            return self.new_obj(fn, rec)
        # enums
        if "::" in base and not base.startswith("std::") and not base.startswith("xt::"):
            return 0
        return Opaque(base)

    def lazy_field(self, fn, o, name):
        """a member the world did not set up (typically one a change added): it takes the value every
        constructor leaves when it does not mention it -- the default member initialiser, or the empty
        state of a standard container / smart pointer.  Members without either keep no value (the
        analysis stops there rather than guess what a constructor assigns)."""
        seen = set()

        def find(cls_bn):
            for r in fn.unit.records:
                if r["bn"] == cls_bn and id(r) not in seen:
                    seen.add(id(r))
                    for f in r["fields"]:
                        if f["n"] == name:
                            return r, f
                    for b in r.get("bases", []):
                        br = fn.unit.rec_by_type.get(b["t"])
                        if br is not None:
                            got = find(br["bn"])
                            if got:
                                return got
            return None
        got = find(o.cls)
        if not got:
            return
        rec, f = got
        if f.get("init") is not None:
            o.fields[name] = copy.deepcopy(self.rv(self.eval(f["init"], Frame(fn, o))))
            return
        ts = fn.unit.type(f["t"]).replace("const ", "").strip()
        if ts.startswith(("std::vector<", "std::deque<", "std::unordered_set<", "std::unordered_map<", "std::set<",
                          "std::map<", "std::shared_ptr<", "std::unique_ptr<")):
            o.fields[name] = self.default_for_type(fn, f["t"])
            return
        # container types the world itself knows how to default-construct (xtensor arrays: empty)
        if ts.startswith(("xt::xtensor_container<", "xt::xarray_container<")):
            w = self.world.default_value(self, ts)
            if w is not NOT_HANDLED:
                o.fields[name] = w

    def new_obj(self, fn, rec):
        o = Obj(rec["bn"], {}, fn.unit.type(rec["t"]))
        for b in rec.get("bases", []):
            brec = fn.unit.rec_by_type.get(b["t"])
            if brec is not None:
                bo = self.new_obj(fn, brec)
                o.fields.update(bo.fields)
        for f in rec["fields"]:
            if f.get("init") is not None:
                fr = Frame(fn, o)
                o.fields[f["n"]] = copy.deepcopy(self.rv(self.eval(f["init"], fr)))
            else:
                o.fields[f["n"]] = self.default_for_type(fn, f["t"])
        return o

    # ---------------------------------------------------------------- calls
    def call_fn(self, fn, this, args, call_node=None):
        """interpret library function `fn` (args: list of values/Refs, evaluated)"""
        self.depth += 1
        if self.depth > 40:
            raise AnalysisBroken("interp: inlining depth exceeded at %s" % fn.bn)
        fr = Frame(fn, this)
        params = fn.params
        for i, p in enumerate(params):
            if i < len(args):
                a = args[i]
            else:
                raise AnalysisBroken("interp: missing argument %d for %s" % (i, fn.bn))
            if p.get("isref"):
                if isinstance(a, Ref):
                    fr.vars[p["d"]] = a
                else:
                    fr.vars[p["d"]] = Cell(a, p["n"])
            else:
                fr.vars[p["d"]] = Cell(copy.deepcopy(self.rv(a)), p["n"])
        try:
            if fn.d.get("inits"):
                self.run_ctor_inits(fn, fr)
            try:
                self.exec(fn.body, fr)
                ret = None
            except ReturnEx as r:
                ret = r.value
        finally:
            self.depth -= 1
        return ret

    def run_ctor_inits(self, fn, fr):
        for ini in fn.d["inits"]:
            if ini.get("field") is not None and ini.get("init") is not None:
                v = self.eval(ini["init"], fr)
                this = self.rv(fr.this)
                if isinstance(this, Obj):
                    this.setfield(ini["field"], copy.deepcopy(self.rv(v)))
            elif ini.get("init") is not None and ini.get("base") is not None:
                e = strip(ini["init"])
                if e.get("k") == "construct" and e.get("fid") is not None:
                    callee = fn.unit.fns[e["fid"]]
                    args = [self.eval(a, fr) for a in e.get("a", [])]
                    self.call_fn(callee, fr.this, args, e)

    def call_closure(self, clo, args, node=None):
        if isinstance(clo, FuncRef):
            if clo.fn is not None:
                return self.call_fn(clo.fn, None, args, node)
            raise AnalysisBroken("interp: call through reference to external function %s" % clo.bn)
        fn = clo.fn
        self.depth += 1
        fr = Frame(fn, clo.this)
        fr.vars.update(clo.caps)
        for i, p in enumerate(fn.params):
            a = args[i]
            if p.get("isref"):
                fr.vars[p["d"]] = a if isinstance(a, Ref) else Cell(a, p["n"])
            else:
                fr.vars[p["d"]] = Cell(copy.deepcopy(self.rv(a)), p["n"])
        try:
            try:
                self.exec(fn.body, fr)
                return None
            except ReturnEx as r:
                return r.value
        finally:
            self.depth -= 1

    # ---------------------------------------------------------------- expressions
    def eval(self, e, fr):
        self.tick(e)
        k = e.get("k")
        # constants computed by clang's evaluator are authoritative (and free of side effects)
        if has_const(e) and k not in ("binop", "unop") or (has_const(e) and k in ("binop", "unop")
                                                           and e.get("op") not in ("=", "++", "--")):
            return const_value(e)
        m = getattr(self, "e_" + k, None)
        if m is None:
            raise AnalysisBroken("interp: expression kind %r at %s" % (k, fr.fn.loc(e)))
        return m(e, fr)

    def e_lit(self, e, fr):
        if "s" in e:
            return e["s"]
        if e.get("null"):
            return None
        if e.get("zero"):
            return self.default_for_type(fr.fn, e["t"])
        raise AnalysisBroken("interp: literal without value at %s" % fr.fn.loc(e))

    def e_cast(self, e, fr):
        v = self.eval(e["e"], fr)
        ck = e.get("ck")
        if ck in ("IntegralToFloating",):
            x = self.rv(v)
            return float(x) if isinstance(x, (int, bool)) else x
        if ck in ("FloatingToIntegral",):
            x = self.rv(v)
            if isinstance(x, float):
                return int(x)
            return x
        if ck in ("IntegralToBoolean", "FloatingToBoolean"):
            x = self.rv(v)
            if isinstance(x, (int, float)):
                return x != 0
            return x
        if ck == "IntegralCast":
            x = self.rv(v)
            t = fr.fn.type(e["t"])
            if isinstance(x, bool):
                return int(x)
            if isinstance(x, int) and "unsigned" in t and x < 0:
                bits = 64 if "long" in t else 8 if "char" in t else 16 if "short" in t else 32
                return x % (1 << bits)
            if isinstance(x, int) and t in ("long", "int", "long long") and x >= (1 << 63):
                return x - (1 << 64)
            if isinstance(x, int) and not isinstance(x, bool):
                tb = t.replace("const ", "").strip()
                rng = NARROW_INT.get(tb)
                if rng is not None and not (rng[0] <= x <= rng[1]):
                    span = rng[1] - rng[0] + 1
                    return (x - rng[0]) % span + rng[0]
                return x
            if not isinstance(x, (int, float)):
                tb = t.replace("const ", "").strip()
                if tb in NARROW_INT:
                    src = strip(e["e"]).get("t")
                    sb = fr.fn.type(src).replace("const ", "").strip() if src is not None else ""
                    srng = NARROW_INT.get(sb, (-(1 << 63), (1 << 64) - 1))
                    drng = NARROW_INT[tb]
                    if srng[0] < drng[0] or srng[1] > drng[1]:
                        return self.world.narrow_cast(self, tb, x, fr.fn.loc(e))
            return x
        return v

    def e_this(self, e, fr):
        if fr.this is None:
            raise AnalysisBroken("interp: 'this' not bound in %s" % fr.fn.bn)
        return fr.this

    def e_ref(self, e, fr):
        rk = e.get("rk")
        if rk in ("param", "local", "slocal", "binding"):
            c = fr.vars.get(e["d"])
            if c is None:
                if rk == "binding" and e.get("be") is not None:
                    return self.eval(e["be"], fr)
                raise AnalysisBroken("interp: variable %s not bound at %s" % (e["n"], fr.fn.loc(e)))
            return c
        if rk == "func":
            fn = fr.fn.unit.fns.get(e.get("fid")) if e.get("fid") is not None else None
            return FuncRef(fn, e.get("bn"))
        if rk == "smember":
            for r in fr.fn.unit.records:
                if r["bn"] == e.get("cls"):
                    for sv in r.get("svars", []):
                        if sv["n"] == e["n"] and sv.get("init") is not None:
                            return self.eval(sv["init"], Frame(fr.fn, None))
        if rk in ("smember", "global"):
            raise AnalysisBroken("interp: non-constant global %s at %s" % (e["n"], fr.fn.loc(e)))
        raise AnalysisBroken("interp: reference kind %r at %s" % (rk, fr.fn.loc(e)))

    def e_member(self, e, fr):
        if e.get("mk") == "svar":
            raise AnalysisBroken("interp: non-constant static member %s" % e["n"])
        base = self.eval(e["b"], fr)
        b = self.rv(base)
        if isinstance(b, Obj):
            if e["n"] not in b.fields:
                self.lazy_field(fr.fn, b, e["n"])
            return FieldRef(b, e["n"])
        r = self.world.member(self, fr.fn, e, b, fr)
        if r is not NOT_HANDLED:
            return r
        if isinstance(b, tuple) and e["n"] in ("first", "second"):
            return b[0 if e["n"] == "first" else 1]
        raise AnalysisBroken("interp: member %s of unmodelled value %r at %s"
                             % (e["n"], b, fr.fn.loc(e)))

    def e_index(self, e, fr):
        b = self.rv(self.eval(e["b"], fr))
        i = self.rv(self.eval(e["i"], fr))
        if isinstance(b, (list, dict)):
            return ElemRef(b, i)
        raise AnalysisBroken("interp: subscript of %r" % (b,))

    def e_initlist(self, e, fr):
        vals = [copy.deepcopy(self.rv(self.eval(a, fr))) for a in e.get("a", []) if a]
        ts0 = fr.fn.type(e.get("t")).replace("const ", "")
        if ts0.startswith("std::array<") and len(vals) == 1 and isinstance(vals[0], PyVec):
            return vals[0]      # std::array{ {elements...} }: the single C-array member
        rec = fr.fn.unit.rec_by_type.get(e.get("t"))
        if rec is not None:
            # aggregate initialisation of a library record
            o = self.new_obj(fr.fn, rec)
            names = [f["n"] for f in rec["fields"]]
            for n, v in zip(names, vals):
                o.fields[n] = v
            return o
        ts = fr.fn.type(e.get("t")).replace("const ", "")
        if ts.startswith("std::pair<") and len(vals) == 2:
            return (vals[0], vals[1])
        if ts.startswith("std::tuple<"):
            return tuple(vals)
        return PyVec(vals)

    def e_lambda(self, e, fr):
        fn = fr.fn.unit.fns.get(e.get("fid"))
        if fn is None and not [f for f in e.get("fids", []) if f in fr.fn.unit.fns]:
            raise AnalysisBroken("interp: generic lambda without an instantiated call operator at %s" % fr.fn.loc(e))
        caps = {}
        this = None
        for c in e.get("caps", []):
            if c.get("this"):
                this = fr.this
            elif c.get("initcap"):
                caps[c["d"]] = Cell(copy.deepcopy(self.rv(self.eval(c["init"], fr))), c["n"])
            else:
                cell = fr.vars.get(c["d"])
                if cell is None:
                    raise AnalysisBroken("interp: capture of unbound %s" % c["n"])
                caps[c["d"]] = cell if c.get("byref") else Cell(copy.deepcopy(self.rv(cell)), c["n"])
        return Closure(fn, caps, this)

    def e_new(self, e, fr):
        # pointers to single objects are modelled by their pointee
        if e.get("e") is None:
            raise AnalysisBroken("interp: new without initialiser at %s" % fr.fn.loc(e))
        return self.rv(self.eval(e["e"], fr))

    def e_throw(self, e, fr):
        raise ThrowEx(e, pp(e.get("e")), fr.fn.loc(e))

    def e_cond(self, e, fr):
        is_assert = any(n.get("k") == "call" and n.get("bn") == "__assert_fail" for n in walk(e.get("else")))
        if is_assert:
            # assert(cond): a condition the abstract world cannot evaluate (addresses, opaque objects)
            # is assumed to hold -- an assertion does not contribute to the behaviour when it holds
            try:
                ok = self.truth(self.eval(e["c"], fr), e["c"])
            except AnalysisBroken:
                return None
            if ok:
                return self.eval(e["then"], fr)
            return self.eval(e["else"], fr)
        if self.truth(self.eval(e["c"], fr), e["c"]):
            return self.eval(e["then"], fr)
        return self.eval(e["else"], fr)

    def e_unop(self, e, fr):
        op = e["op"]
        if op in ("++", "--"):
            r = self.eval(e["e"], fr)
            if not isinstance(r, Ref):
                raise AnalysisBroken("interp: ++ on rvalue")
            old = r.get()
            new = self.wrap(fr, e, self.arith("+" if op == "++" else "-", old, 1))
            r.set(new)
            return old if e.get("post") else r
        v = self.eval(e["e"], fr)
        if op == "*":
            if isinstance(self.rv(v), Iter):
                return self.rv(v).deref()       # pointer-typed iterator into a modelled sequence
            return v
        if op == "&":
            a = self.world.address_of(self, v)
            return v if a is NOT_HANDLED else a
        x = self.rv(v)
        if op == "!":
            return not self.truth(x, e["e"])
        if op == "-":
            if isinstance(x, Poly):
                return x * Poly.of(-1)
            if isinstance(x, (int, float)) and not isinstance(x, bool):
                return -x
            if isinstance(x, Interval):
                return Interval(-x.hi, -x.lo, x.nan)
            return self.world.sym_unop("-", x)
        if op == "+":
            return x
        if op == "~" and isinstance(x, int) and not isinstance(x, bool):
            t = fr.fn.type(e.get("t"))
            if t.startswith("unsigned") or t in ("size_t", "std::size_t") or "uint" in t:
                bits = 64 if "long" in t or "64" in t or "size_t" in t else 8 if ("char" in t or "int8" in t) else \
                    16 if ("short" in t or "16" in t) else 32
                return (~x) % (1 << bits)
            return ~x
        raise AnalysisBroken("interp: unary %s" % op)

    def wrap(self, fr, e, v):
        """modular arithmetic of unsigned integer types"""
        if isinstance(v, int) and not isinstance(v, bool) and (v < 0 or v >= (1 << 32)):
            t = fr.fn.type(e.get("t"))
            if t.startswith("unsigned") or t in ("size_t", "std::size_t"):
                bits = 64 if "long" in t else 8 if "char" in t else 16 if "short" in t else 32
                return v % (1 << bits)
        return v

    def arith(self, op, a, b):
        a, b = self.rv(a), self.rv(b)
        if isinstance(a, Iter) and isinstance(b, int) and not isinstance(b, bool) and op in ("+", "-"):
            return Iter(a.seq, a.pos + (b if op == "+" else -b) * a.step, a.step)
        if isinstance(a, Iter) and isinstance(b, Iter) and op == "-" and a.seq is b.seq and a.step == b.step:
            return (a.pos - b.pos) * a.step
        if isinstance(a, Interval) or isinstance(b, Interval):
            return interval_binop(op, a, b)
        if (isinstance(a, Poly) or isinstance(b, Poly)) and not isinstance(a, float) and not isinstance(b, float) \
                and isinstance(a, (Poly, int)) and isinstance(b, (Poly, int)):
            if op == "+":
                return Poly.of(a) + Poly.of(b)
            if op == "*":
                return Poly.of(a) * Poly.of(b)
            if op == "-":
                return Poly.of(a) + Poly.of(b) * Poly.of(-1)
            return self.world.sym_binop(op, a, b)
        if isinstance(a, float) and isinstance(b, Poly) or isinstance(b, float) and isinstance(a, Poly):
            return self.world.sym_binop(op, a, b)
        if not isinstance(a, (int, float, bool)) or not isinstance(b, (int, float, bool)):
            return self.world.sym_binop(op, a, b)
        if isinstance(a, bool):
            a = int(a)
        if isinstance(b, bool):
            b = int(b)
        if not isinstance(a, (int, float)) or not isinstance(b, (int, float)):
            raise AnalysisBroken("interp: arithmetic %r %s %r" % (a, op, b))
        if op == "+":
            return a + b
        if op == "-":
            return a - b
        if op == "*":
            return a * b
        if op == "/":
            if isinstance(a, int) and isinstance(b, int):
                if b == 0:
                    raise AnalysisBroken("interp: integer division by zero")
                q = abs(a) // abs(b)
                return q if (a >= 0) == (b >= 0) else -q
            if b == 0:
                if a == 0:
                    return float("nan")
                return math.copysign(float("inf"), a)
            return a / b
        if op == "%":
            return int(math.fmod(a, b))
        raise AnalysisBroken("interp: operator %s" % op)

    def compare(self, op, a, b, node=None):
        a, b = self.rv(a), self.rv(b)
        if (a is not None and b is not None and not isinstance(a, (Closure, FuncRef)) and
                not (isinstance(a, Iter) and isinstance(b, Iter)) and
                not isinstance(b, (Closure, FuncRef)) and not isinstance(a, Interval) and
                not isinstance(b, Interval) and
                (not isinstance(a, (int, float, bool, str, tuple)) or
                 not isinstance(b, (int, float, bool, str, tuple)))):
            r = self.world.sym_cmp(op, a, b)
            if r is None:
                return self.decide(node)
            return r
        if isinstance(a, Interval) or isinstance(b, Interval):
            r = interval_cmp(op, a, b)
            if r is None:
                return self.decide(node)
            return r
        if isinstance(a, Iter) and isinstance(b, Iter):
            if a.seq is not b.seq or a.step != b.step:
                raise AnalysisBroken("interp: iterators of different sequences compared")
            x, y = (a.pos, b.pos) if a.step == 1 else (b.pos, a.pos)
            return {"<": x < y, "<=": x <= y, ">": x > y, ">=": x >= y, "==": x == y, "!=": x != y}[op]
        if a is None or b is None:
            if op == "==":
                return a is b
            if op == "!=":
                return a is not b
        if isinstance(a, (Closure, FuncRef)) and b is None or isinstance(b, (Closure, FuncRef)) and a is None:
            return op == "!="
        try:
            if op == "<":
                return a < b
            if op == "<=":
                return a <= b
            if op == ">":
                return a > b
            if op == ">=":
                return a >= b
            if op == "==":
                return a == b
            if op == "!=":
                return a != b
        except TypeError:
            raise AnalysisBroken("interp: comparison %r %s %r" % (a, op, b))
        raise AnalysisBroken("interp: comparison operator %s" % op)

    def assign(self, fr, node, ref, value):
        if not isinstance(ref, Ref):
            raise AnalysisBroken("interp: assignment to rvalue at %s" % fr.fn.loc(node))
        v = copy.deepcopy(self.rv(value))
        self.world.on_assign(self, fr.fn, node, ref, v)
        ref.set(v)
        return ref

    def e_binop(self, e, fr):
        op = e["op"]
        if op == "&&":
            if not self.truth(self.eval(e["lhs"], fr), e["lhs"]):
                return False
            return self.truth(self.eval(e["rhs"], fr), e["rhs"])
        if op == "||":
            if self.truth(self.eval(e["lhs"], fr), e["lhs"]):
                return True
            return self.truth(self.eval(e["rhs"], fr), e["rhs"])
        if op == "=":
            v = self.eval(e["rhs"], fr)
            r = self.eval(e["lhs"], fr)
            return self.assign(fr, e, r, v)
        if op in ("+=", "-=", "*=", "/=", "%="):
            v = self.eval(e["rhs"], fr)
            r = self.eval(e["lhs"], fr)
            return self.assign(fr, e, r, self.wrap(fr, e, self.arith(op[0], r, v)))
        if op == ",":
            self.eval(e["lhs"], fr)
            return self.eval(e["rhs"], fr)
        a = self.eval(e["lhs"], fr)
        b = self.eval(e["rhs"], fr)
        if op in CMP_OPS:
            return self.compare(op, a, b, e)
        if op in ARITH:
            return self.wrap(fr, e, self.arith(op, a, b))
        if op == "^":
            x, y = self.rv(a), self.rv(b)
            if isinstance(x, bool) and isinstance(y, bool):
                return x != y
            if isinstance(x, int) and isinstance(y, int):
                return x ^ y
        if op in ("&", "|") :
            x, y = self.rv(a), self.rv(b)
            if isinstance(x, bool) and isinstance(y, bool):
                return (x and y) if op == "&" else (x or y)
            if isinstance(x, int) and isinstance(y, int):
                return (x & y) if op == "&" else (x | y)
        if op in ("^", "&", "|", "<<", ">>"):
            x, y = self.rv(a), self.rv(b)
            if is_abstract(x) or is_abstract(y):
                return self.world.sym_binop(op, x, y)
        raise AnalysisBroken("interp: binary operator %s at %s" % (op, fr.fn.loc(e)))

    def e_construct(self, e, fr):
        args = e.get("a", [])
        if (e.get("copy") or e.get("move")) and len(args) == 1 and e.get("fid") is None:
            return copy.deepcopy(self.rv(self.eval(args[0], fr)))
        ts = fr.fn.type(e["t"])
        w = self.world.external(self, fr.fn, e, fr)
        if w is not NOT_HANDLED:
            return w
        rec = fr.fn.unit.rec_by_type.get(e["t"])
        if rec is not None:
            o = self.new_obj(fr.fn, rec)
            if e.get("fid") is not None:
                callee = fr.fn.unit.fns[e["fid"]]
                self.call_fn(callee, o, [self.eval(a, fr) for a in args], e)
            elif args:
                # aggregate-like construction is emitted as initlist, not construct
                raise AnalysisBroken("interp: constructor of %s without body" % ts)
            return o
        base = ts.replace("const ", "")
        if base.startswith("std::vector<") or base.startswith("std::array<"):
            if not args:
                return self.default_for_type(fr.fn, base)
            vals = [self.rv(self.eval(a, fr)) for a in args]
            if isinstance(vals[0], PyVec) and all(isinstance(v, Opaque) for v in vals[1:]):
                return copy.deepcopy(vals[0])   # (initializer_list[, allocator])
            if base.startswith("std::vector<") and len(vals) >= 1 and isinstance(vals[0], int):
                fill = vals[1] if len(vals) > 1 and not isinstance(vals[1], (Obj, Opaque)) else None
                inner = base[len("std::vector<"):]
                inner = inner.rsplit(", std::allocator", 1)[0] if ", std::allocator" in inner else inner[:-1]
                if fill is None:
                    fill = self.default_for_type(fr.fn, inner)
                return PyVec([copy.deepcopy(fill) for _ in range(vals[0])])
        if base.startswith("std::pair<") and len(args) == 2:
            return (self.rv(self.eval(args[0], fr)), self.rv(self.eval(args[1], fr)))
        if base.startswith("std::tuple<") and args:
            return tuple(copy.deepcopy(self.rv(self.eval(a, fr))) for a in args)
        if (base.startswith("std::shared_ptr<") or base.startswith("std::unique_ptr<")) and len(args) == 1:
            return self.rv(self.eval(args[0], fr))      # smart pointers are modelled by their pointee
        if (base.startswith("std::map<") or base.startswith("std::unordered_map<")) and args:
            first = self.rv(self.eval(args[0], fr))
            if isinstance(first, (list, PyVec)):
                d = {}
                for kv in first:
                    if not (isinstance(kv, (tuple, list)) and len(kv) == 2):
                        raise AnalysisBroken("interp: map initialiser element %r" % (kv,))
                    d.setdefault(kv[0], kv[1])
                return d
            if isinstance(first, dict):
                return copy.deepcopy(first)
        if base.startswith("std::function<") and len(args) == 1:
            v = self.rv(self.eval(args[0], fr))     # function{nullptr} / function{closure}
            if v is None or isinstance(v, (Closure, FuncRef)):
                return v
        if not args:
            return self.default_for_type(fr.fn, base)
        if base.startswith("std::basic_string<"):
            return self.rv(self.eval(args[0], fr))
        raise AnalysisBroken("interp: construction of %s at %s" % (ts, fr.fn.loc(e)))

    def e_call(self, e, fr):
        fn = fr.fn
        # 1. library callee with a body: intercept or inline
        callee = fn.callee(e)
        if callee is not None:
            w = self.world.before_call(self, fn, e, callee, fr)
            if w is not NOT_HANDLED:
                return w
            this = None
            if e.get("obj") is not None:
                this = self.eval(e["obj"], fr)
                tv = self.rv(this)
                if isinstance(tv, Closure) and callee.is_lambda:
                    if tv.fn is None:       # generic lambda: the call site names the specialisation
                        tv = Closure(callee, tv.caps, tv.this)
                    return self.call_closure(tv, [self.eval(a, fr) for a in e.get("a", [])], e)
                if not isinstance(tv, Obj):
                    w2 = self.world.external(self, fn, e, fr)
                    if w2 is not NOT_HANDLED:
                        return w2
                    if isinstance(tv, Iter) and e.get("op") is not None:
                        return self.builtin(e, fr)       # a library iterator class modelled by a position
                    if isinstance(tv, list) and not e.get("a"):
                        # a library range wrapper modelled by the sequence it yields
                        if callee.name in ("begin", "cbegin"):
                            return Iter(tv, 0, 1)
                        if callee.name in ("end", "cend"):
                            return Iter(tv, len(tv), 1)
                        if callee.name in ("rbegin", "crbegin"):
                            return Iter(tv, len(tv), -1)
                        if callee.name in ("rend", "crend"):
                            return Iter(tv, 0, -1)
                        if callee.name == "size":
                            return len(tv)
                        if callee.name == "empty":
                            return len(tv) == 0
                    raise AnalysisBroken("interp: library method %s called on unmodelled object "
                                         "%r at %s" % (callee.bn, tv, fn.loc(e)))
                this = tv
            args = [self.eval(a, fr) for a in e.get("a", [])]
            return self.call_fn(callee, this, args, e)
        # 2. world model
        w = self.world.external(self, fn, e, fr)
        if w is not NOT_HANDLED:
            return w
        # 3. built-ins
        return self.builtin(e, fr)

    # ---------------------------------------------------------------- built-in library model
    def builtin(self, e, fr):
        bn = e.get("bn", "")
        name = bn.split("::")[-1]
        args_n = e.get("a", [])
        op = e.get("op")

        memo = {}

        def A(i):
            if i not in memo:
                memo[i] = self.eval(args_n[i], fr)
            return memo[i]

        def V(i):
            return self.rv(A(i))

        def OBJ():
            if "obj" not in memo:
                memo["obj"] = self.eval(e["obj"], fr)
            return memo["obj"]

        if bn in ("std::move", "std::forward", "std::as_const", "std::addressof"):
            return A(0)
        if name == "operator=" and e.get("obj") is not None and \
                bn in ("std::pair::operator=", "std::tuple::operator=", "std::optional::operator="):
            r = OBJ()
            if isinstance(r, TieRefs):
                val = V(0)
                if isinstance(val, (tuple, list)) and len(val) == len(r.refs):
                    for rr, v in zip(r.refs, val):
                        if not isinstance(rr, Ref):
                            raise AnalysisBroken("interp: std::tie of an rvalue")
                        rr.set(copy.deepcopy(v))
                    return r
                raise AnalysisBroken("interp: std::tie assigned from %r" % (val,))
            return self.assign(fr, e, r, A(0))
        if name == "operator=" and e.get("lib") and e.get("fid") is None and e.get("obj") is not None:
            # defaulted copy / move assignment of a library record: member-wise copy
            r = OBJ()
            return self.assign(fr, e, r, A(0))
        if (bn.startswith("std::__atomic_base::") or bn.startswith("std::atomic::")) and e.get("obj") is not None:
            # a std::atomic<integer> is modelled by its value (sequential interpretation of one thread)
            r = OBJ()
            cur = self.rv(r)
            if isinstance(cur, int) and not isinstance(cur, bool) and isinstance(r, Ref):
                if name in ("load", "<conv>", "operator unsigned long", "operator int", "operator long"):
                    return cur
                if name in ("store", "operator=") and args_n:
                    r.set(V(0))
                    return None
                if name in ("fetch_add", "fetch_sub") and args_n:
                    d_ = V(0)
                    r.set(cur + d_ if name == "fetch_add" else cur - d_)
                    return cur
                if name in ("operator++", "operator--"):
                    new_ = cur + (1 if name == "operator++" else -1)
                    r.set(new_)
                    return cur if args_n else new_
        if bn == "std::copy" and len(args_n) == 3:
            b0, e0, d0 = V(0), V(1), V(2)
            if isinstance(b0, Iter) and isinstance(e0, Iter) and isinstance(d0, Iter) and b0.seq is e0.seq \
                    and b0.step == 1 and e0.step == 1 and d0.step == 1:
                n_ = e0.pos - b0.pos
                if d0.pos + n_ > len(d0.seq):
                    raise OutOfRange("interp: std::copy writes %d elements past the end of the destination at %s"
                                     % (d0.pos + n_ - len(d0.seq), fr.fn.loc(e)))
                vals = [copy.deepcopy(b0.seq[b0.pos + k]) for k in range(n_)]
                for k, v_ in enumerate(vals):
                    d0.seq[d0.pos + k] = v_
                return Iter(d0.seq, d0.pos + n_, 1)
        if bn in ("std::max", "std::min"):
            a, b = A(0), A(1)
            if len(args_n) == 3:
                cmpf = V(2)
                # std::max(a,b,comp): returns b if comp(a,b) else a ; std::min: b if comp(b,a) else a
                if name == "max":
                    r = self.truth(self.call_closure(cmpf, [a, b], e))
                    return b if r else a
                r = self.truth(self.call_closure(cmpf, [b, a], e))
                return b if r else a
            if name == "max":
                return b if self.compare("<", a, b, e) else a
            return b if self.compare("<", b, a, e) else a
        if bn in ("std::fabs", "std::abs", "fabs", "abs"):
            x = V(0)
            if isinstance(x, Interval):
                if x.lo >= 0:
                    return x
                if x.hi <= 0:
                    return Interval(-x.hi, -x.lo, x.nan)
                return Interval(0.0, max(-x.lo, x.hi), x.nan)
            if isinstance(x, (int, float)):
                return abs(x)
            return self.world.sym_unop("abs", x)
        if bn in ("std::nextafter", "nextafter"):
            x = V(0)
            if isinstance(x, float):
                return math.nextafter(x, V(1))
            return self.world.sym_binop("nextafter", x, V(1))
        if bn in ("std::pow", "pow"):
            a, b = V(0), V(1)
            if isinstance(a, (int, float)) and isinstance(b, (int, float)):
                try:
                    return math.pow(a, b)
                except (OverflowError, ValueError):
                    return float("inf")
            return self.world.sym_binop("pow", a, b)
        if bn in ("std::sqrt", "sqrt"):
            a = V(0)
            if isinstance(a, (int, float)):
                return math.sqrt(a)
            return self.world.sym_unop("sqrt", a)
        if bn == "std::accumulate" and len(args_n) in (3, 4) and isinstance(V(0), Iter) and isinstance(V(1), Iter) \
                and V(0).seq is V(1).seq and V(0).step == 1:
            acc_ = V(2)
            for i_ in range(V(0).pos, V(1).pos):
                if i_ < 0 or i_ >= len(V(0).seq):
                    raise OutOfRange("interp: std::accumulate reads past the end at %s" % fr.fn.loc(e))
                x_ = V(0).seq[i_]
                if len(args_n) == 4:
                    f_ = V(3)
                    if not isinstance(f_, Closure):
                        raise AnalysisBroken("interp: std::accumulate with the callable %r" % (f_,))
                    acc_ = self.rv(self.call_closure(f_, [acc_, x_], e))
                else:
                    acc_ = self.arith("+", acc_, x_)
            return acc_
        if bn in ("std::for_each", "std::all_of", "std::any_of", "std::none_of", "std::count_if", "std::find_if",
                  "std::copy_if", "std::transform", "std::copy_n", "std::for_each_n") and len(args_n) >= 3:
            a = V(0)
            if isinstance(a, Iter) and a.step == 1:
                if bn in ("std::copy_n", "std::for_each_n"):
                    cnt = V(1)
                    if not isinstance(cnt, int) or a.pos + cnt > len(a.seq):
                        raise OutOfRange("interp: %s reads %r elements past the end at %s" % (bn, cnt, fr.fn.loc(e)))
                    rng = list(range(a.pos, a.pos + cnt))
                    rest = 2
                else:
                    b = V(1)
                    if not (isinstance(b, Iter) and b.seq is a.seq):
                        raise AnalysisBroken("interp: %s over an unmodelled range at %s" % (bn, fr.fn.loc(e)))
                    rng = list(range(a.pos, b.pos))
                    rest = 2

                def call(f_, x):
                    if isinstance(f_, Closure):
                        return self.call_closure(f_, [x], e)
                    raise AnalysisBroken("interp: %s with the callable %r" % (bn, f_))
                if bn in ("std::for_each", "std::for_each_n"):
                    f_ = V(rest)
                    for i in rng:
                        call(f_, ElemRef(a.seq, i))
                    return f_
                if bn in ("std::all_of", "std::any_of", "std::none_of", "std::count_if", "std::find_if"):
                    f_ = V(rest)
                    hits = []
                    for i in rng:
                        if self.truth(call(f_, ElemRef(a.seq, i))):
                            hits.append(i)
                            if bn in ("std::any_of", "std::none_of", "std::find_if"):
                                break
                        elif bn == "std::all_of":
                            return False
                    if bn == "std::all_of":
                        return True
                    if bn == "std::any_of":
                        return bool(hits)
                    if bn == "std::none_of":
                        return not hits
                    if bn == "std::count_if":
                        return len(hits)
                    return Iter(a.seq, hits[0] if hits else rng[-1] + 1 if rng else a.pos, 1)
                # algorithms with an output
                out = V(rest)
                f_ = V(rest + 1) if len(args_n) > rest + 1 else None
                vals_ = []
                for i in rng:
                    x = a.seq[i]
                    if bn == "std::copy_if":
                        if self.truth(call(f_, ElemRef(a.seq, i))):
                            vals_.append(copy.deepcopy(x))
                    elif bn == "std::transform":
                        vals_.append(copy.deepcopy(self.rv(call(f_, ElemRef(a.seq, i)))))
                    else:
                        vals_.append(copy.deepcopy(x))
                if isinstance(out, BackInserter):
                    out.seq.extend(vals_)
                    return out
                if isinstance(out, Iter) and out.step == 1:
                    if out.pos + len(vals_) > len(out.seq):
                        raise OutOfRange("interp: %s writes %d elements past the end of the destination at %s"
                                         % (bn, out.pos + len(vals_) - len(out.seq), fr.fn.loc(e)))
                    for k, v_ in enumerate(vals_):
                        out.seq[out.pos + k] = v_
                    return Iter(out.seq, out.pos + len(vals_), 1)
        if bn == "std::back_inserter" and len(args_n) == 1:
            c_ = V(0)
            if isinstance(c_, list):
                return BackInserter(c_)
        if bn == "std::iota" and len(args_n) == 3:
            a, b, v0 = V(0), V(1), V(2)
            if isinstance(a, Iter) and isinstance(b, Iter) and a.seq is b.seq:
                for k, i in enumerate(range(a.pos, b.pos)):
                    a.seq[i] = v0 + k
                return None
        if bn == "std::fill" and len(args_n) == 3:
            a, b, v0 = V(0), V(1), V(2)
            if isinstance(a, WholeRange) and isinstance(b, WholeRange) and a.obj is b.obj and a.end is False and b.end:
                a.obj.fill_all(copy.deepcopy(v0))
                return None
            if isinstance(a, Iter) and isinstance(b, Iter) and a.seq is b.seq:
                for i in range(a.pos, b.pos):
                    a.seq[i] = copy.deepcopy(v0)
                return None
        if bn in ("std::sort", "std::stable_sort") and len(args_n) in (2, 3):
            a, b = V(0), V(1)
            if isinstance(a, Iter) and isinstance(b, Iter) and a.seq is b.seq:
                import functools
                items = a.seq[a.pos:b.pos]
                if len(args_n) == 3:
                    cmpf = V(2)

                    def cmp(x, y):
                        if self.truth(self.call_closure(cmpf, [x, y], e)):
                            return -1
                        if self.truth(self.call_closure(cmpf, [y, x], e)):
                            return 1
                        return 0
                    items = sorted(items, key=functools.cmp_to_key(cmp))
                else:
                    items = sorted(items)
                a.seq[a.pos:b.pos] = items
                return None
        if bn in ("std::partial_sort", "std::nth_element") and len(args_n) in (3, 4):
            a, m_, b = V(0), V(1), V(2)
            if isinstance(a, Iter) and isinstance(m_, Iter) and isinstance(b, Iter) and a.seq is b.seq and a.seq is m_.seq:
                import functools
                items = a.seq[a.pos:b.pos]
                if len(args_n) == 4:
                    cmpf = V(3)

                    def cmp(x, y):
                        if self.truth(self.call_closure(cmpf, [x, y], e)):
                            return -1
                        if self.truth(self.call_closure(cmpf, [y, x], e)):
                            return 1
                        return 0
                    items = sorted(items, key=functools.cmp_to_key(cmp))
                else:
                    items = sorted(items)
                k_ = m_.pos - a.pos
                # the order of the elements past `middle` is unspecified by the standard: the model
                # picks the least helpful one (descending), so code relying on it is exposed
                a.seq[a.pos:b.pos] = items[:k_] + items[k_:][::-1]
                return None
        if bn == "std::tie":
            return TieRefs([A(i) for i in range(len(args_n))])
        if bn == "std::tuple::operator=" and e.get("obj") is not None:
            tgt = self.rv(OBJ()) if not isinstance(OBJ(), TieRefs) else OBJ()
            val = V(0)
            if isinstance(tgt, TieRefs) and isinstance(val, (tuple, list)) and len(val) == len(tgt.refs):
                for r, v in zip(tgt.refs, val):
                    if not isinstance(r, Ref):
                        raise AnalysisBroken("interp: std::tie of an rvalue")
                    r.set(copy.deepcopy(v))
                return tgt
        if bn == "std::swap" and len(args_n) == 2:
            ra, rb = A(0), A(1)
            if isinstance(ra, Ref) and isinstance(rb, Ref):
                va, vb = copy.deepcopy(ra.get()), copy.deepcopy(rb.get())
                ra.set(vb)
                rb.set(va)
                return None
        if bn == "std::reverse" and len(args_n) == 2:
            a, b = V(0), V(1)
            if isinstance(a, Iter) and isinstance(b, Iter) and a.seq is b.seq and a.step == 1:
                a.seq[a.pos:b.pos] = a.seq[a.pos:b.pos][::-1]
                return None
        if bn == "__assert_fail":
            raise ThrowEx(e, "assertion failed: " + pp(args_n[0]), fr.fn.loc(e))
        if bn == "std::make_pair":
            return (copy.deepcopy(V(0)), copy.deepcopy(V(1)))
        if bn == "std::get":
            v = V(0)
            ta = e.get("targs") or []
            if isinstance(v, (tuple, list)) and ta and isinstance(ta[0], int) and ta[0] < len(v):
                return v[ta[0]]
            # pair-like objects (structured bindings on a map entry): first / second by position
            if isinstance(v, Obj) and ta and ta[0] in (0, 1) and "first" in v.fields and "second" in v.fields:
                return FieldRef(v, ("first", "second")[ta[0]])
            raise AnalysisBroken("interp: std::get on %r" % (v,))
        if bn == "std::function::operator()":
            f = self.rv(OBJ())
            return self.call_closure(f, [A(i) for i in range(len(args_n))], e)
        if bn in ("std::function::operator bool", "std::function::<conv>"):
            f = self.rv(OBJ())
            return f is not None
        if bn == "std::function::operator=":
            r = OBJ()
            return self.assign(fr, e, r, A(0))
        # iterators ------------------------------------------------------------------------
        ops_all = ([OBJ()] if e.get("obj") is not None else []) + \
            ([A(i) for i in range(len(args_n))] if op is not None else [])
        if op is not None and ops_all and isinstance(self.rv(ops_all[0]), Iter):
            itv = self.rv(ops_all[0])
            if op == "*":
                return itv.deref()
            if op in ("++", "--"):
                ref = ops_all[0]
                d = 1 if op == "++" else -1
                new_it = Iter(itv.seq, itv.pos + d * itv.step, itv.step)
                if isinstance(ref, Ref):
                    ref.set(new_it)
                return itv if len(args_n) > (0 if e.get("obj") is not None else 1) else (ref if isinstance(ref, Ref) else new_it)
            if op in ("==", "!=") and len(ops_all) == 2:
                other = self.rv(ops_all[1])
                r = isinstance(other, Iter) and other.seq is itv.seq and other.pos == itv.pos
                return r if op == "==" else not r
        # containers -----------------------------------------------------------------------
        cls = e.get("cls", "")
        if cls in ("std::vector", "std::array", "std::initializer_list", "std::deque"):
            obj = OBJ()
            c = self.rv(obj)
            if not isinstance(c, list):
                raise AnalysisBroken("interp: %s on unmodelled container %r at %s" % (bn, c, fr.fn.loc(e)))
            if name in ("operator[]", "at"):
                i = V(0)
                if not isinstance(i, int):
                    raise AnalysisBroken("interp: abstract index %r" % (i,))
                if i < 0 or i >= len(c):
                    raise OutOfRange("interp: index %d out of range (size %d) at %s" % (i, len(c), fr.fn.loc(e)))
                return ElemRef(c, i)
            if name in ("push_back", "emplace_back"):
                if len(args_n) == 1:
                    c.append(copy.deepcopy(V(0)))
                else:
                    # emplace_back(a, b, ...): in-place construction of the element type
                    ts_c = fr.fn.type(strip(e["obj"]).get("t")).replace("const ", "")
                    vals_ = [copy.deepcopy(V(i)) for i in range(len(args_n))]
                    if "std::tuple<" in ts_c or "std::pair<" in ts_c:
                        c.append(tuple(vals_))
                    else:
                        raise AnalysisBroken("interp: emplace_back with %d args into %s" % (len(args_n), ts_c[:60]))
                return None
            if name == "size":
                return len(c)
            if name == "capacity":
                return len(c) + 1024
            if name == "empty":
                return len(c) == 0
            if name == "clear":
                del c[:]
                return None
            if name == "reserve":
                return None
            if name == "back":
                return ElemRef(c, len(c) - 1)
            if name == "front":
                return ElemRef(c, 0)
            if name == "pop_back":
                c.pop()
                return None
            if name == "assign" and len(args_n) == 2:
                n_, v_ = V(0), V(1)
                if isinstance(n_, int) and not isinstance(n_, bool):
                    c[:] = [copy.deepcopy(v_) for _ in range(n_)]
                    return None
            if name == "fill":
                v = V(0)
                for i in range(len(c)):
                    c[i] = copy.deepcopy(v)
                return None
            if name == "operator=":
                v = V(0)
                c[:] = copy.deepcopy(list(v))
                return obj
            if name in ("begin", "cbegin"):
                return Iter(c, 0, 1)
            if name in ("end", "cend"):
                return Iter(c, len(c), 1)
            if name in ("rbegin", "crbegin"):
                return Iter(c, len(c), -1)
            if name in ("rend", "crend"):
                return Iter(c, 0, -1)
            if name == "resize":
                n = V(0)
                if isinstance(n, list) and len(n) == 1:
                    n = n[0]            # resize({ n })
                fill = V(1) if len(args_n) > 1 else None
                if fill is None and len(c) < n:
                    ts = fr.fn.type(strip(e["obj"]).get("t")).replace("const ", "")
                    if ts.startswith("std::vector<") and ts.endswith(">"):
                        inner = ts[len("std::vector<"):-1].strip()
                        k = inner.rfind(", std::allocator<")
                        if k > 0:
                            inner = inner[:k]
                        fill = self.default_for_type(fr.fn, inner)
                while len(c) > n:
                    c.pop()
                while len(c) < n:
                    c.append(copy.deepcopy(fill))
                return None
        if cls in ("std::queue", "std::priority_queue", "std::stack"):
            obj = OBJ()
            c = self.rv(obj)
            if isinstance(c, Opaque):
                c = PyVec()
                if isinstance(obj, Ref):
                    obj.set(c)
            if not isinstance(c, list):
                raise AnalysisBroken("interp: %s on unmodelled container %r" % (bn, c))
            if name in ("push", "emplace"):
                if len(args_n) != 1:
                    raise AnalysisBroken("interp: %s with %d args" % (bn, len(args_n)))
                c.append(copy.deepcopy(V(0)))
                return None
            if name == "empty":
                return len(c) == 0
            if name == "size":
                return len(c)
            if not c:
                raise AnalysisBroken("interp: %s on an empty container at %s" % (bn, fr.fn.loc(e)))
            if cls == "std::queue":
                if name == "front":
                    return ElemRef(c, 0)
                if name == "back":
                    return ElemRef(c, len(c) - 1)
                if name == "pop":
                    c.pop(0)
                    return None
            if cls == "std::stack":
                if name == "top":
                    return ElemRef(c, len(c) - 1)
                if name == "pop":
                    c.pop()
                    return None
            if cls == "std::priority_queue":
                qt = fr.fn.type(strip(e["obj"]).get("t"))
                opname = "operator>" if "std::greater<" in qt else "operator<" if "std::less<" in qt else None
                if opname is None:
                    raise AnalysisBroken("interp: priority_queue with a custom comparator")
                best = 0
                for i in range(1, len(c)):
                    if self.obj_compare(fr, opname, c[best], c[i]):   # comp(best, other): other ranks higher
                        best = i
                if name == "top":
                    return ElemRef(c, best)
                if name == "pop":
                    c.pop(best)
                    return None
        if cls in ("std::map", "std::unordered_map"):
            obj = OBJ()
            c = self.rv(obj)
            if isinstance(c, dict):
                if name == "operator[]":
                    key = V(0)
                    if key not in c:
                        c[key] = 0
                    return ElemRef(c, key)
                if name == "at":
                    key = V(0)
                    if key not in c:
                        raise ThrowEx(e, "std::out_of_range", fr.fn.loc(e))
                    return ElemRef(c, key)
                if name == "count":
                    return 1 if V(0) in c else 0
                if name == "operator=":
                    v = V(0)
                    if isinstance(v, dict):
                        new = copy.deepcopy(v)
                        c.clear()
                        c.update(new)
                        return obj
                if name in ("size", "empty"):
                    return len(c) if name == "size" else len(c) == 0
                if name == "insert":
                    kv = V(0)
                    if isinstance(kv, (tuple, list)) and len(kv) == 2:
                        if kv[0] not in c:
                            c[kv[0]] = kv[1]
                        return None
        if e.get("obj") is not None and name in ("rbegin", "rend", "crbegin", "crend") and (cls or "").startswith("xt::") \
                and isinstance(self.rv(OBJ()), PyVec):
            o_ = self.rv(OBJ())
            return Iter(o_, len(o_) if name in ("rbegin", "crbegin") else 0, -1)
        if e.get("obj") is not None and name in ("begin", "end", "cbegin", "cend") and \
                ((cls or "").startswith("xt::") or (cls or "") in ("std::unordered_set", "std::set")):
            o_ = self.rv(OBJ())
            if isinstance(o_, PyVec):
                return Iter(o_, 0 if name in ("begin", "cbegin") else len(o_), 1)
            if hasattr(o_, "fill_all"):
                return WholeRange(o_, name in ("end", "cend"))
        # ---- a few xtensor expression builders on modelled 1-d sequences ---------------------
        if bn == "xt::arange" and 1 <= len(args_n) <= 3:
            vals_ = [V(i) for i in range(len(args_n))]
            if all(isinstance(x, int) and not isinstance(x, bool) for x in vals_):
                return PyVec(range(*vals_))
        if bn in ("xt::col", "xt::row") and len(args_n) == 2:
            c_ = V(1)
            if isinstance(c_, int) and not isinstance(c_, bool) and not isinstance(V(0), (list, int, float)):
                return LazyCol(args_n[0], fr, c_, bn == "xt::col")
        if bn in ("xt::equal", "xt::not_equal") and len(args_n) == 2:
            a_, b_ = V(0), V(1)
            if isinstance(a_, (list, LazyCol)) and isinstance(b_, (list, LazyCol)) and \
                    (isinstance(a_, list) or isinstance(b_, list)):
                n_ = len(a_) if isinstance(a_, list) else len(b_)
                if isinstance(a_, list) and isinstance(b_, list) and len(a_) != len(b_):
                    raise AnalysisBroken("interp: %s of sequences of sizes %d and %d" % (bn, len(a_), len(b_)))
                get_ = lambda x, i: x[i] if isinstance(x, list) else x.elem(self, i)
                return PyVec([self.compare("==" if bn == "xt::equal" else "!=", get_(a_, i), get_(b_, i), e)
                              for i in range(n_)])
        if bn == "xt::flatnonzero" and len(args_n) == 1 and isinstance(V(0), list):
            return PyVec([i for i, x in enumerate(V(0)) if self.truth(x, e)])
        if bn in ("std::next", "std::prev") and args_n and isinstance(V(0), Iter):
            n_ = V(1) if len(args_n) > 1 else 1
            if isinstance(n_, int) and not isinstance(n_, bool):
                return self.arith("+" if bn == "std::next" else "-", V(0), n_)
        if bn == "std::advance" and len(args_n) == 2 and isinstance(V(0), Iter) and isinstance(A(0), Ref):
            n_ = V(1)
            if isinstance(n_, int) and not isinstance(n_, bool):
                A(0).set(self.arith("+", V(0), n_))
                return None
        if bn == "std::distance" and len(args_n) == 2 and isinstance(V(0), Iter) and isinstance(V(1), Iter):
            return self.arith("-", V(1), V(0))
        if bn in ("xt::noalias", "xt::adapt") and args_n and isinstance(V(0), list):
            return A(0)
        if bn == "xt::view" and len(args_n) == 2 and isinstance(V(0), list):
            sel = strip(args_n[1])
            while isinstance(sel, dict) and sel.get("k") == "construct" and len(sel.get("a", [])) == 1:
                sel = strip(sel["a"][0])
            if isinstance(sel, dict) and sel.get("k") == "call" and sel.get("bn") == "xt::all":
                return A(0)
            if isinstance(sel, dict) and sel.get("k") == "call" and sel.get("bn") == "xt::range" and \
                    len(sel.get("a", [])) == 2:
                lo = self.rv(self.eval(sel["a"][0], fr))
                hi = self.rv(self.eval(sel["a"][1], fr))
                if all(isinstance(x, int) and not isinstance(x, bool) for x in (lo, hi)):
                    return SeqView(V(0), lo, hi)
        if e.get("obj") is not None and (cls or "").startswith("xt::") and len(args_n) == 1 and \
                (name == "operator=" or op == "=") and isinstance(self.rv(OBJ()), list):
            o_, v_ = self.rv(OBJ()), V(0)
            if isinstance(v_, list):
                vals = [copy.deepcopy(x) for x in v_]
                if isinstance(o_, SeqView):
                    if len(vals) != len(o_):
                        raise AnalysisBroken("interp: assignment of %d values to a view of size %d at %s"
                                             % (len(vals), len(o_), fr.fn.loc(e)))
                    for i_, x in enumerate(vals):
                        o_[i_] = x
                else:
                    o_[:] = vals            # xtensor assignment resizes the destination
                return OBJ()
            if isinstance(o_, SeqView) and isinstance(v_, (int, float)):
                for i_ in range(len(o_)):
                    o_[i_] = v_             # broadcast of a scalar over the view
                return OBJ()
        if e.get("obj") is not None and (cls or "").startswith("xt::") and isinstance(self.rv(OBJ()), PyVec) \
                and name in ("resize", "fill") and len(args_n) == 1:
            o_ = self.rv(OBJ())
            if name == "fill":
                v_ = V(0)
                for i_ in range(len(o_)):
                    o_[i_] = copy.deepcopy(v_)
                return None
            n_ = V(0)
            n_ = n_[0] if isinstance(n_, list) and len(n_) == 1 else n_
            if isinstance(n_, int) and not isinstance(n_, bool) and not isinstance(o_, SeqView):
                del o_[n_:]
                while len(o_) < n_:
                    o_.append(None)
                return None
        if e.get("obj") is not None and name in ("operator()", "operator[]", "flat", "at") and \
                (cls or "").startswith("xt::") and len(args_n) == 1:
            o_ = self.rv(OBJ())
            if isinstance(o_, PyVec):
                i = V(0)
                if not isinstance(i, int) or isinstance(i, bool):
                    raise AnalysisBroken("interp: abstract index %r" % (i,))
                if i < 0 or i >= len(o_):
                    raise OutOfRange("interp: index %d out of range (size %d) at %s" % (i, len(o_), fr.fn.loc(e)))
                return ElemRef(o_, i)
        if e.get("obj") is not None and name in ("size", "empty", "count") and \
                ((cls or "").startswith("xt::") or (cls or "") in ("std::unordered_set", "std::set")):
            o_ = self.rv(OBJ())
            if isinstance(o_, PyVec):
                if name == "count":
                    return 1 if V(0) in o_ else 0
                return len(o_) if name == "size" else len(o_) == 0
        if cls in ("std::shared_ptr", "std::__shared_ptr", "std::unique_ptr", "std::__shared_ptr_access"):
            obj = OBJ()
            if name in ("operator->", "operator*", "get"):
                return obj
            if name in ("operator bool", "<conv>"):
                return self.rv(obj) is not None
        if op in ("+", "-", "+=", "-=") and (e.get("obj") is not None or len(args_n) == 2):
            ops_ = ([OBJ()] if e.get("obj") is not None else []) + [A(i) for i in range(len(args_n))]
            if len(ops_) == 2 and isinstance(self.rv(ops_[0]), Iter):
                r_ = self.arith(op[0], ops_[0], ops_[1])
                if op in ("+=", "-=") and isinstance(ops_[0], Ref):
                    ops_[0].set(r_)
                    return ops_[0]
                return r_
        if op in CMP_OPS:
            ops = ([OBJ()] if e.get("obj") is not None else []) + [A(i) for i in range(len(args_n))]
            if len(ops) == 2:
                return self.compare(op, ops[0], ops[1], e)
        raise AnalysisBroken("interp: library call %s is not modelled (at %s: %s)"
                             % (bn, fr.fn.loc(e), pp(e)[:120]))

    def obj_compare(self, fr, opname, a, b):
        """a <op> b for library records through their own comparison operator"""
        if isinstance(a, Obj):
            cands = [f for f in fr.fn.unit.fns.values() if f.cls == a.cls and f.name == opname
                     and len(f.params) == 1]
            if not cands:
                raise AnalysisBroken("interp: %s of %s not found" % (opname, a.cls))
            return self.truth(self.call_fn(cands[0], a, [b]))
        return self.compare(opname[len("operator"):], a, b)

    # ---------------------------------------------------------------- statements
    def exec(self, s, fr):
        if s is None:
            return
        self.tick(s)
        if self.world.skip_stmt(self, fr.fn, s):
            return
        k = s["k"]
        if k == "compound":
            for c in s["b"]:
                self.exec(c, fr)
            return
        if k == "expr":
            self.eval(s["e"], fr)
            return
        if k == "decl":
            for v in s["vars"]:
                self.declare(v, fr)
            return
        if k == "if":
            if s.get("init") is not None:
                self.exec(s["init"], fr)
            if s.get("cvar") is not None:
                self.declare(s["cvar"], fr)
            if self.truth(self.eval(s["c"], fr), s["c"]):
                self.exec(s.get("then"), fr)
            elif s.get("else") is not None:
                self.exec(s["else"], fr)
            return
        if k == "for":
            self.exec(s.get("init"), fr)
            n_iter = 0
            while s.get("c") is None or self.truth(self.eval(s["c"], fr), s["c"]):
                if s.get("c") is None:      # for (;;): an open-ended iteration like while (true)
                    n_iter += 1
                    bound = getattr(self.world, "loop_bound", None)
                    if bound is not None and n_iter > bound:
                        raise LoopBound(fr.fn.loc(s))
                try:
                    self.exec(s.get("body"), fr)
                except BreakEx:
                    break
                except ContinueEx:
                    pass
                if s.get("inc") is not None:
                    self.eval(s["inc"], fr)
            return
        if k == "while":
            n_iter = 0
            while self.truth(self.eval(s["c"], fr), s["c"]):
                n_iter += 1
                bound = getattr(self.world, "loop_bound", None)
                if bound is not None and n_iter > bound:
                    raise LoopBound(fr.fn.loc(s))
                try:
                    self.exec(s.get("body"), fr)
                except BreakEx:
                    break
                except ContinueEx:
                    pass
            return
        if k == "do":
            n_iter = 0
            while True:
                n_iter += 1
                bound = getattr(self.world, "loop_bound", None)
                if bound is not None and n_iter > bound:
                    raise LoopBound(fr.fn.loc(s))
                try:
                    self.exec(s.get("body"), fr)
                except BreakEx:
                    break
                except ContinueEx:
                    pass
                if not self.truth(self.eval(s["c"], fr), s["c"]):
                    break
            return
        if k == "rangefor":
            rng = self.eval(s["range"], fr)
            it = self.world.range_iter(self, fr.fn, s, rng, fr)
            if it is NOT_HANDLED:
                rv = self.rv(rng)
                if isinstance(rv, list):
                    it = [ElemRef(rv, i) for i in range(len(rv))]
                elif isinstance(rv, dict):
                    it = [(k2, rv[k2]) for k2 in sorted(rv)]
                else:
                    raise AnalysisBroken("interp: range-for over %r at %s" % (rv, fr.fn.loc(s)))
            var = s["var"]
            for item in it:
                if var.get("isref") and isinstance(item, Ref):
                    fr.vars[var["d"]] = item
                else:
                    fr.vars[var["d"]] = Cell(copy.deepcopy(self.rv(item)), var["n"])
                for b in var.get("bindings", []) or []:
                    fr.vars.pop(b["d"], None)
                    if b.get("hv") is not None:
                        self.declare(b["hv"], fr)
                try:
                    self.exec(s.get("body"), fr)
                except BreakEx:
                    break
                except ContinueEx:
                    pass
            return
        if k == "return":
            v = self.eval(s["e"], fr) if s.get("e") is not None else None
            rt = fr.fn.type(fr.fn.d.get("rt"))
            if not rt.endswith("&") and not rt.endswith("*"):
                v = copy.deepcopy(self.rv(v))
            raise ReturnEx(v)
        if k == "break":
            raise BreakEx()
        if k == "continue":
            raise ContinueEx()
        if k == "null":
            return
        if k == "switch":
            v = self.rv(self.eval(s["c"], fr))
            body = s.get("body")
            items = body["b"] if body and body.get("k") == "compound" else [body]
            active = False
            try:
                # first pass: matching case; second: default
                for want_default in (False, True):
                    for it in items:
                        if not active:
                            lab = it
                            matched = False
                            while lab is not None and lab.get("k") in ("case", "default"):
                                if lab["k"] == "case" and not want_default and \
                                        self.rv(self.eval(lab["v"], fr)) == v:
                                    matched = True
                                if lab["k"] == "default" and want_default:
                                    matched = True
                                lab = lab.get("body")
                            if matched:
                                active = True
                                self.exec(lab, fr)
                        else:
                            inner = it
                            while inner is not None and inner.get("k") in ("case", "default"):
                                inner = inner.get("body")
                            self.exec(inner, fr)
                    if active:
                        break
            except BreakEx:
                pass
            return
        raise AnalysisBroken("interp: statement kind %r at %s" % (k, fr.fn.loc(s)))

    def declare(self, v, fr):
        if v.get("init") is not None:
            val = self.eval(v["init"], fr)
            if v.get("isref"):
                fr.vars[v["d"]] = val if isinstance(val, Ref) else Cell(val, v["n"])
            else:
                fr.vars[v["d"]] = Cell(copy.deepcopy(self.rv(val)), v["n"])
        else:
            fr.vars[v["d"]] = Cell(self.default_for_type(fr.fn, v["t"]), v["n"])
        for b in v.get("bindings", []) or []:
            fr.vars.pop(b["d"], None)
            if b.get("hv") is not None:
                self.declare(b["hv"], fr)


def explore(run, max_paths=20000):
    """enumerate all decision sequences of `run(decisions) -> (interp, result)`.
    Yields (decisions_made, result)."""
    stack = [[]]
    n = 0
    while stack:
        dec = stack.pop()
        it, res = run(dec)
        made = it.made
        n += 1
        if n > max_paths:
            raise AnalysisBroken("interp: more than %d paths" % max_paths)
        yield list(made), res
        # schedule siblings: flip each decision taken by default beyond the forced prefix
        for i in range(len(dec), len(made)):
            if made[i] is True:
                stack.append(made[:i] + [False])
