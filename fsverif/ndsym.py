"""Symbolic n-dimensional arrays for the A5 interpretation of xtensor code (used by C14).

`NDArr` owns its elements (any interp value: floats, ratfun.Dual, ...); `NDView` re-indexes an
NDArr (slices with fixed indices, transposition) and shares its storage, so writes through a
view reach the owner as in xtensor.  Element-wise arithmetic materialises a new NDArr.
Uninitialised elements (xt::empty, resize) hold the marker UNINIT: any arithmetic on it aborts
the analysis with a message naming the array, so a result that depends on uninitialised storage
is never accepted silently.
"""
import itertools

from .sir import AnalysisBroken


class IndexOutside(AnalysisBroken):
    """the interpreted code indexes a modelled array outside its shape: a defect of the code under
    analysis (out-of-bounds access), reported as a violation by rules running on concrete shapes"""


class ShapeMismatch(AnalysisBroken):
    """the interpreted code combines arrays of different shapes (xtensor would broadcast or throw):
    rules that know the expected shapes report it as a violation of the code, not of the analysis"""


class Uninit:
    def __init__(self, name):
        self.name = name

    def __repr__(self):
        return "<uninitialised element of %s>" % self.name

    def __deepcopy__(self, memo):
        return self


class NDArr:
    def __init__(self, shape, fill=None, name="array"):
        self.shape = tuple(shape)
        self.name = name
        self.data = {}
        self.fill = fill if fill is not None else Uninit(name)

    def __deepcopy__(self, memo):
        return self.copy()

    def copy(self):
        a = NDArr(self.shape, self.fill, self.name)
        a.data = dict(self.data)
        return a

    def check(self, idx):
        if len(idx) != len(self.shape) or any((not isinstance(i, int)) or i < 0 or i >= n
                                              for i, n in zip(idx, self.shape)):
            raise IndexOutside("ndsym: index %r outside %s of shape %r" % (idx, self.name, self.shape))

    def get(self, idx):
        idx = tuple(idx)
        self.check(idx)
        return self.data.get(idx, self.fill)

    def set(self, idx, v):
        idx = tuple(idx)
        self.check(idx)
        self.data[idx] = v

    def indices(self):
        return itertools.product(*[range(n) for n in self.shape])

    def base(self):
        return self

    def map_index(self, idx):
        return tuple(idx)


class NDView:
    def __init__(self, parent, shape, fmap, name=None):
        self.parent = parent
        self.shape = tuple(shape)
        self.fmap = fmap
        self.name = name or ("view of " + parent.name)

    def __deepcopy__(self, memo):
        return self

    def get(self, idx):
        self._chk(idx)
        return self.parent.get(self.fmap(tuple(idx)))

    def set(self, idx, v):
        self._chk(idx)
        self.parent.set(self.fmap(tuple(idx)), v)

    def _chk(self, idx):
        idx = tuple(idx)
        if len(idx) != len(self.shape) or any((not isinstance(i, int)) or i < 0 or i >= n
                                              for i, n in zip(idx, self.shape)):
            raise IndexOutside("ndsym: index %r outside %s of shape %r" % (idx, self.name, self.shape))

    def indices(self):
        return itertools.product(*[range(n) for n in self.shape])

    def copy(self):
        a = NDArr(self.shape, None, "copy of " + self.name)
        for i in self.indices():
            a.data[i] = self.get(i)
        return a


def is_arr(x):
    return isinstance(x, (NDArr, NDView))


def materialise(x):
    return x.copy() if is_arr(x) else x


def view(arr, sels):
    """xt::view(arr, sel...): sel is an int (fixed index), 'all' or ('range', lo, hi)"""
    if len(sels) != len(arr.shape):
        raise AnalysisBroken("ndsym: view with %d selectors on %d-d array" % (len(sels), len(arr.shape)))
    sels = [("range", 0, arr.shape[k]) if s == "all" else s for k, s in enumerate(sels)]
    free = [k for k, s in enumerate(sels) if isinstance(s, tuple)]
    for k, s in enumerate(sels):
        if isinstance(s, tuple):
            if not (isinstance(s[1], int) and isinstance(s[2], int) and 0 <= s[1] <= s[2] <= arr.shape[k]):
                raise AnalysisBroken("ndsym: range %r outside axis %d (length %d) of %s" % (s[1:], k, arr.shape[k], arr.name))
        elif not isinstance(s, int) or s < 0 or s >= arr.shape[k]:
            raise AnalysisBroken("ndsym: view selector %r outside axis %d of %s" % (s, k, arr.name))
    shape = [sels[k][2] - sels[k][1] for k in free]

    def fmap(idx, sels=tuple(sels), free=tuple(free)):
        out = list(sels)
        for k, i in zip(free, idx):
            out[k] = sels[k][1] + i
        return tuple(out)
    return NDView(arr, shape, fmap)


def transpose(arr, perm=None):
    nd = len(arr.shape)
    perm = list(perm) if perm is not None else list(range(nd))[::-1]
    if sorted(perm) != list(range(nd)):
        raise AnalysisBroken("ndsym: bad permutation %r" % (perm,))
    shape = [arr.shape[p] for p in perm]

    def fmap(idx, perm=tuple(perm)):
        out = [None] * len(perm)
        for k, p in enumerate(perm):
            out[p] = idx[k]
        return tuple(out)
    return NDView(arr, shape, fmap)


def elementwise(op, a, b, scalar_op):
    """a op b element-wise with numpy / xtensor broadcasting (trailing axes aligned, length-1 axes
    stretched); scalar_op(op, x, y) combines two element values"""
    if is_arr(a) and is_arr(b):
        sa, sb = tuple(a.shape), tuple(b.shape)
        nd = max(len(sa), len(sb))
        pa, pb = (1,) * (nd - len(sa)) + sa, (1,) * (nd - len(sb)) + sb
        shape = []
        for x, y in zip(pa, pb):
            if x != y and x != 1 and y != 1:
                raise ShapeMismatch("ndsym: shapes %r and %r do not match" % (sa, sb))
            shape.append(max(x, y))
        out = NDArr(shape, None, "expr")
        for i in out.indices():
            ia = tuple(0 if pa[k] == 1 else i[k] for k in range(nd))[nd - len(sa):]
            ib = tuple(0 if pb[k] == 1 else i[k] for k in range(nd))[nd - len(sb):]
            out.data[i] = scalar_op(op, a.get(ia), b.get(ib))
        return out
    if is_arr(a):
        out = NDArr(a.shape, None, "expr")
        for i in a.indices():
            out.data[i] = scalar_op(op, a.get(i), b)
        return out
    if is_arr(b):
        out = NDArr(b.shape, None, "expr")
        for i in b.indices():
            out.data[i] = scalar_op(op, a, b.get(i))
        return out
    return scalar_op(op, a, b)


def sum_axis(arr, axis, scalar_op):
    """xt::sum(arr, axis)"""
    nd = len(arr.shape)
    if not isinstance(axis, int) or axis < 0 or axis >= nd:
        raise AnalysisBroken("ndsym: sum over axis %r of a %d-d array" % (axis, nd))
    shape = [n for k, n in enumerate(arr.shape) if k != axis]
    out = NDArr(shape, None, "sum")
    for i in out.indices():
        acc = None
        for j in range(arr.shape[axis]):
            v = arr.get(i[:axis] + (j,) + i[axis:])
            acc = v if acc is None else scalar_op("+", acc, v)
        out.data[i] = acc if acc is not None else 0
    return out


def flatten(arr):
    """row-major flattening (a copy: only read by the modelled code)"""
    vals = [arr.get(i) for i in arr.indices()]
    out = NDArr((len(vals),), None, "flat")
    for k, v in enumerate(vals):
        out.data[(k,)] = v
    return out


def assign(dst, src):
    """dst = src for containers / views (element-wise through views, re-shaping containers)"""
    if isinstance(dst, NDView):
        if is_arr(src):
            if tuple(src.shape) != tuple(dst.shape):
                raise ShapeMismatch("ndsym: assignment of shape %r to a view of shape %r" % (src.shape, dst.shape))
            vals = {i: src.get(i) for i in src.indices()}
            for i, v in vals.items():
                dst.set(i, v)
        else:
            for i in dst.indices():
                dst.set(i, src)
        return dst
    if isinstance(dst, NDArr):
        if is_arr(src):
            c = src.copy()
            dst.shape, dst.data, dst.fill = c.shape, c.data, c.fill
        else:
            dst.data = {}
            dst.fill = src
        return dst
    raise AnalysisBroken("ndsym: assignment to %r" % (dst,))
