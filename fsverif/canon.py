"""Loop canonicalisation of the SIR (applied once when a unit is loaded).

The analyses recognise a handful of loop shapes (`for (auto i : grid.nodes_indices())`,
`for (i = 0; i < size(); ++i)`, `for (i = start; i < end; ++i)` inside a block callable).  The same
loops can be written with explicit iterators or as `while` loops with a cursor; rather than teaching
every analysis every spelling, the spellings below are rewritten to the canonical node, each under
side conditions that make the rewrite semantics-preserving (the cursor / iterator variable is not
used for anything else).  Everything that does not match is left exactly as written.

  T0  range-for over a const local alias of a const call     -> range-for over the call
  T1  for (auto it = X.begin(); it != X.end() | E; ++it) { [const] auto v = *it; REST }
                                                             -> for (v : X) REST
  T2  auto it = X.begin(); ... while (it != E) { v = *it; ++it; REST }   (or ++it last, no continue)
                                                             -> for (v : X) REST
  T3  T c = start; ... while (c < end) { const T i = c++; REST }
                                                             -> for (T i = start; i < end; ++i) REST
  T4  [T j = e; | j = e;] while (j < n) { BODY; ++j; }   (no continue, j not written in BODY)
                                                             -> for ([T j = e | j = e]; j < n; ++j) BODY

`FSVERIF_NO_CANON=1` disables the pass.
"""
import os

from .sir import walk, strip, pp, children


def _peel(e):
    """casts and single-argument (copy / move / converting) constructions"""
    while isinstance(e, dict):
        if e.get("k") == "cast":
            e = e["e"]
        elif e.get("k") == "construct" and len(e.get("a", [])) == 1:
            e = e["a"][0]
        else:
            break
    return e


def _is_ref(e, d):
    e = _peel(e)
    return isinstance(e, dict) and e.get("k") == "ref" and e.get("d") == d


def _refs(node, d):
    n = 0
    for x in walk(node):
        if x.get("k") == "ref" and x.get("d") == d:
            n += 1
    return n


def _refs_list(nodes, d):
    return sum(_refs(x, d) for x in nodes if x is not None)


def _method_call(e, names):
    """(object expression) if e is a call obj.<name>() with name in names, else None"""
    e = _peel(e)
    if isinstance(e, dict) and e.get("k") == "call" and e.get("obj") is not None and not e.get("a") \
            and e.get("bn", "").split("::")[-1] in names:
        return e["obj"]
    return None


def _operands(e):
    """operands of a binary operator written as a built-in or as an operator call"""
    e = _peel(e)
    if not isinstance(e, dict):
        return None, None
    if e.get("k") == "binop":
        return e.get("op"), [e["lhs"], e["rhs"]]
    if e.get("k") == "call" and e.get("op") is not None:
        ops = ([e["obj"]] if e.get("obj") is not None else []) + list(e.get("a", []))
        return e["op"], ops
    return None, None


def _incr_of(e, d):
    """True if e is ++x / x++ on the variable d (built-in or operator call)"""
    e = _peel(e)
    if not isinstance(e, dict):
        return False
    if e.get("k") == "unop" and e.get("op") == "++":
        return _is_ref(e.get("e"), d)
    if e.get("k") == "call" and e.get("op") == "++":
        ops = ([e["obj"]] if e.get("obj") is not None else []) + list(e.get("a", []))
        return bool(ops) and _is_ref(ops[0], d)
    return False


def _deref_of(e, d):
    e = _peel(e)
    if not isinstance(e, dict):
        return False
    if e.get("k") == "unop" and e.get("op") == "*":
        return _is_ref(e.get("e"), d)
    if e.get("k") == "call" and e.get("op") == "*":
        ops = ([e["obj"]] if e.get("obj") is not None else []) + list(e.get("a", []))
        return len(ops) == 1 and _is_ref(ops[0], d)
    return False


def _stmts(body):
    if body is None:
        return []
    if body.get("k") == "compound":
        return body["b"]
    return [body]


def _own_continue(stmts):
    """a `continue` that binds to the loop whose body is `stmts`"""
    def rec(s):
        if not isinstance(s, dict):
            return False
        k = s.get("k")
        if k == "continue":
            return True
        if k in ("for", "while", "do", "rangefor", "lambda"):
            return False
        return any(rec(c) for c in children(s))
    return any(rec(s) for s in stmts)


def _writes(nodes, d):
    for n in nodes:
        for x in walk(n):
            if x.get("k") == "binop" and x.get("op", "").endswith("=") and x.get("op") not in ("==", "!=", "<=", ">="):
                if _is_ref(x.get("lhs"), d):
                    return True
            if x.get("k") == "unop" and x.get("op") in ("++", "--") and _is_ref(x.get("e"), d):
                return True
            if x.get("k") == "unop" and x.get("op") == "&" and _is_ref(x.get("e"), d):
                return True
    return False


class _Canon:
    def __init__(self, fn):
        self.fn = fn
        self.decls = {}
        for n in walk(fn.body):
            if n.get("k") == "decl":
                for v in n["vars"]:
                    self.decls[v.get("d")] = v
        self.done = []

    def const_init(self, d):
        """initialiser of a local that is declared const (or is never written) -- used only for
        end-iterators and range aliases"""
        v = self.decls.get(d)
        if v is None or v.get("init") is None:
            return None
        if v.get("const") or not _writes([self.fn.body], d):
            return v["init"]
        return None

    def range_of(self, x):
        """T0: a const local alias of a const (cm) call without arguments stands for the call"""
        p = _peel(x)
        if isinstance(p, dict) and p.get("k") == "ref" and p.get("rk") == "local":
            ini = self.const_init(p.get("d"))
            q = _peel(ini) if ini is not None else None
            if isinstance(q, dict) and q.get("k") == "call" and q.get("cm") and not q.get("a"):
                return q
        return x

    def same_container(self, x, y):
        return pp(_peel(x)) == pp(_peel(y))

    def is_end_of(self, e, x):
        y = _method_call(e, ("end", "cend"))
        if y is not None:
            return self.same_container(x, y)
        p = _peel(e)
        if isinstance(p, dict) and p.get("k") == "ref" and p.get("rk") == "local":
            ini = self.const_init(p.get("d"))
            if ini is not None:
                y = _method_call(ini, ("end", "cend"))
                return y is not None and self.same_container(x, y)
        return False

    def iter_cond(self, c, d, x):
        op, ops = _operands(c)
        if op != "!=" or not ops or len(ops) != 2:
            return False
        if _is_ref(ops[0], d):
            return self.is_end_of(ops[1], x)
        if _is_ref(ops[1], d):
            return self.is_end_of(ops[0], x)
        return False

    def elem_decl(self, s, d):
        """`[const] auto[&] v = *it;` -> the declared variable"""
        if isinstance(s, dict) and s.get("k") == "decl" and len(s["vars"]) == 1:
            v = s["vars"][0]
            if v.get("init") is not None and _deref_of(v["init"], d):
                return v
        return None

    def synth_elem(self, it, stmts):
        """no `v = *it` declaration: every use of the iterator in `stmts` must be `*it` or `it->m`;
        those are rewritten to a synthetic by-reference loop variable.  Returns (var, new stmts) or
        None"""
        import copy
        d = it.get("d")
        nd = -(100000 + (d or 0))
        name = "%s$elem" % it.get("n", "it")
        stmts = copy.deepcopy(stmts)
        seen_t = []

        def ref(n):
            return {"k": "ref", "rk": "local", "d": nd, "n": name, "t": n.get("t", -1), "vt": n.get("t", -1),
                    "isref": True, "l": n.get("l")}

        def arrow_base(b):
            b = _peel(b)
            if not isinstance(b, dict):
                return False
            if b.get("k") == "ref" and b.get("d") == d:
                return True
            if b.get("k") == "call" and b.get("op") == "->":
                ops = ([b["obj"]] if b.get("obj") is not None else []) + list(b.get("a", []))
                return len(ops) == 1 and _is_ref(ops[0], d)
            return False

        def rep(n):
            if not isinstance(n, dict):
                return n
            if n.get("k") in ("unop", "call") and n.get("op") == "*" and _deref_of(n, d) and _peel(n) is n:
                seen_t.append(n.get("t", -1))
                return ref(n)
            if n.get("k") == "member" and n.get("arrow") and arrow_base(n.get("b")):
                m = dict(n)
                m["arrow"] = False
                m["b"] = ref(n["b"])
                return m
            for key, val in list(n.items()):
                if isinstance(val, dict):
                    n[key] = rep(val)
                elif isinstance(val, list):
                    n[key] = [rep(x) for x in val]
            return n
        stmts = [rep(x) for x in stmts]
        if _refs_list(stmts, d):
            return None
        if not _refs_list(stmts, nd):
            return None
        var = {"d": nd, "n": name, "t": seen_t[0] if seen_t else -1, "isref": True, "synthetic": True}
        return var, stmts

    def make_rangefor(self, loop, v, x, rest):
        return {"k": "rangefor", "l": loop.get("l"), "var": v, "range": self.range_of(x),
                "body": {"k": "compound", "l": loop.get("l"), "b": rest}, "canon": True}

    # ---------------------------------------------------------------- the rewrites
    def t1(self, s):
        ini = s.get("init")
        if not (isinstance(ini, dict) and ini.get("k") == "decl" and len(ini["vars"]) == 1):
            return None
        it = ini["vars"][0]
        d = it.get("d")
        x = _method_call(it.get("init"), ("begin", "cbegin")) if it.get("init") is not None else None
        if x is None or s.get("c") is None or s.get("inc") is None:
            return None
        if not self.iter_cond(s["c"], d, x) or not _incr_of(s["inc"], d):
            return None
        body = _stmts(s.get("body"))
        if not body:
            return None
        v = self.elem_decl(body[0], d)
        if v is None or _refs_list(body[1:], d):
            r = self.synth_elem(it, body)
            if r is None:
                return None
            return self.make_rangefor(s, r[0], x, r[1])
        return self.make_rangefor(s, v, x, body[1:])

    def t2(self, b, idx):
        s = b[idx]
        op, ops = _operands(s.get("c"))
        if op != "!=" or not ops or len(ops) != 2:
            return None
        for o in ops:
            p = _peel(o)
            if not (isinstance(p, dict) and p.get("k") == "ref" and p.get("rk") == "local"):
                continue
            d = p.get("d")
            v0 = self.decls.get(d)
            if v0 is None or v0.get("init") is None:
                continue
            x = _method_call(v0["init"], ("begin", "cbegin"))
            if x is None or not self.iter_cond(s["c"], d, x):
                continue
            # the iterator is declared earlier in this very statement list and used by this loop only
            j = [k for k in range(idx) if b[k].get("k") == "decl" and any(w is v0 for w in b[k]["vars"])]
            if not j:
                continue
            if _refs_list(b[j[0] + 1:idx], d) or _refs_list(b[idx + 1:], d):
                continue
            body = _stmts(s.get("body"))
            if len(body) < 2:
                continue
            v = self.elem_decl(body[0], d)
            if v is None:
                if body[-1].get("k") == "expr" and _incr_of(body[-1].get("e"), d) and not _own_continue(body):
                    r = self.synth_elem(v0, body[:-1])
                    if r is not None:
                        return self.make_rangefor(s, r[0], x, r[1])
                continue
            if body[1].get("k") == "expr" and _incr_of(body[1].get("e"), d):
                rest = body[2:]
            elif body[-1].get("k") == "expr" and _incr_of(body[-1].get("e"), d) and not _own_continue(body):
                rest = body[1:-1]
            else:
                continue
            if _refs_list(rest, d):
                continue
            return self.make_rangefor(s, v, x, rest)
        return None

    def t3(self, b, idx):
        s = b[idx]
        op, ops = _operands(s.get("c"))
        if op not in ("<", "!=") or not ops or len(ops) != 2:
            return None
        p = _peel(ops[0])
        if not (isinstance(p, dict) and p.get("k") == "ref" and p.get("rk") == "local"):
            return None
        d = p.get("d")
        c0 = self.decls.get(d)
        if c0 is None or c0.get("init") is None:
            return None
        j = [k for k in range(idx) if b[k].get("k") == "decl" and any(w is c0 for w in b[k]["vars"])]
        if not j or _refs_list(b[j[0] + 1:idx], d) or _refs_list(b[idx + 1:], d):
            return None
        if _refs(ops[1], d):
            return None
        body = _stmts(s.get("body"))
        if not body or not (body[0].get("k") == "decl" and len(body[0]["vars"]) == 1):
            return None
        v = body[0]["vars"][0]
        e = _peel(v.get("init"))
        if not (isinstance(e, dict) and e.get("k") == "unop" and e.get("op") == "++" and e.get("post")
                and _is_ref(e.get("e"), d)):
            return None
        if _refs_list(body[1:], d) or _writes(body[1:], v.get("d")):
            return None
        iv = dict(v)
        iv.pop("const", None)
        iv["init"] = c0["init"]
        ref = {"k": "ref", "rk": "local", "d": v.get("d"), "n": v.get("n"), "t": v.get("t"), "vt": v.get("t"),
               "l": s.get("l")}
        cond = {"k": "binop", "op": op, "lhs": ref, "rhs": ops[1], "t": _peel(s["c"]).get("t"), "l": s.get("l")}
        inc = {"k": "unop", "op": "++", "e": dict(ref), "t": v.get("t"), "l": s.get("l")}
        return {"k": "for", "l": s.get("l"), "init": {"k": "decl", "l": body[0].get("l"), "vars": [iv]},
                "c": cond, "inc": inc, "body": {"k": "compound", "l": s.get("l"), "b": body[1:]}, "canon": True}

    def t4(self, b, idx):
        """returns (new statement, index of a preceding statement absorbed as init or None)"""
        s = b[idx]
        op, ops = _operands(s.get("c"))
        if op not in ("<", "!=", "<=") or not ops or len(ops) != 2:
            return None, None
        p = _peel(ops[0])
        if not (isinstance(p, dict) and p.get("k") == "ref" and p.get("rk") == "local"):
            return None, None
        d = p.get("d")
        body = _stmts(s.get("body"))
        if len(body) < 1 or not (body[-1].get("k") == "expr" and _incr_of(body[-1].get("e"), d)):
            return None, None
        if _own_continue(body) or _writes(body[:-1], d) or _refs(ops[1], d):
            return None, None
        init, absorbed = None, None
        if idx > 0:
            prev = b[idx - 1]
            if prev.get("k") == "decl" and len(prev["vars"]) == 1 and prev["vars"][0].get("d") == d \
                    and not _refs_list(b[idx + 1:], d):
                init, absorbed = prev, idx - 1
            elif prev.get("k") == "expr":
                e = _peel(prev.get("e"))
                if isinstance(e, dict) and e.get("k") == "binop" and e.get("op") == "=" and _is_ref(e.get("lhs"), d):
                    init, absorbed = prev, idx - 1
        new = {"k": "for", "l": s.get("l"), "init": init, "c": s["c"], "inc": body[-1]["e"],
               "body": {"k": "compound", "l": s.get("l"), "b": body[:-1]}, "canon": True}
        return new, absorbed

    # ---------------------------------------------------------------- driver
    def rewrite_list(self, b):
        idx = 0
        while idx < len(b):
            s = b[idx]
            k = s.get("k") if isinstance(s, dict) else None
            new = None
            if k == "for":
                new = self.t1(s)
                if new is not None:
                    self.done.append(("T1", s.get("l")))
            elif k == "while":
                new = self.t2(b, idx)
                if new is not None:
                    self.done.append(("T2", s.get("l")))
                else:
                    new = self.t3(b, idx)
                    if new is not None:
                        self.done.append(("T3", s.get("l")))
                    else:
                        new, absorbed = self.t4(b, idx)
                        if new is not None:
                            self.done.append(("T4", s.get("l")))
                            if absorbed is not None:
                                del b[absorbed]
                                idx -= 1
            elif k == "rangefor" and not s.get("canon"):
                r = self.range_of(s["range"])
                if r is not s["range"]:
                    s["range"] = r
                    self.done.append(("T0", s.get("l")))
            if new is not None:
                b[idx] = new
                idx -= self.prune_dead_iterators(b, idx)
            idx += 1

    def prune_dead_iterators(self, b, upto):
        """after a rewrite: declarations `auto it = X.begin()` / `const auto last = X.end()` in
        this statement list that nothing refers to any more are dropped (the calls are pure).
        Returns how many statements before position `upto` were removed"""
        removed = 0
        k = 0
        while k < len(b):
            s = b[k]
            if isinstance(s, dict) and s.get("k") == "decl":
                keep = []
                for v in s["vars"]:
                    ini = v.get("init")
                    pure = ini is not None and _method_call(ini, ("begin", "cbegin", "end", "cend")) is not None
                    if pure and _refs(self.fn.body, v.get("d")) == 0:
                        continue
                    keep.append(v)
                if not keep and s["vars"]:
                    del b[k]
                    if k < upto:
                        removed += 1
                        upto -= 1
                    continue
                s["vars"] = keep
            k += 1
        return removed

    def run(self):
        # innermost statement lists first, so that a rewritten inner loop does not hide its iterator
        # variable's uses from the checks made for the enclosing loop
        lists = [n["b"] for n in walk(self.fn.body) if n.get("k") == "compound"]
        for b in reversed(lists):
            self.rewrite_list(b)
        return self.done


def canon_unit(unit):
    if os.environ.get("FSVERIF_NO_CANON"):
        return []
    out = []
    for fn in unit.fns.values():
        if fn.body is None:
            continue
        try:
            done = _Canon(fn).run()
        except (KeyError, TypeError, AttributeError):
            continue        # an unexpected node shape: leave the function as written
        for kind, l in done:
            out.append((fn.bn, kind, unit.loc(l)))
    return out
