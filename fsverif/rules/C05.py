"""C05 — multiple-direction routing partitions flow over all lower neighbours.

C05-M1 (A5, order domain, exhaustive) outcome of multi_flow_router::apply per abstract scenario:
        receivers = exactly the unmasked strictly-lower neighbours, each once, in neighbour order,
        each with its own distance; receivers_count = their number; no lower neighbour / masked /
        base level -> single self receiver with weight 0 and distance 0; one donor entry is
        appended to each receiver.
C05-M2 (A5, scaled-magnitude domain) the normalising divisor can be neither 0 nor inf / NaN: a
        slope is sigma*r with unknown magnitude sigma in (0, inf) (and may underflow to 0), so
        slope^p is [0, +inf] unless the slopes are made scale-free first (divided by one of them,
        which makes one term exactly 1) or the division is guarded.
C05-M3 every receiver's weight is divided by the same sum, which contains exactly the weights of
        all receivers of the node.
Not decided: proportionality to slope^p numerically.
"""
from ..interp import Obj, Sym
from ..sir import AnalysisBroken
from .. import model
from .routers import scenarios, run_router, CENTRE, Scaled

UNITS = ["raster_queen", "profile", "trimesh"]
OP = "fastscapelib::multi_flow_router"


def run(db, chk):
    kmax = 3 if chk.tier == "thorough" else 2
    chk.explanation = (
        "Exhaustive abstract interpretation of multi_flow_router::apply over every neighbourhood "
        "scenario with up to %d neighbours (see routers.py): membership / order / distances / "
        "count of the receivers, donor registration, and an abstract domain of scaled magnitudes "
        "for the weights that decides whether the normalising sum can be 0, inf or NaN." % kmax)
    chk.not_decided = ["numerical proportionality of the weights to slope^p"]
    chk.rule("C05-M1", "receivers = exactly the unmasked strictly-lower neighbours in order with "
             "their distances, count = their number, self receiver (weight 0, distance 0) "
             "otherwise, one donor entry per receiver", min_instances=100)
    chk.rule("C05-M2", "the divisor normalising the weights is finite and non-zero for every "
             "magnitude of the slopes and every exponent >= 0", min_instances=3)
    chk.rule("C05-M3", "all weights of a node are divided by the same sum of exactly the node's "
             "receiver weights", min_instances=3)
    scs = scenarios(kmax)
    n_sc = 0
    for uname in UNITS:
        if uname not in db.units:
            continue
        ap = model.operator_impls(db, uname).get(OP, {}).get("apply")
        if ap is None:
            raise AnalysisBroken("multi_flow_router apply() not instantiated in %s" % uname)
        nbad = {"M1": 0, "M2": 0, "M3": 0}
        for sc in scs:
            ws = run_router(ap, sc, Obj(OP, {"m_slope_exp": Sym("exp", "p")}))
            n_sc += len(ws)
            for w in ws:
                if w.threw:
                    raise AnalysisBroken("C05: router threw %s" % w.threw)
                R, D, W, C = (w.tables[n] for n in ("m_receivers", "m_receivers_distance",
                                                   "m_receivers_weight", "m_receivers_count"))
                cnt = C.get((CENTRE,))
                L = sc.lower_unmasked()
                bad = []
                if sc.centre_masked or sc.centre_base or not L:
                    if cnt != 1 or R.get((CENTRE, 0)) != CENTRE:
                        bad.append("expected a single self receiver, got count %r receiver %r"
                                   % (cnt, R.get((CENTRE, 0))))
                    if not (W.get((CENTRE, 0)) in (0, 0.0)) or not (D.get((CENTRE, 0)) in (0, 0.0)):
                        bad.append("self receiver must have weight 0 and distance 0")
                else:
                    if cnt != len(L):
                        bad.append("receivers_count %r, expected %d" % (cnt, len(L)))
                    got = [R.get((CENTRE, j)) for j in range(len(L))]
                    if got != [n.idx for n in L]:
                        bad.append("receivers %r, expected %r (all unmasked strictly-lower "
                                   "neighbours, in order)" % (got, [n.idx for n in L]))
                    else:
                        for j, n in enumerate(L):
                            d = D.get((CENTRE, j))
                            if not (isinstance(d, Sym) and d.kind == "dist" and d.tag == "n%d" % n.k):
                                bad.append("distance of receiver %d is %r" % (j, d))
                    # donors: one entry per receiver
                    dn = w.tables["m_donors"]
                    dc = w.tables["m_donors_count"]
                    for n in L:
                        mult = sum(1 for x in L if x.idx == n.idx)     # a node may be listed twice
                        ent = [v for (row, col), v in dn.cells.items() if row == n.idx and v == CENTRE]
                        if len(ent) != mult or dc.cells.get((n.idx,)) != mult:
                            bad.append("donor entries of receiver %d: %r (count %r), expected %d "
                                       "(inverse of the receiver table with multiplicity)"
                                       % (n.idx, ent, dc.cells.get((n.idx,)), mult))
                    for n in sc.nbs:
                        if n not in L and any(row == n.idx for (row, col) in dn.cells):
                            bad.append("donor entry registered at non-receiver %d" % n.idx)
                if bad:
                    nbad["M1"] += 1
                if not bad or nbad["M1"] <= 6:
                    chk.ob("C05-M1", "[%s] %s" % (uname, sc.label()), not bad, where=ap.ploc,
                           function=ap.bn, construct="partition-membership", detail="; ".join(bad[:3]),
                           sample=(n_sc % 173 == 1), extra={"unit": uname})
                if not (sc.centre_masked or sc.centre_base) and L:
                    # M2
                    hz = sorted(set(w.violations))
                    if hz:
                        nbad["M2"] += 1
                    if not hz or nbad["M2"] <= 4:
                        chk.ob("C05-M2", "[%s] %s" % (uname, sc.label()), not hz, where=ap.ploc,
                               function=ap.bn, construct="weights-divisor", detail="; ".join(hz[:2]),
                               sample=(n_sc % 173 == 2), extra={"unit": uname})
                    # M3
                    ws_ = [W.get((CENTRE, j)) for j in range(len(L))]
                    sums = set()
                    ok3 = True
                    for j, x in enumerate(ws_):
                        if not (isinstance(x, Scaled) and x.terms and isinstance(x.terms[0], tuple)
                                and x.terms[0][0] == "norm"):
                            ok3 = False
                            continue
                        _, num, den, den_obj = x.terms[0]
                        sums.add(id(den_obj))       # (the term keeps the divisor alive: ids are unique)
                        if sorted(den) != sorted("n%d" % n.k for n in L):
                            ok3 = False
                        if list(num) != ["n%d" % L[j].k]:
                            ok3 = False
                    ok3 = ok3 and len(sums) == 1
                    if not ok3 and all(n.slope_class == "zero" for n in L) and \
                            all(isinstance(x, float) for x in ws_) and len(set(ws_)) == 1 and \
                            abs(sum(ws_) - 1.0) < 1e-12:
                        ok3 = True   # all computed slopes are 0: equal shares (any partition is
                                     # "proportional" to equal slopes), still summing to one
                    if not ok3:
                        nbad["M3"] += 1
                    if ok3 or nbad["M3"] <= 4:
                        chk.ob("C05-M3", "[%s] %s" % (uname, sc.label()), ok3, where=ap.ploc,
                               function=ap.bn, construct="weights-normalisation",
                               detail="" if ok3 else "weights %r" % (ws_,), sample=(n_sc % 173 == 3),
                               extra={"unit": uname})
    chk.absorb(db, "C09", {"C09-P2"}, "C05-M4", "base levels / mask in force are exactly those last set and the "
               "router keeps no state between updates (shared with C09-P2)",
               pred=lambda o: "set_base_levels" in o["instance"] or "set_mask" in o["instance"]
               or "multi_flow_router::apply" in o["instance"], min_instances=3)
    chk.count_scenarios(n_sc, True)
