"""C10 — multi-threaded routing and kernels equal the sequential results (partial claim).

C10-X1 (A3) parallel-region effect discipline: for every callable handed to thread_pool::run_blocks,
        every write to an object shared between workers (captured by reference, reached through a
        captured pointer, `this`, or a global) goes to an element whose FIRST index is derived from
        the block bounds (or is the runner id); reads of an object written in the region obey the
        same rule.  Checked for every grid type because the callees depend on the cache type.
C10-X2 (A2) the donors table is rebuilt only after run_blocks returned, iterating the nodes in the
        same order as the sequential body; the parallel region itself does not touch it.
C10-X3 sibling agreement: the sequential body and the parallel callable have the same write set on
        the graph tables (receivers, distances) -- outcome agreement is decided under C04-S2.
Not decided: bit-equality of numeric results beyond race freedom and identical per-index code.
"""
from ..effects import Effects, path_str, first_index, fields_of, cls_str
from ..flow import Walker
from ..sir import pp, strip, walk, calls, AnalysisBroken

POOL = "fastscapelib::thread_pool"


def block_derived(c):
    if c is None:
        return False
    c0 = c[0]
    if c0[0] == "dp" and set(c0[1]) <= {1, 2} and c0[1]:
        return True
    if c0[0] == "p" and c0[1] in (0, 1, 2):
        return True
    return False


def obj_key(path):
    """the shared object a path designates: root + fields up to the first index"""
    out = []
    for e in path:
        if e[0] == "[]":
            break
        out.append(e)
    return tuple(out)


def find_callable(fn, arg):
    """resolve the callable passed to run_blocks to a lambda function of the same unit"""
    a = strip(arg)
    while a.get("k") == "call" and a.get("bn") in ("std::forward", "std::move"):
        a = strip(a["a"][0])
    if a.get("k") == "lambda":
        return fn.unit.fns.get(a.get("fid"))
    if a.get("k") == "ref":
        d = a.get("d")
        for n in walk(fn.body):
            if "d" in n and "k" not in n and n.get("d") == d and n.get("init") is not None:
                for m in walk(n["init"]):
                    if m.get("k") == "lambda":
                        return fn.unit.fns.get(m.get("fid"))
    return None


class AfterBlocks(Walker):
    def __init__(self, fn, is_donor_write):
        super().__init__(fn)
        self.is_donor_write = is_donor_write
        self.sites = []

    def visit(self, node, st):
        if node.get("k") == "call" and node.get("bn") == POOL + "::run_blocks":
            st = st.add("ev", "ran")
        if node.get("k") in ("binop", "call") and self.is_donor_write(node):
            self.sites.append((node, st.has("ev", "ran")))
        return st


def donors_loop_range(fn):
    """canonical description of the node sequence the donors-registering loop visits: 'ALL' for all
    nodes in ascending order (range-for over nodes_indices() or an index loop 0 .. size()), else the
    range expression text"""
    from ..sir import resolve_alias

    closures = {}
    for m in walk(fn.body):
        if m.get("k") == "decl":
            for v in m["vars"]:
                ini = strip(v.get("init")) if v.get("init") is not None else None
                while isinstance(ini, dict) and ini.get("k") == "construct" and len(ini.get("a", [])) == 1:
                    ini = strip(ini["a"][0])
                if isinstance(ini, dict) and ini.get("k") == "lambda":
                    closures[v["d"]] = ini

    def registers(body, depth=0):
        """the statement registers donor entries: directly, through a helper of the library it calls,
        or through a closure (held by a local variable or written in place) it calls or passes on"""
        for m in walk(body):
            if m.get("k") in ("binop", "call") and "donors(" in pp(m) and "donors_count(" in pp(m) \
                    and (m.get("op") == "="):
                return True
            if depth < 3:
                sub = None
                if m.get("k") == "ref" and m.get("d") in closures:
                    sub = fn.unit.fns.get(closures[m["d"]].get("fid"))
                elif m.get("k") == "lambda":
                    sub = fn.unit.fns.get(m.get("fid"))
                elif m.get("k") == "call" and m.get("fid") is not None:
                    sub = fn.callee(m)
                    if sub is not None and sub.cls != fn.cls and not sub.is_lambda:
                        sub = None          # only helpers of the same implementation class
                if sub is not None and sub.body is not None and registers(sub.body, depth + 1):
                    return True
        return False
    for n in walk(fn.body):
        if n.get("k") == "rangefor" and registers(n.get("body")):
            r = pp(strip(n["range"]))
            return "ALL" if r.endswith("nodes_indices()") else pp(n["range"])
        if n.get("k") == "for" and n.get("c") is not None and registers(n.get("body")):
            c = strip(n["c"])
            ini = n.get("init")
            start0 = ini is not None and any(("init" in x and x.get("init") is not None and
                                              strip(x["init"]).get("cv") == 0) for x in walk(ini))
            up = n.get("inc") is not None and "++" in pp(n["inc"])
            if c.get("k") == "binop" and c["op"] == "<" and start0 and up and \
                    pp(resolve_alias(fn, c["rhs"])).endswith("size()"):
                return "ALL"
            return "for(%s; %s; %s)" % (pp(ini) if ini else "", pp(c), pp(n["inc"]) if n.get("inc") else "")
    return None


def run(db, chk):
    eff = Effects(db)
    chk.explanation = (
        "Effect summaries (access paths with index shapes, aliases, callee summaries followed "
        "through returned references) of every callable passed to thread_pool::run_blocks, for "
        "each of the 7 instantiated grid types: shared objects may only be written at an index "
        "derived from the block bounds. Plus must-precede analysis of the sequential donors "
        "rebuild. Kernel callbacks (std::function) are opaque and assumed index-partitioned.")
    chk.not_decided = ["equality of numeric results beyond race freedom and identical per-index "
                       "code (see C04-S2)", "kernel callbacks supplied by the user"]
    chk.assume("opaque std::function kernel callbacks only touch the node they are called for "
               "(documented kernel contract)")
    chk.rule("C10-X1", "every write (and every read of a written object) performed by a "
             "run_blocks callable on a shared object is to an element whose first index is "
             "derived from the block bounds or the runner id", min_instances=14)
    chk.rule("C10-X2", "the donors table is written only after run_blocks returned, in the same "
             "node order as the sequential body", min_instances=7)
    chk.rule("C10-X3", "sequential router body and parallel callable write the same graph tables",
             min_instances=7)

    n_regions = 0
    for fn in db.all_fns():
        for c in calls(fn.body, POOL + "::run_blocks"):
            if fn.cls == POOL:
                continue
            args = c.get("a", [])
            if len(args) < 3:
                raise AnalysisBroken("run_blocks call with %d args at %s" % (len(args), fn.loc(c)))
            lam = find_callable(fn, args[2])
            if lam is None:
                raise AnalysisBroken("cannot resolve the callable passed to run_blocks at %s" % fn.loc(c))
            n_regions += 1
            s = eff.summary(lam)
            written = {}
            for (k, p, h) in s.effects:
                if k == "w":
                    written.setdefault(obj_key(p), []).append((p, h))
            inst = "%s [%s] callable at %s" % (fn.bn.split("::")[-1], fn.unit.name, lam.ploc)
            bad = []
            for (k, p, h) in sorted(s.effects, key=lambda x: path_str(x[1])):
                ok = True
                if k == "w":
                    ok = block_derived(first_index(p))
                elif obj_key(p) in written:
                    ok = block_derived(first_index(p)) or first_index(p) is None and False
                    if first_index(p) is None:
                        # reading the whole object (e.g. its size / shape) while elements are written
                        ok = all(hh == "elem" for (_, hh) in written[obj_key(p)])
                else:
                    continue
                if not ok:
                    bad.append((k, p, h))
            if not bad:
                chk.ob("C10-X1", inst + ": %d writes, all block-indexed" % sum(len(v) for v in written.values()),
                       True, where=fn.loc(c), function=fn.bn, construct="region",
                       extra={"unit": fn.unit.name,
                              "writes": sorted(path_str(p) for v in written.values() for (p, _) in v)})
            seen = set()
            for (k, p, h) in bad:
                objs = ".".join([e[2] if e[0] in ("cap", "local") else "this" if e[0] == "this" else str(e[1])
                                 for e in obj_key(p)[:1]] + fields_of(obj_key(p)))
                if (k, objs) in seen:
                    continue
                seen.add((k, objs))
                chk.ob("C10-X1", "%s: %s of shared %s" % (inst, "write" if k == "w" else "read", path_str(p)),
                       False, where=s.locs.get((k, p, h), fn.loc(c)), function=fn.bn,
                       construct="%s:%s:%s" % ("w" if k == "w" else "r", objs, fn.unit.name.split("_")[0] if False else objs),
                       detail="every worker %s the same storage (%s access, index %s): data race "
                       "between blocks" % ("writes" if k == "w" else "reads while others write",
                                           h, ",".join(cls_str(x) for x in (first_index(p) or ()))or "none"),
                       extra={"unit": fn.unit.name})
    if n_regions == 0:
        raise AnalysisBroken("no run_blocks call site found")

    chk.absorb(db, "C04", {"C04-S2"}, "C10-X7", "the sequential router body and the parallel callable give the same "
               "receiver and distance on every abstract neighbourhood (shared with C04-S2)", min_instances=100)
    chk.absorb(db, "C11", {"C11-A1", "C11-A2a", "C11-A2b", "C11-A2c", "C11-A7", "C11-P1", "C11-P2", "C11-A3b"}, "C10-X4",
               "the worker pool hands every block to exactly one worker and returns after all of them "
               "finished (shared with C11: hand-off orders, pause / resume handshake, block partition)",
               min_instances=10)
    chk.absorb(db, "C09", {"C09-P2"}, "C10-X6", "neither router body keeps state of its own between updates (shared with "
               "C09-P2): a table cached by one body only makes the two bodies disagree after a reconfiguration",
               pred=lambda o: "single_flow_router::apply" in o["instance"], min_instances=6)
    chk.absorb(db, "C06", {"C06-F3"}, "C10-X5", "breadth-first levels never contain a node together with one "
               "of its receivers (shared with C06-F3): level-parallel kernels read finished receivers only",
               min_instances=30)
    # ---- X2 / X3: router --------------------------------------------------------------------
    def is_donor_write(node):
        t = pp(node)
        if node.get("k") == "binop" and node.get("op") == "=":
            return pp(strip(node["lhs"])).startswith("donors(")
        if node.get("k") == "call" and node.get("op") == "=":
            return node.get("obj") is not None and pp(strip(node["obj"])).startswith("donors(")
        return False

    par = [f for f in db.fns("fastscapelib::detail::flow_operator_impl::apply_par")]
    seq = {f.unit.name: f for f in db.fns("fastscapelib::detail::flow_operator_impl::apply_seq")}
    if not par:
        raise AnalysisBroken("apply_par not instantiated")
    for fn in par:
        w = AfterBlocks(fn, is_donor_write)
        w.run()
        if not w.sites:
            raise AnalysisBroken("C10-X2: no donors registration found in %s" % fn)
        sfn = seq.get(fn.unit.name)
        r_par = donors_loop_range(fn)
        r_seq = donors_loop_range(sfn) if sfn else None
        for node, ok in w.sites:
            same = r_par is not None and r_par == r_seq
            chk.ob("C10-X2", "donors rebuilt after run_blocks over `%s` (sequential body: `%s`) [%s]"
                   % (r_par, r_seq, fn.unit.name), ok and same, where=fn.loc(node), function=fn.bn,
                   construct="donors-rebuild",
                   detail="" if ok and same else ("donors written before the parallel region finished"
                                                  if not ok else "node order differs from the sequential body"),
                   extra={"unit": fn.unit.name})
        # X3: same write set on graph tables
        lam = None
        for c in calls(fn.body, POOL + "::run_blocks"):
            lam = find_callable(fn, c["a"][2])
        if lam is None or sfn is None:
            raise AnalysisBroken("C10-X3: sequential / parallel bodies not found for %s" % fn.unit.name)

        # local reference aliases of graph tables in the enclosing functions (captured by the callable)
        alias = {}
        for host in (fn, sfn):
            for n in walk(host.body):
                if "d" in n and "k" not in n and n.get("init") is not None:
                    ini = strip(n["init"])
                    if ini.get("k") == "member" and ini.get("mk") == "field":
                        alias[n.get("n")] = ini.get("n")

        def table_writes(f, drop):
            s = eff.summary(f)
            out = set()
            for (k, p, h) in s.effects:
                if k != "w":
                    continue
                fs = fields_of(obj_key(p))
                name = fs[-1] if fs else (p[0][2] if p[0][0] in ("cap", "local") else "?")
                if "grid" in path_str(obj_key(p)) or "m_grid" in fs:
                    continue
                name = alias.get(name, name)
                if name in drop:
                    continue
                fi = first_index(p)
                col = cls_str(fi[1]) if fi and len(fi) > 1 else "-"
                out.add((name, col))
            return out
        a = table_writes(sfn, {"m_donors", "m_donors_count"})
        b = table_writes(lam, set())
        chk.ob("C10-X3", "graph tables written: sequential %s / parallel %s [%s]"
               % (sorted(a), sorted(b), fn.unit.name), a == b, where=fn.ploc, function=fn.bn,
               construct="sibling-writes", extra={"unit": fn.unit.name})
