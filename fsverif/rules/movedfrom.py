"""Use after move / forward (shared rule, A2): in every library function, a parameter or local that
was handed to std::move / std::forward<T> as an argument of a call, construction or assignment is
not read again before it is re-assigned.  A moved-from container has an unspecified (in practice:
empty) content, so anything derived from it afterwards -- `xt::any(mask)` after
`m_mask = std::forward<C>(mask)` -- describes the wrong object.

Must-analysis over the structured control flow (flow.Walker): the fact `intact(d)` holds from the
declaration of d, is removed by a consuming move, restored by an assignment to d; a read of d where
`intact(d)` does not hold on every path is reported.  Not consumed: `std::forward<F>(f)(args)` (an
rvalue callable is called, not moved from), moves of scalars and pointers."""
from ..flow import Walker, State
from ..sir import walk, strip, pp

SCALAR = ("int", "long", "unsigned", "double", "float", "bool", "char", "short", "size_t", "std::size_t")


def _moved_arg(n):
    if n.get("k") == "call" and n.get("bn") in ("std::move", "std::forward") and n.get("a"):
        a = strip(n["a"][0])
        if isinstance(a, dict) and a.get("k") == "ref" and a.get("rk") in ("param", "local"):
            return a
    return None


class MoveWalker(Walker):
    def __init__(self, fn):
        super().__init__(fn)
        self.sites = {}          # id(move call) -> (node, declaration id, name)
        self.skip_refs = set()   # ref nodes that are assignment targets / the moved argument itself
        self.reads = []          # (ref node, declaration id) read while not intact
        functor_calls = set()
        for n in walk(fn.body):
            if n.get("k") == "call" and n.get("obj") is not None:
                o = strip(n["obj"])
                if _moved_arg(o) is not None:
                    functor_calls.add(id(o))
            if n.get("k") == "binop" and n.get("op") == "=":
                l = strip(n["lhs"])
                if l.get("k") == "ref":
                    self.skip_refs.add(id(l))
            if n.get("k") == "call" and n.get("op") == "=" and n.get("obj") is not None:
                l = strip(n["obj"])
                if l.get("k") == "ref":
                    self.skip_refs.add(id(l))
        for n in walk(fn.body):
            a = _moved_arg(n)
            if a is None or id(n) in functor_calls:
                continue
            t = fn.type(a.get("vt", a.get("t"))).replace("const ", "").replace("&", "").strip()
            if t.endswith("*") or t in SCALAR or t.split(" ")[0] in SCALAR:
                continue
            self.sites[id(n)] = (n, a.get("d"), a.get("n"))
            self.skip_refs.add(id(a))
        self.tracked = {d for (_, d, _) in self.sites.values()}

    def visit_decl(self, var, st):
        if var.get("d") in self.tracked:
            return st.add("intact", var["d"])
        return st

    def visit(self, node, st):
        k = node.get("k")
        if k == "ref" and node.get("d") in self.tracked and id(node) not in self.skip_refs:
            if not st.has("intact", node["d"]):
                self.reads.append((node, node["d"]))
        if k == "call" and id(node) in self.sites:
            d = self.sites[id(node)][1]
            st = st.remove("intact", lambda x: x == d)
            st = st.add("moved", (d, id(node)))
        if (k == "binop" and node.get("op") == "=") or (k == "call" and node.get("op") == "="):
            l = strip(node["lhs"] if k == "binop" else node.get("obj") or {})
            if isinstance(l, dict) and l.get("k") == "ref" and l.get("d") in self.tracked:
                st = st.add("intact", l["d"])
        return st


def rule(db, chk, rid, units=None):
    n = 0
    for fn in db.all_fns():
        if units is not None and fn.unit.name not in units:
            continue
        if fn.body is None or not any(_moved_arg(x) is not None for x in walk(fn.body)):
            continue
        w = MoveWalker(fn)
        if not w.sites:
            continue
        params = frozenset(p["d"] for p in fn.params if p.get("d") in w.tracked)
        w.run(State({"intact": params}))
        bad_by_d = {}
        for ref, d in w.reads:
            bad_by_d.setdefault(d, []).append(ref)
        for (node, d, name) in w.sites.values():
            n += 1
            reads = bad_by_d.get(d, [])
            # (a read is attributed to every consuming move of the same variable in the function)
            chk.ob(rid, "%s: `%s` after %s [%s]" % (fn.name, name, pp(node)[:50], fn.unit.name), not reads,
                   where=fn.loc(reads[0]) if reads else fn.loc(node), function=fn.bn,
                   construct="moved-from(%s)" % name,
                   detail="" if not reads else "`%s` is read at %s after its content was moved / forwarded away"
                   % (name, ", ".join(sorted({fn.loc(r) for r in reads}))[:200]),
                   sample=(n % 29 == 1), extra={"unit": fn.unit.name})
    return n
