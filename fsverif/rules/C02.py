"""C02 — depression filling raises terrain exactly to its spill level (narrow claim).

The quantitative statement (filled level = minimax path elevation within one increment per node)
relates output values to a graph optimum of the input and is NOT decided.  Decided are the clauses
whose truth is in the shape of the two write sites:
C02-F1 (A5) monotone, guarded writes: in both resolvers every elevation write is reached only
        under a comparison that makes the new value >= the old one (the value written is the
        successor of the parent's / receiver's elevation), and masked nodes, base levels (pflood)
        and outlets (MST tilt) are never written -- for every order class of the values compared.
C02-F2 (A5) on tree-shaped neighbourhoods (star + chain around a base level, chain below an
        outlet) the result is exactly max(input, successor(parent's result)): raised to the spill
        level plus one increment and not more, untouched where the terrain already drains.
C02-F4 (A5, bounded) priority flood on every connected graph of <= 3 (thorough: 4) nodes: the result
        lies between the minimax spill level (brute force) and that level plus one increment per
        node; every reached node keeps a strictly lower unmasked neighbour.
Not decided: the spill level on larger graphs, the spanning-tree resolvers on general graphs,
agreement between resolver variants.
"""
import math

from ..interp import Obj
from ..sir import AnalysisBroken
from .. import model
from . import sinks, mstpipe
from .C01 import check_pflood, MST

UNITS = ["raster_queen", "profile", "trimesh"]
INF = float("inf")


def small_connected_graphs(n):
    import itertools
    pairs = list(itertools.combinations(range(n), 2))
    for k in range(n - 1, len(pairs) + 1):
        for es in itertools.combinations(pairs, k):
            adj = {i: [] for i in range(n)}
            for a, b in es:
                adj[a].append(b)
                adj[b].append(a)
            seen, st = {0}, [0]
            while st:
                u = st.pop()
                for v in adj[u]:
                    if v not in seen:
                        seen.add(v)
                        st.append(v)
            if len(seen) == n:
                yield es, adj


def minimax_rule(chk, uname, pf):
    """C02-F4 / bounded: the priority-flood fill interpreted on every connected graph of <= 3 (quick) /
    4 (thorough) nodes, every assignment of elevations from a small set of levels (ties, adjacent
    doubles), every non-empty base-level set, without and with one masked node; the result is compared
    with the minimax path level computed by brute force here"""
    import itertools
    thorough = chk.tier == "thorough"
    n_sc = 0
    nbad = 0
    for n in range(2, (4 if thorough else 3) + 1):
        # 4 nodes: three levels, no mask (46k scenarios); <= 3 nodes: adjacent doubles and masks as well
        levels = [0.0, 1.0, math.nextafter(1.0, INF), 2.0] if (thorough and n <= 3) else [0.0, 1.0, 2.0]
        for es, adj in small_connected_graphs(n):
            for elev in itertools.product(levels, repeat=n):
                for bmask in range(1, 1 << n):
                    base = [i for i in range(n) if bmask >> i & 1]
                    mask_opts = [None] + ([i for i in range(n) if i not in base] if n <= 3 else [])
                    for mk in mask_opts:
                        masked = [i == mk for i in range(n)]
                        n_sc += 1
                        w = sinks.SinkWorld(list(elev), adj, masked, base)
                        exc = sinks.run_fn(pf, w, None, [w.graph, w.elev])
                        fin = list(w.elev)
                        bad = []
                        if exc:
                            bad.append("threw %s" % exc)
                        else:
                            # minimax level by relaxation over unmasked nodes
                            M = {b: elev[b] for b in base}
                            changed = True
                            while changed:
                                changed = False
                                for u in list(M):
                                    for v in adj[u]:
                                        if masked[v] or v in base:
                                            continue
                                        cand = max(M[u], elev[v])
                                        if v not in M or cand < M[v]:
                                            M[v] = cand
                                            changed = True
                            for v in range(n):
                                if masked[v] or v in base or v not in M:
                                    if fin[v] != elev[v]:
                                        bad.append("node %d (%s) changed from %r to %r" % (
                                            v, "masked" if masked[v] else "base level" if v in base else "unreachable",
                                            elev[v], fin[v]))
                                    continue
                                hi = M[v]
                                for _ in range(n):
                                    hi = math.nextafter(hi, INF)
                                if fin[v] < elev[v]:
                                    bad.append("node %d lowered" % v)
                                if not (M[v] <= fin[v] <= hi):
                                    bad.append("node %d ends at %.17g, its spill level is %.17g (margin: %d increments)"
                                               % (v, fin[v], M[v], n))
                                if not any((not masked[u]) and fin[u] < fin[v] for u in adj[v]):
                                    bad.append("node %d (%.17g) has no strictly lower unmasked neighbour in the result: "
                                               "a router cannot drain it" % (v, fin[v]))
                        if bad:
                            nbad += 1
                        if not bad or nbad <= 6:
                            chk.ob("C02-F4", "[%s] pflood on graph %s, elevation %s, base levels %s%s" % (
                                uname, list(es), list(elev), base, "" if mk is None else ", node %d masked" % mk),
                                not bad, where=pf.ploc, function=pf.bn, construct="pflood-minimax",
                                detail="; ".join(bad[:2]), sample=(n_sc % 397 == 1), extra={"unit": uname})
    return n_sc


def run(db, chk):
    chk.explanation = (
        "Abstract interpretation (order domain with exact successor semantics) of the two "
        "elevation write sites -- priority-flood fill and MST tilt -- on abstract neighbourhoods, "
        "exhaustive over the order classes (below / predecessor / equal / successor / above) of "
        "the values they compare, with a write log: every write raises, masked / base / outlet "
        "nodes are never written, and on tree-shaped neighbourhoods the result is exactly the "
        "spill level plus one increment.")
    chk.not_decided = ["filled level = minimax path elevation on general graphs",
                       "agreement of priority-flood, Kruskal and Boruvka variants within the margin"]
    chk.rule("C02-F1", "every elevation write raises the value; masked nodes, base levels and "
             "outlets are never written", min_instances=100)
    chk.rule("C02-F4", "bounded: priority flood on every connected graph of <= 3 (thorough 4) nodes, all elevation "
             "assignments from 3 (4) levels, all base-level sets, without / with one masked node: every reached "
             "node ends between its minimax spill level and that level plus one increment per node, keeps a "
             "strictly lower unmasked neighbour, and nothing else changes", min_instances=500)
    chk.rule("C02-F5", "bounded, end to end: mst_sink_resolver's apply() interpreted on every elevation assignment "
             "(3 levels) of small node graphs, both tree algorithms and both routing methods: no elevation is "
             "lowered, base levels are unchanged, every other node ends between its minimax spill level and that "
             "level plus one increment per node", min_instances=300)
    chk.rule("C02-F2", "on tree-shaped neighbourhoods the result equals max(input, successor of "
             "the parent's result)", min_instances=100)
    n_sc = 0
    for uname in UNITS:
        if uname not in db.units:
            continue
        pf = db.fns("fastscapelib::detail::fill_sinks_sloped", unit=uname)
        tilt = [f for f in model.operator_impls(db, uname).get(MST, {}).get("fns", [])
                if f.name == "fill_sinks_sloped"]
        if not pf or not tilt:
            raise AnalysisBroken("resolver fill functions not instantiated in %s" % uname)
        pf, tilt = pf[0], tilt[0]
        nb = [0, 0]
        for sc in sinks.pflood_scenarios(2 if (chk.tier == "thorough" or uname == UNITS[0]) else 1):
            w, orig, adj = sinks.build_pflood_world(sc)
            exc = sinks.run_fn(pf, w, None, [w.graph, w.elev])
            n_sc += 1
            fin = list(w.elev)
            bad = check_pflood(w, orig, fin, adj, exc)
            b1 = [b for b in bad if "lowered" in b or "written" in b or "changed" in b or "threw" in b]
            b2 = [b for b in bad if b not in b1]
            lab = "[%s] pflood base E=%g, neighbours %s, chain %s" % (
                uname, sc[0], ["%s%s" % ("masked " if m else "", c) for m, c in sc[1]],
                None if sc[2] is None else "%s%s" % ("masked " if sc[2][0] else "", sc[2][1]))
            for rid, b, i in (("C02-F1", b1, 0), ("C02-F2", b2, 1)):
                if b:
                    nb[i] += 1
                if not b or nb[i] <= 5:
                    chk.ob(rid, lab, not b, where=pf.ploc, function=pf.bn,
                           construct="pflood-write" if i == 0 else "pflood-level", detail="; ".join(b[:3]),
                           sample=(n_sc % 131 == i), extra={"unit": uname})
        # ---- F4: priority flood on every small graph (bounded): minimax level within the margin ----
        if uname == UNITS[0] or chk.tier == "thorough":
            if chk.want("C02-F4"):
                n_sc += minimax_rule(chk, uname, pf)
            if chk.want("C02-F5"):
                # (the larger graphs of the thorough tier on the first instantiation only: the
                #  resolver's code is the same template for every grid type)
                n_sc += mstpipe.run_rule(db, chk, uname, None, "C02-F5", deep=(uname == UNITS[0]))
        for E in (1.0, 0.0, -2.5):
            for ca in sinks.CLASSES:
                for cb in sinks.CLASSES:
                    ea = sinks.rep(ca, E)
                    eb = sinks.rep(cb, ea)
                    orig = [E, ea, eb]
                    rec = sinks.Table("m_receivers")
                    for i, r in ((0, 0), (1, 0), (2, 1)):
                        rec[(i, 0)] = r
                    w = sinks.SinkWorld(orig, {}, [False] * 3, [0], dfs=[0, 1, 2], receivers=rec)
                    exc = sinks.run_fn(tilt, w, Obj(tilt.cls, {}), [w.graph, w.elev])
                    n_sc += 1
                    fin = list(w.elev)
                    b1, b2 = [], []
                    if exc:
                        b1.append("threw %s" % exc)
                    for (i, old, new) in w.elev.writes:
                        if new < old:
                            b1.append("elevation of node %d lowered" % i)
                        if i == 0:
                            b1.append("outlet written")
                    want1 = max(orig[1], math.nextafter(fin[0], INF))
                    want2 = max(orig[2], math.nextafter(want1, INF))
                    if fin[1] != want1 or fin[2] != want2:
                        b2.append("result %r, expected %r" % (fin[1:], [want1, want2]))
                    lab = "[%s] tilt outlet E=%g, node %s, upstream node %s" % (uname, E, ca, cb)
                    chk.ob("C02-F1", lab, not b1, where=tilt.ploc, function=tilt.bn, construct="tilt-write",
                           detail="; ".join(b1[:3]), sample=(n_sc % 23 == 0), extra={"unit": uname})
                    chk.ob("C02-F2", lab, not b2, where=tilt.ploc, function=tilt.bn, construct="tilt-level",
                           detail="; ".join(b2[:3]), sample=(n_sc % 23 == 1), extra={"unit": uname})
    chk.absorb(db, "C09", {"C09-P2"}, "C02-F3", "the basin graph / resolver scratch state is reset at every "
               "update (shared with C09-P2): stale passes of a previous call over-fill depressions",
               pred=lambda o: "basin_graph" in o["instance"] or "mst_sink_resolver" in o["instance"]
               or "set_base_levels" in o["instance"] or "set_mask" in o["instance"],
               min_instances=20)
    chk.absorb(db, "C01", {"C01-E7"}, "C02-F6", "the spanning-tree resolver acts whenever an outlet is not a base "
               "level (shared with C01-E7): an early exit with pits left returns the input unfilled", min_instances=20)
    if chk.tier == "thorough":
      chk.absorb(db, "C15", {"C15-K1", "C15-K4"}, "C02-F7", "the tree of basins is a MINIMUM spanning tree over the pass "
               "elevations (shared with C15-K1 / K4): a heavier tree spills depressions over a higher pass",
               min_instances=100, tier="quick")
    chk.count_scenarios(n_sc, True)
