"""C14 — hillslope diffusion step equals the alternating-direction scheme (bounded symbolic claim).

The eroder is interpreted over an exact symbolic domain (rational functions over opaque symbols,
fsverif/ratfun.py; numeric representatives only decide the pivots' non-zero tests) on small raster
shapes, with symbolic n-dimensional arrays for the xtensor containers and views (fsverif/ndsym.py):
C14-D1 set_factors: for a scalar diffusivity every factor equals K/2/dy^2 (rows) and K/2/dx^2
        (columns); for an array the interior factors are the face averages
        (k(r-1,c)+k(r,c))/4/dy^2, (k(r-1,c)+2k(r,c)+k(r+1,c))/8/dy^2, (k(r,c)+k(r+1,c))/4/dy^2 and the
        column analogues -- as identities in the symbols.
C14-D2 compositional decision of erode():
        (a) solve_tridiagonal (Thomas algorithm) on symbolic systems of size 3..8 (3..10 in the thorough tier) whose first and last rows are identity rows, as handed over by the sweep: the returned
            vector satisfies every equation lower_i x_{i-1} + diag_i x_i + upper_i x_{i+1} = vec_i
            as a rational-function identity;
        (b) solve_adi_row (both instantiations) with the tridiagonal solver summarised by fresh
            symbols: for every interior line the assembled system is exactly the implicit half
            step of the Peaceman-Rachford scheme (coefficients from the "column" factors, right
            hand side from the "row" factors and the neighbouring lines, identity rows at the two
            ends = fixed-value borders), the solution is written to that line and the first / last
            lines are copied unchanged;
        (c) erode() with solve_adi_row summarised: first sweep on (elevation, row factors, column
            factors), second sweep on the transposes with the factor roles exchanged, erosion =
            elevation - transpose(second result); no uninitialised storage reaches the result.
        (a)+(b)+(c) give: erosion = elevation - two-half-step ADI solution, zero on the borders.
Not decided: Thomas systems larger than 10 (loop over the size, no inductive argument), rounding,
linearity as such (it follows: the result is linear in the elevation symbols).
"""
import itertools

from ..interp import Interp, World, Obj, PyVec, Sym, ThrowEx, NOT_HANDLED, Ref, Poly
from .. import ratfun, ndsym
from ..ratfun import Dual
from ..ndsym import NDArr, NDView, Uninit, is_arr, ShapeMismatch
from ..sir import pp, strip, AnalysisBroken

UNITS = ["raster_queen"]
ADI = "fastscapelib::diffusion_adi_eroder"


class UninitUse(Exception):
    pass


class ArrRef(Ref):
    def __init__(self, arr, idx):
        self.arr = arr
        self.idx = idx

    def get(self):
        return self.arr.get(self.idx)

    def set(self, v):
        self.arr.set(self.idx, v)


def scalar(op, x, y):
    if isinstance(x, Uninit) or isinstance(y, Uninit):
        return x if isinstance(x, Uninit) else y      # poison: harmless unless it reaches a result
    if isinstance(x, (int, float)) and isinstance(y, (int, float)) and not isinstance(x, bool) \
            and not isinstance(y, bool) and not isinstance(x, float) and not isinstance(y, float):
        return {"+": x + y, "-": x - y, "*": x * y}.get(op) if op != "/" else ratfun.binop(op, x, y)
    return ratfun.binop(op, x, y)


class ADIWorld(World):
    def __init__(self, spacing, shape):
        self.spacing = spacing
        self.shape = shape

    def sym_binop(self, op, a, b):
        if is_arr(a) or is_arr(b):
            return ndsym.elementwise(op, a, b, scalar)
        return scalar(op, a, b)

    def sym_unop(self, op, a):
        if op == "-":
            if is_arr(a):
                return ndsym.elementwise("*", a, -1, scalar)
            return scalar("*", a, -1)
        raise AnalysisBroken("adi model: unary %s" % op)

    def sym_cmp(self, op, a, b):
        if isinstance(a, Uninit) or isinstance(b, Uninit):
            raise UninitUse("comparison on %r" % (a if isinstance(a, Uninit) else b,))
        return ratfun.compare(op, a, b)

    def before_call(self, it, fn, call, callee, frame):
        nm = callee.bn.split("::")[-1]
        if nm == "spacing":
            return PyVec(list(self.spacing))
        if nm == "shape" and "grid" in (callee.cls or ""):
            return PyVec(list(self.shape))
        if nm in ("nodes_status", "nodes_status_impl") and "grid" in (callee.cls or ""):
            # the property holds "regardless of the grid's node statuses": the model grid has
            # fixed-value (1) and fixed-gradient (2) nodes in its interior
            st = NDArr(tuple(self.shape), 0, "nodes_status")
            if len(self.shape) == 2 and self.shape[0] > 2 and self.shape[1] > 2:
                st.data[(1, 1)] = 1
                if self.shape[1] > 3:
                    st.data[(1, 2)] = 2
            args = call.get("a", [])
            if args:
                return st.get(tuple(it.rv(it.eval(a, frame)) for a in args))
            return st
        return NOT_HANDLED

    def default_value(self, it, ts):
        base = ts.replace("const ", "").strip()
        if base.startswith("xt::xtensor_container<") or base.startswith("xt::xarray_container<"):
            return NDArr((0,), None, "xt-container")
        return NOT_HANDLED

    def external(self, it, fn, call, frame):
        bn = call.get("bn", "")
        name = bn.split("::")[-1]
        args = call.get("a", [])
        obj = call.get("obj")
        op = call.get("op")

        def V(i):
            return it.rv(it.eval(args[i], frame))
        if call.get("k") == "construct":
            ts = fn.type(call.get("t"))
            if ts.replace("const ", "").startswith("xt::svector<") and args:
                v = V(0)
                if isinstance(v, (list, PyVec)):
                    return PyVec(list(v))
            if (ts.startswith("xt::xtensor_container<") or ts.startswith("xt::xarray_container<")) and len(args) == 1:
                v = V(0)
                if is_arr(v):
                    return v.copy()
            return NOT_HANDLED
        if bn == "xt::all":
            return "all"
        if bn == "xt::range":
            return ("range", V(0), V(1))
        if bn == "xt::noalias":
            return V(0)             # assignment through a view is element-wise either way in this model
        if bn == "xt::view":
            arr = V(0)
            if not is_arr(arr):
                raise AnalysisBroken("adi model: xt::view of %r" % (arr,))
            return ndsym.view(arr, [V(i) for i in range(1, len(args))])
        if bn in ("xt::row", "xt::col") and len(args) == 2:
            arr = V(0)
            if is_arr(arr) and len(arr.shape) == 2:
                return ndsym.view(arr, [V(1), "all"] if bn == "xt::row" else ["all", V(1)])
            return NOT_HANDLED
        if bn == "xt::transpose":
            arr = V(0)
            perm = list(V(1)) if len(args) > 1 else None
            return ndsym.transpose(arr, perm)
        if bn in ("xt::ones", "xt::zeros", "xt::empty"):
            shp = list(V(0))
            fill = {"ones": 1, "zeros": 0, "empty": None}[name]
            return NDArr(shp, fill, "xt::%s" % name)
        if bn == "xt::empty_like":
            return NDArr(V(0).shape, None, "xt::empty_like")
        if bn == "xt::same_shape":
            return True
        if bn in ("xt::allclose", "xt::isclose") and len(args) >= 2:
            a0, a1 = V(0), V(1)
            vals = [a0.get(i) for i in a0.indices()] if is_arr(a0) else [a0]
            ref = [a1.get(i) for i in a1.indices()] if is_arr(a1) else [a1] * len(vals)
            if len(ref) == len(vals) and all(not isinstance(x, Uninit) and not isinstance(y, Uninit) and
                                             Dual.of(x).same(Dual.of(y)) for x, y in zip(vals, ref)):
                return True
            # a tolerance test on symbolic magnitudes is undetermined: values that differ can still pass
            # it (absolute tolerance, tiny magnitudes) -- the model takes that outcome
            return True
        if bn.startswith("xt::operator") and op in ("+", "-", "*", "/"):
            vals = [V(i) for i in range(len(args))]
            if len(vals) == 1 and op == "-":
                return self.sym_unop("-", vals[0])
            return self.sym_binop(op, vals[0], vals[1])
        if obj is not None:
            oref = it.eval(obj, frame)
            o = it.rv(oref)
            if is_arr(o):
                if name in ("operator()", "operator[]", "flat", "at", "unchecked"):
                    return ArrRef(o, tuple(V(i) for i in range(len(args))))
                if name == "size":
                    n = 1
                    for d in o.shape:
                        n *= d
                    return n
                if name == "shape":
                    return PyVec(list(o.shape)) if not args else o.shape[V(0)]
                if name == "resize" and isinstance(o, NDArr):
                    shp = V(0)
                    while isinstance(shp, list) and len(shp) == 1 and isinstance(shp[0], list):
                        shp = shp[0]
                    o.shape = tuple(shp)
                    o.data = {}
                    o.fill = Uninit(o.name)
                    return None
                if name == "fill":
                    ndsym.assign(o, V(0)) if isinstance(o, NDView) else (o.data.clear(), setattr(o, "fill", V(0)))
                    return None
                if name == "operator=":
                    return ndsym.assign(o, V(0))
        return NOT_HANDLED


# ------------------------------------------------------------------------------------ symbols

def sym_array(prefix, shape, f):
    a = NDArr(shape, None, prefix)
    for idx in a.indices():
        a.data[idx] = Dual.sym("%s_%s" % (prefix, "_".join(str(i) for i in idx)), f(*idx))
    return a


def solve_linear(A, b):
    """symbolic Gaussian elimination (partial pivoting on representatives)"""
    n = len(b)
    A = [list(r) for r in A]
    b = list(b)
    for c in range(n):
        p = max(range(c, n), key=lambda r: abs(Dual.of(A[r][c]).rep))
        if Dual.of(A[p][c]).rep == 0:
            raise AnalysisBroken("C14: singular reference system")
        A[c], A[p] = A[p], A[c]
        b[c], b[p] = b[p], b[c]
        for r in range(c + 1, n):
            if Dual.of(A[r][c]).rep == 0 and not Dual.of(A[r][c]).num.terms:
                continue
            f = ratfun.binop("/", A[r][c], A[c][c])
            for k in range(c, n):
                A[r][k] = ratfun.binop("-", A[r][k], ratfun.binop("*", f, A[c][k]))
            b[r] = ratfun.binop("-", b[r], ratfun.binop("*", f, b[c]))
    x = [None] * n
    for r in range(n - 1, -1, -1):
        s = b[r]
        for k in range(r + 1, n):
            s = ratfun.binop("-", s, ratfun.binop("*", A[r][k], x[k]))
        x[r] = ratfun.binop("/", s, A[r][r])
    return x


def reference_step(e, fr, fc, nr, nc, dt):
    """Peaceman-Rachford: implicit along rows with the column factors, then along columns with
    the row factors; e, fr, fc are getters returning Duals"""
    B = ratfun.binop
    tmp = {(r, c): e(r, c) for r in range(nr) for c in range(nc)}
    for r in range(1, nr - 1):
        A = [[Dual.of(0)] * nc for _ in range(nc)]
        rhs = [None] * nc
        for c in range(nc):
            if c in (0, nc - 1):
                A[c][c] = Dual.of(1)
                rhs[c] = e(r, c)
            else:
                A[c][c - 1] = B("*", B("*", fc(0, r, c), dt), -1)
                A[c][c] = B("+", 1, B("*", B("*", 2, fc(1, r, c)), dt))
                A[c][c + 1] = B("*", B("*", fc(2, r, c), dt), -1)
                rhs[c] = B("+", B("+", B("*", B("-", 1, B("*", B("*", 2, fr(1, r, c)), dt)), e(r, c)),
                                  B("*", B("*", fr(0, r, c), e(r - 1, c)), dt)),
                           B("*", B("*", fr(2, r, c), e(r + 1, c)), dt))
        x = solve_linear(A, rhs)
        for c in range(nc):
            tmp[(r, c)] = x[c]
    nxt = dict(tmp)
    for c in range(1, nc - 1):
        A = [[Dual.of(0)] * nr for _ in range(nr)]
        rhs = [None] * nr
        for r in range(nr):
            if r in (0, nr - 1):
                A[r][r] = Dual.of(1)
                rhs[r] = tmp[(r, c)]
            else:
                A[r][r - 1] = B("*", B("*", fr(0, r, c), dt), -1)
                A[r][r] = B("+", 1, B("*", B("*", 2, fr(1, r, c)), dt))
                A[r][r + 1] = B("*", B("*", fr(2, r, c), dt), -1)
                rhs[r] = B("+", B("+", B("*", B("-", 1, B("*", B("*", 2, fc(1, r, c)), dt)), tmp[(r, c)]),
                                  B("*", B("*", fc(0, r, c), tmp[(r, c - 1)]), dt)),
                           B("*", B("*", fc(2, r, c), tmp[(r, c + 1)]), dt))
        x = solve_linear(A, rhs)
        for r in range(nr):
            nxt[(r, c)] = x[r]
    return nxt


_SETTERS = {}      # "scalar" / "array" -> set_k_coef overload of the unit under analysis


def make_this(nr, nc, fr, fc, k_scalar=None, k_array=None):
    this = Obj(ADI, {"m_grid": Sym("grid", "g"), "m_nrows": nr, "m_ncols": nc,
                     "m_erosion": NDArr((nr, nc), None, "m_erosion"),
                     "m_k_coef_is_scalar": k_array is None, "m_k_coef_scalar": k_scalar,
                     "m_k_coef_array": k_array if k_array is not None else NDArr((0,), None, "m_k_coef_array"),
                     "m_factors_row": NDArr((0,), None, "m_factors_row"),
                     "m_factors_col": NDArr((0,), None, "m_factors_col"),
                     "m_vec": NDArr((0,), None, "m_vec"), "m_lower": NDArr((0,), None, "m_lower"),
                     "m_diag": NDArr((0,), None, "m_diag"), "m_upper": NDArr((0,), None, "m_upper")})
    # however the object records which kind of diffusivity it holds (a flag, an enumeration, ...),
    # that state is established by the library's own setter
    st = _SETTERS.get("scalar" if k_array is None else "array")
    if st is not None and (k_array is not None or k_scalar is not None):
        it = Interp(ADIWorld([Dual.sym("dy", 1.5), Dual.sym("dx", 2.0)], [nr, nc]))
        try:
            it.call_fn(st, this, [k_array.copy() if k_array is not None else k_scalar] + [None] * (len(st.params) - 1))
        except (ThrowEx, UninitUse, ShapeMismatch, AnalysisBroken) as ex:
            import os
            if os.environ.get("FSVERIF_TRACE"):
                print("make_this: setter failed:", ex)
        if k_array is not None and k_scalar is not None:
            this.fields["m_k_coef_scalar"] = k_scalar
    this.fields["m_factors_row"] = fr
    this.fields["m_factors_col"] = fc
    return this


def fresh(prefix, shape, rep0=0.7):
    return sym_array(prefix, shape, lambda *idx: rep0 + 0.013 * sum((k + 1) * i for k, i in enumerate(idx)))


def same(a, b):
    if isinstance(a, Uninit) or isinstance(b, Uninit):
        return False
    return Dual.of(a).same(Dual.of(b))


def run(db, chk):
    chk.explanation = (
        "Compositional, exact symbolic interpretation (rational functions over opaque symbols, symbolic "
        "xtensor arrays and views) of diffusion_adi_eroder: factor tables, the Thomas solver on systems of "
        "size 3..8 (3..10 in the thorough tier) whose first and last rows are identity rows, as handed over by the sweep (residual identities), the line sweep with the solver summarised by fresh symbols "
        "(assembled systems compared with the Peaceman-Rachford half step), and the composition of the "
        "two sweeps in erode() with the sweep summarised.")
    chk.not_decided = ["tridiagonal systems larger than 10 unknowns (no inductive argument over the Thomas "
                       "recursion)", "floating-point rounding"]
    chk.rule("C14-D1", "ADI factor tables: uniform K/2/d^2 for a scalar diffusivity, face averages in the "
             "interior for an array, the two agreeing for a uniform array (symbolic identities)", min_instances=3)
    chk.rule("C14-D4", "after every sequence of three set_k_coef calls (two scalars, two arrays) on the same "
             "object the factor tables and k_coef() are those of the diffusivity set last", min_instances=64)
    chk.rule("C14-D5", "constructor -> erode() end to end on a grid with interior fixed-value / fixed-gradient "
             "nodes: the result is the scheme solved directly, whatever the node statuses", min_instances=2)
    chk.rule("C14-D2a", "Thomas solver: the returned vector satisfies the tridiagonal system (sizes 3..8, thorough 3..10, identity end rows as produced by the sweep)",
             min_instances=4)
    chk.rule("C14-D2b", "line sweep: assembled systems = implicit Peaceman-Rachford half step with "
             "fixed-value ends; solution stored per line; border lines copied", min_instances=6)
    chk.rule("C14-D2c", "erode(): sweep along rows, then along columns on the transposes with the factor "
             "roles exchanged; erosion = elevation - transposed result", min_instances=1)
    chk.rule("C14-D3", "end to end (array diffusivity -> factors -> two sweeps): the erosion equals elevation minus "
             "the scheme solved by an independent symbolic Gaussian elimination; zero on the borders; homogeneous of "
             "degree one in the elevation symbols (linearity)",
             min_instances=3)
    n_sc = 0
    B = ratfun.binop
    units = [u for u in UNITS if u in db.units]
    for uname in units:
        unit = db.units[uname]
        fns = {}
        for f in unit.fns.values():
            if f.cls == ADI and not f.is_ctor:
                fns.setdefault(f.name, []).append(f)
        for need in ("set_factors", "erode", "solve_tridiagonal", "solve_adi_row"):
            if need not in fns:
                raise AnalysisBroken("C14: diffusion_adi_eroder::%s not instantiated in %s" % (need, uname))
        dy, dx = Dual.sym("dy", 1.5), Dual.sym("dx", 2.0)
        dt = Dual.sym("dt", 1.25)

        _SETTERS.clear()
        for f in fns.get("set_k_coef", []):
            t0 = f.type(f.params[0]["t"]) if f.params else ""
            _SETTERS["array" if "xt::" in t0 else "scalar"] = f
        # ------------------------------------------------------------------ D1
        for mode in ("scalar", "array", "uniform array"):
            nr, nc = (4, 4) if chk.tier == "thorough" else (3, 4)
            n_sc += 1
            K = Dual.sym("K", 0.3)
            karr = sym_array("k", (nr, nc), lambda r, c: 0.2 + 0.03 * r + 0.05 * c) if mode == "array" else None
            if mode == "uniform array":
                karr = NDArr((nr, nc), K, "k")
            this = make_this(nr, nc, NDArr((0,), None, "m_factors_row"), NDArr((0,), None, "m_factors_col"),
                             k_scalar=K, k_array=karr)
            it = Interp(ADIWorld([dy, dx], [nr, nc]))
            bad = []
            try:
                it.call_fn(fns["set_factors"][0], this, [])
            except (ThrowEx, UninitUse, ShapeMismatch) as ex:
                bad.append("set_factors: %s" % ex)
            if not bad:
                FR, FC = this.fields["m_factors_row"], this.fields["m_factors_col"]
                dy2, dx2 = B("*", dy, dy), B("*", dx, dx)
                half = Dual.of(0.5)
                q = Dual.of(0.25)
                for r in range(1, nr - 1):
                    for c in range(1, nc - 1):
                        if mode in ("scalar", "uniform array"):
                            want_r = [B("/", B("*", K, half), dy2)] * 3
                            want_c = [B("/", B("*", K, half), dx2)] * 3
                        else:
                            k = karr.get
                            fr_, fc_ = B("/", q, dy2), B("/", q, dx2)
                            want_r = [B("*", fr_, B("+", k((r - 1, c)), k((r, c)))),
                                      B("*", B("/", fr_, 2), B("+", B("+", k((r - 1, c)), B("*", 2, k((r, c)))), k((r + 1, c)))),
                                      B("*", fr_, B("+", k((r, c)), k((r + 1, c))))]
                            want_c = [B("*", fc_, B("+", k((r, c - 1)), k((r, c)))),
                                      B("*", B("/", fc_, 2), B("+", B("+", k((r, c - 1)), B("*", 2, k((r, c)))), k((r, c + 1)))),
                                      B("*", fc_, B("+", k((r, c)), k((r, c + 1))))]
                        for j in range(3):
                            for arr, want, nm in ((FR, want_r, "row"), (FC, want_c, "col")):
                                if not same(arr.get((j, r, c)), want[j]):
                                    bad.append("%s factor (%d,%d,%d) = %r" % (nm, j, r, c, arr.get((j, r, c))))
            chk.ob("C14-D1", "[%s] set_factors with a %s diffusivity on a %dx%d grid" % (uname, mode, nr, nc), not bad,
                   where=fns["set_factors"][0].ploc, function=fns["set_factors"][0].bn, construct="factors(%s)" % mode,
                   detail="; ".join(bad[:2])[:400], extra={"unit": uname})

        # ------------------------------------------------------------------ D4: setter histories
        setters = {}
        for f in fns.get("set_k_coef", []):
            t0 = f.type(f.params[0]["t"]) if f.params else ""
            setters["array" if "xt::" in t0 else "scalar"] = f
        if set(setters) != {"scalar", "array"}:
            raise AnalysisBroken("C14: set_k_coef overloads (scalar, array) not both instantiated in %s" % uname)
        nr, nc = 3, 4
        K1, K2 = Dual.sym("K1", 0.3), Dual.sym("K2", 0.45)
        A1 = sym_array("k", (nr, nc), lambda r, c: 0.2 + 0.03 * r + 0.05 * c)
        A2 = sym_array("q", (nr, nc), lambda r, c: 0.25 + 0.02 * r + 0.04 * c)
        moves = {"scalar K1": ("scalar", K1), "scalar K2": ("scalar", K2), "array k": ("array", A1),
                 "array q": ("array", A2)}

        def expected(kind, val, r, c):
            dy2, dx2 = B("*", dy, dy), B("*", dx, dx)
            if kind == "scalar":
                return ([B("/", B("*", val, Dual.of(0.5)), dy2)] * 3, [B("/", B("*", val, Dual.of(0.5)), dx2)] * 3)
            k = val.get
            fr_, fc_ = B("/", Dual.of(0.25), dy2), B("/", Dual.of(0.25), dx2)
            return ([B("*", fr_, B("+", k((r - 1, c)), k((r, c)))),
                     B("*", B("/", fr_, 2), B("+", B("+", k((r - 1, c)), B("*", 2, k((r, c)))), k((r + 1, c)))),
                     B("*", fr_, B("+", k((r, c)), k((r + 1, c))))],
                    [B("*", fc_, B("+", k((r, c - 1)), k((r, c)))),
                     B("*", B("/", fc_, 2), B("+", B("+", k((r, c - 1)), B("*", 2, k((r, c)))), k((r, c + 1)))),
                     B("*", fc_, B("+", k((r, c)), k((r, c + 1))))])
        for seq in itertools.product(sorted(moves), repeat=3):
            n_sc += 1
            this = make_this(nr, nc, NDArr((0,), None, "m_factors_row"), NDArr((0,), None, "m_factors_col"),
                             k_scalar=Dual.sym("Kinit", 0.11))

            class SetWorld(ADIWorld):
                def before_call(self, it, fn, call, callee, frame):
                    nm = callee.bn.split("::")[-1]
                    if nm == "shape" and "grid" in (callee.cls or ""):
                        return PyVec([nr, nc])
                    return ADIWorld.before_call(self, it, fn, call, callee, frame)
            it = Interp(SetWorld([dy, dx], [nr, nc]), max_steps=2000000)
            bad = []
            try:
                for mv in seq:
                    kind, val = moves[mv]
                    it.call_fn(setters[kind], this, [val.copy() if kind == "array" else val, None])
            except (ThrowEx, UninitUse, ShapeMismatch) as ex:
                bad.append("%s" % ex)
            if not bad:
                kind, val = moves[seq[-1]]
                FR, FC = this.fields["m_factors_row"], this.fields["m_factors_col"]
                for r in range(1, nr - 1):
                    for c in range(1, nc - 1):
                        wr, wc = expected(kind, val, r, c)
                        for j in range(3):
                            if not same(FR.get((j, r, c)), wr[j]) or not same(FC.get((j, r, c)), wc[j]):
                                bad.append("factors (%d,%d,%d) are not those of the diffusivity set last" % (j, r, c))
                                break
                if not bad:
                    kc = it.rv(it.call_fn(fns["k_coef"][0], this, [])) if "k_coef" in fns else None
                    if kc is not None and is_arr(kc):
                        for r in range(nr):
                            for c in range(nc):
                                w_ = val if kind == "scalar" else val.get((r, c))
                                if not same(kc.get((r, c)), w_):
                                    bad.append("k_coef() does not return the diffusivity set last")
                                    break
            chk.ob("C14-D4", "[%s] set_k_coef sequence: %s" % (uname, " ; ".join(seq)), not bad,
                   where=setters[moves[seq[-1]][0]].ploc, function=setters[moves[seq[-1]][0]].bn,
                   construct="setter-history", detail="; ".join(bad[:2])[:300], extra={"unit": uname},
                   sample=(n_sc % 7 == 0))

        # ------------------------------------------------------------------ D2a: Thomas solver
        st = fns["solve_tridiagonal"][0]
        for n in range(3, 11 if chk.tier == "thorough" else 9):
            n_sc += 1
            lo = fresh("lo", (n,), 0.11)
            di = fresh("di", (n,), 1.9)
            up = fresh("up", (n,), 0.17)
            ve = fresh("ve", (n,), 0.8)
            # the systems the sweep hands over (established by D2b) have identity first / last rows;
            # a solver specialised to that shape is as good as a general one for this property
            for arr, v in ((lo, 0), (di, 1), (up, 0)):
                arr.set((0,), v)
                arr.set((n - 1,), v)
            this = make_this(3, 3, NDArr((0,), None, "fr"), NDArr((0,), None, "fc"), k_scalar=Dual.sym("K", 0.3))
            this.fields.update({"m_lower": lo, "m_diag": di, "m_upper": up, "m_vec": ve})
            it = Interp(ADIWorld([dy, dx], [3, 3]), max_steps=2000000)
            bad = []
            try:
                if st.params:
                    # the solution is handed back through an output parameter
                    from ..interp import Cell
                    outs = [Cell(NDArr((0,), None, "result"), "result") for _ in st.params]
                    r_ = it.rv(it.call_fn(st, this, outs))
                    cand = [it.rv(c) for c in outs if is_arr(it.rv(c)) and tuple(it.rv(c).shape) == (n,)]
                    x = r_ if is_arr(r_) else (cand[0] if cand else it.rv(outs[0]))
                else:
                    x = it.rv(it.call_fn(st, this, []))
            except (ThrowEx, UninitUse, ShapeMismatch) as ex:
                bad.append("solve_tridiagonal: %s" % ex)
                x = None
            if x is not None:
                if not is_arr(x) or tuple(x.shape) != (n,):
                    bad.append("returned %r" % (x,))
                else:
                    for i in range(n):
                        lhs = B("*", di.get((i,)), x.get((i,)))
                        if i > 0:
                            lhs = B("+", lhs, B("*", lo.get((i,)), x.get((i - 1,))))
                        if i < n - 1:
                            lhs = B("+", lhs, B("*", up.get((i,)), x.get((i + 1,))))
                        if isinstance(x.get((i,)), Uninit) or not same(lhs, ve.get((i,))):
                            bad.append("equation %d of the %dx%d system is not satisfied" % (i, n, n))
                            break
            chk.ob("C14-D2a", "[%s] Thomas solver on a symbolic %dx%d system" % (uname, n, n), not bad,
                   where=st.ploc, function=st.bn, construct="thomas(%d)" % n, detail="; ".join(bad[:2])[:300],
                   extra={"unit": uname})

        # the end-to-end cross-checks expand the whole computation: they are meaningful (and tractable: the
        # cancellations of the Thomas recursion are syntactic) only when the solver itself is right
        solver_ok = not any((not o["ok"]) and o["rule"] == "C14-D2a" for o in chk.obligations)
        if solver_ok:
            # ------------------------------------------------------------------ D5: through the constructor
            er = fns["erode"][0]
            ctors = [f for f in unit.fns.values() if f.cls == ADI and f.is_ctor and len(f.params) >= 2]
            arec = [r for r in unit.records if r["bn"] == ADI]
            if not ctors or not arec:
                raise AnalysisBroken("C14: diffusion_adi_eroder constructors / record not found in %s" % uname)
            for ctor in ctors:
                ktype = ctor.type(ctor.params[1]["t"])
                is_array = "xt::" in ktype
                for (nr, nc) in ((3, 4), (4, 4)):
                    n_sc += 1
                    E = fresh("e", (nr, nc), 1.0)
                    karr = sym_array("k", (nr, nc), lambda r, c: 0.2 + 0.03 * r + 0.05 * c)
                    Ksc = Dual.sym("K", 0.3)
                    it = Interp(ADIWorld([dy, dx], [nr, nc]), max_steps=5000000)
                    bad = []
                    res = None
                    try:
                        this = it.new_obj(ctor, arec[0])
                        this.fields["m_grid"] = Sym("grid", "g")
                        it.call_fn(ctor, this, [Sym("grid", "g"), karr.copy() if is_array else Ksc, None])
                        res = it.rv(it.call_fn(er, this, [E, dt]))
                    except (ThrowEx, UninitUse, ShapeMismatch, ndsym.IndexOutside) as ex:
                        bad.append("%s" % ex)
                    if res is not None:
                        FR, FC = this.fields["m_factors_row"], this.fields["m_factors_col"]
                        ref = reference_step(lambda r, c: E.get((r, c)), lambda j, r, c: FR.get((j, r, c)),
                                             lambda j, r, c: FC.get((j, r, c)), nr, nc, dt)
                        for r in range(nr):
                            for c in range(nc):
                                got = res.get((r, c))
                                border = r in (0, nr - 1) or c in (0, nc - 1)
                                want = Dual.of(0) if border else B("-", E.get((r, c)), ref[(r, c)])
                                if isinstance(got, Uninit) or not same(got, want):
                                    bad.append("erosion(%d,%d) differs from the directly solved scheme (the grid has interior "
                                               "fixed-value / fixed-gradient nodes, which must not matter)" % (r, c))
                    chk.ob("C14-D5", "[%s] constructed with a %s diffusivity on a %dx%d grid whose interior holds fixed-value "
                           "and fixed-gradient nodes: erode() end to end" % (uname, "array" if is_array else "scalar", nr, nc),
                           not bad, where=ctor.ploc, function=ctor.bn, construct="ctor-end-to-end",
                           detail="; ".join(bad[:2])[:400], extra={"unit": uname})

            # ------------------------------------------------------------------ D3: end to end
            for (nr, nc) in ((3, 3), (3, 4), (4, 3)) + (((4, 4), (3, 5)) if chk.tier == "thorough" else ()):
                n_sc += 1
                karr = sym_array("k", (nr, nc), lambda r, c: 0.2 + 0.03 * r + 0.05 * c)
                E = fresh("e", (nr, nc), 1.0)
                this = make_this(nr, nc, NDArr((0,), None, "m_factors_row"), NDArr((0,), None, "m_factors_col"),
                                 k_scalar=Dual.sym("K", 0.3), k_array=karr)
                it = Interp(ADIWorld([dy, dx], [nr, nc]), max_steps=5000000)
                bad = []
                res = None
                try:
                    it.call_fn(fns["set_factors"][0], this, [])
                    res = it.rv(it.call_fn(er, this, [E, dt]))
                except (ThrowEx, UninitUse, ShapeMismatch) as ex:
                    bad.append("%s" % ex)
                if res is not None:
                    FR, FC = this.fields["m_factors_row"], this.fields["m_factors_col"]
                    ref = reference_step(lambda r, c: E.get((r, c)), lambda j, r, c: FR.get((j, r, c)),
                                         lambda j, r, c: FC.get((j, r, c)), nr, nc, dt)
                    for r in range(nr):
                        for c in range(nc):
                            got = res.get((r, c))
                            border = r in (0, nr - 1) or c in (0, nc - 1)
                            want = Dual.of(0) if border else B("-", E.get((r, c)), ref[(r, c)])
                            if isinstance(got, Uninit) or not same(got, want):
                                bad.append("erosion(%d,%d) differs from the directly solved scheme%s" % (
                                    r, c, " (border must be zero)" if border else ""))
                            elif not border:
                                # linearity: the value is homogeneous of degree one in the elevation symbols
                                g = Dual.of(got)
                                if any(sum(1 for v in mono if v.startswith("e_")) != 1 for mono in g.num.terms) or \
                                        any(v.startswith("e_") for f in g.dfac for mono in f.terms for v in mono):
                                    bad.append("erosion(%d,%d) is not linear in the elevation" % (r, c))
                chk.ob("C14-D3", "[%s] set_factors + erode() end to end against an independent elimination on %dx%d"
                       % (uname, nr, nc), not bad, where=er.ploc, function=er.bn, construct="end-to-end",
                       detail="; ".join(bad[:3])[:400], extra={"unit": uname})
        # ------------------------------------------------------------------ D2b: line sweep
        for sweep in fns["solve_adi_row"]:
            for (nr, nc, holes) in ((3, 3, False), (4, 5, False), (4, 5, True)):
                n_sc += 1
                E = fresh("e", (nr, nc), 1.0)
                FRa = fresh("fr", (3, nr, nc), 0.10)
                FCa = fresh("fc", (3, nr, nc), 0.15)
                if holes:
                    # set_factors leaves the border entries of an array diffusivity's tables
                    # uninitialised: they must not reach any system or result
                    for arr in (FRa, FCa):
                        for (j, r, c) in list(arr.indices()):
                            if r in (0, nr - 1) or c in (0, nc - 1):
                                del arr.data[(j, r, c)]
                systems = {}

                class SweepWorld(ADIWorld):
                    def before_call(self, it, fn, call, callee, frame):
                        if callee.name == "solve_tridiagonal":
                            this = it.rv(frame.this)
                            k = len(systems)
                            x = fresh("x%d" % k, (nc,), 0.9 + 0.1 * k)
                            systems[k] = {n: this.fields[n].copy() for n in ("m_lower", "m_diag", "m_upper", "m_vec")}
                            systems[k]["x"] = x
                            from ..interp import out_param
                            return out_param(it, frame, call.get("a", []), 0, x)
                        return ADIWorld.before_call(self, it, fn, call, callee, frame)
                this = make_this(nr, nc, FRa, FCa, k_scalar=Dual.sym("K", 0.3))
                for nme in ("m_vec", "m_lower", "m_diag", "m_upper"):
                    this.fields[nme] = NDArr((nc,), None, nme)
                it = Interp(SweepWorld([dy, dx], [nr, nc]), max_steps=2000000)
                bad = []
                out = None
                try:
                    out = it.rv(it.call_fn(sweep, this, [E, FRa, FCa, nr, nc, dt]))
                except (ThrowEx, UninitUse, ShapeMismatch) as ex:
                    bad.append("solve_adi_row: %s" % ex)
                if out is not None:
                    if len(systems) != nr - 2:
                        bad.append("%d tridiagonal solves for %d interior lines" % (len(systems), nr - 2))
                    for k, r in enumerate(range(1, nr - 1)):
                        sysk = systems.get(k)
                        if sysk is None:
                            break
                        for c in range(nc):
                            end = c in (0, nc - 1)
                            want = {
                                "m_lower": Dual.of(0) if end else B("*", B("*", FCa.get((0, r, c)), dt), -1),
                                "m_diag": Dual.of(1) if end else B("+", 1, B("*", B("*", 2, FCa.get((1, r, c))), dt)),
                                "m_upper": Dual.of(0) if end else B("*", B("*", FCa.get((2, r, c)), dt), -1),
                                "m_vec": E.get((r, c)) if end else B("+", B("+", B("*", B("-", 1, B("*", B("*", 2, FRa.get((1, r, c))), dt)), E.get((r, c))),
                                                                               B("*", B("*", FRa.get((0, r, c)), E.get((r - 1, c))), dt)),
                                                                        B("*", B("*", FRa.get((2, r, c)), E.get((r + 1, c))), dt)),
                            }
                            for nme, wv in want.items():
                                if not same(sysk[nme].get((c,)), wv):
                                    bad.append("line %d, position %d: %s is %r" % (r, c, nme, sysk[nme].get((c,))))
                        for c in range(nc):
                            if not same(out.get((r, c)), sysk["x"].get((c,))):
                                bad.append("line %d: the solution is not stored at position %d" % (r, c))
                    for r in (0, nr - 1):
                        for c in range(nc):
                            if not same(out.get((r, c)), E.get((r, c))):
                                bad.append("border line %d is not copied unchanged" % r)
                                break
                chk.ob("C14-D2b", "[%s] line sweep (%s arguments) on %dx%d%s" % (
                    uname, "view" if "view" in sweep.type(sweep.params[0]["t"]) else "container", nr, nc,
                    ", border factor entries uninitialised" if holes else ""), not bad,
                    where=sweep.ploc, function=sweep.bn, construct="sweep", detail="; ".join(bad[:3])[:400],
                    extra={"unit": uname})

        # ------------------------------------------------------------------ D2c: composition
        er = fns["erode"][0]
        for (nr, nc) in ((3, 4), (4, 4)):
            n_sc += 1
            E = fresh("e", (nr, nc), 1.0)
            FRa = fresh("fr", (3, nr, nc), 0.10)
            FCa = fresh("fc", (3, nr, nc), 0.15)
            callsrec = []

            class ComposeWorld(ADIWorld):
                def before_call(self, it, fn, call, callee, frame):
                    if callee.name == "solve_adi_row":
                        args = [it.rv(it.eval(a, frame)) for a in call.get("a", [])]
                        k = len(callsrec)
                        res = fresh("T%d" % k, (args[3], args[4]), 0.6 + 0.2 * k)
                        callsrec.append((args, res))
                        return res
                    return ADIWorld.before_call(self, it, fn, call, callee, frame)
            this = make_this(nr, nc, FRa, FCa, k_scalar=Dual.sym("K", 0.3))
            it = Interp(ComposeWorld([dy, dx], [nr, nc]), max_steps=2000000)
            bad = []
            res = None
            try:
                res = it.rv(it.call_fn(er, this, [E, dt]))
            except (ThrowEx, UninitUse, ShapeMismatch) as ex:
                bad.append("erode: %s" % ex)
            if res is not None:
                if len(callsrec) != 2:
                    bad.append("%d line sweeps (expected 2)" % len(callsrec))
                else:
                    (a1, T), (a2, U) = callsrec
                    ok1 = a1[3] == nr and a1[4] == nc and same(a1[5], dt) and \
                        all(same(a1[0].get((r, c)), E.get((r, c))) for r in range(nr) for c in range(nc)) and \
                        all(same(a1[1].get((j, r, c)), FRa.get((j, r, c))) and same(a1[2].get((j, r, c)), FCa.get((j, r, c)))
                            for j in range(3) for r in range(nr) for c in range(nc))
                    if not ok1:
                        bad.append("first sweep is not solve_adi_row(elevation, row factors, column factors, nrows, ncols, dt)")
                    ok2 = a2[3] == nc and a2[4] == nr and same(a2[5], dt) and \
                        all(same(a2[0].get((c, r)), T.get((r, c))) for r in range(nr) for c in range(nc)) and \
                        all(same(a2[1].get((j, c, r)), FCa.get((j, r, c))) and same(a2[2].get((j, c, r)), FRa.get((j, r, c)))
                            for j in range(3) for r in range(nr) for c in range(nc))
                    if not ok2:
                        bad.append("second sweep is not the transposed problem with the factor roles exchanged")
                    for r in range(nr):
                        for c in range(nc):
                            got = res.get((r, c))
                            if isinstance(got, Uninit) or not same(got, B("-", E.get((r, c)), U.get((c, r)))):
                                bad.append("erosion(%d,%d) is not elevation - transposed second result" % (r, c))
                                break
            chk.ob("C14-D2c", "[%s] erode() composition on %dx%d" % (uname, nr, nc), not bad, where=er.ploc,
                   function=er.bn, construct="compose", detail="; ".join(bad[:3])[:400], extra={"unit": uname})

    if chk.want("C14-D6"):
        from .persist import sibling_setters
        from ..effects import Effects
        chk.rule("C14-D6", "the overloads of set_k_coef agree on the state they replace: nothing that erode() reads "
                 "and one overload updates is left describing the previous diffusivity by the other overload",
                 min_instances=2)
        sibling_setters(db, Effects(db), chk, "C14-D6", ADI)
    chk.count_scenarios(n_sc, True)
