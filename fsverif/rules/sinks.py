"""Abstract neighbourhood models for the A5 interpretation of the two sink resolvers (C01, C02).

Both resolvers touch elevations only through comparisons and std::nextafter(x, +inf).  Doubles
are totally ordered and nextafter yields the immediate successor, so a scenario is fully described
by the ORDER CLASS of each elevation relative to the reference value E of its parent:
    below (< E), pred (the predecessor of E), equal, next (the successor of E), above (> next(E)).
We instantiate each class with a representative double and let the interpreter evaluate
comparisons / nextafter exactly; any other arithmetic on an elevation aborts the analysis.
"""
import itertools
import math

from ..interp import out_param, Interp, World, Obj, Sym, PyVec, ThrowEx, ElemRef, Ref, NOT_HANDLED, Opaque
from ..sir import pp, strip, AnalysisBroken
from .routers import Table

INF = float("inf")
CLASSES = ("below", "pred", "equal", "next", "above")


def rep(cls, e):
    if cls == "below":
        return e - 1.0 if e != 0.0 else -1.0
    if cls == "pred":
        return math.nextafter(e, -INF)
    if cls == "equal":
        return e
    if cls == "next":
        return math.nextafter(e, INF)
    return e + 1.0 if e != 0.0 else 1.0


class Elev(list):
    """elevation array with a write log"""

    def __init__(self, vals):
        list.__init__(self, vals)
        self.writes = []

    def __deepcopy__(self, memo):
        return self

    def __setitem__(self, i, v):
        if not isinstance(v, float):
            raise AnalysisBroken("sink model: non-double %r stored as elevation" % (v,))
        self.writes.append((i, list.__getitem__(self, i), v))
        list.__setitem__(self, i, v)


class SinkWorld(World):
    """star/chain graph: adjacency given explicitly"""

    def __init__(self, elev, adjacency, masked, base_levels, dfs=None, receivers=None):
        self.elev = Elev(elev)
        self.adj = adjacency
        self.masked = masked
        self.base = base_levels
        self.dfs = dfs
        self.receivers = receivers
        self.graph = Sym("graph_impl", "g")
        self.grid = Sym("grid", "grid")

    def sym_binop(self, op, a, b):
        raise AnalysisBroken("sink model: arithmetic on %r %s %r" % (a, op, b))

    def before_call(self, it, fn, call, callee, frame):
        name = callee.bn.split("::")[-1]
        args = call.get("a", [])
        if name == "size" and (callee.cls or "").endswith("flow_graph_impl"):
            return len(self.elev)
        if name == "grid":
            return self.grid
        if name == "is_masked":
            return self.masked[it.rv(it.eval(args[0], frame))]
        if name == "is_base_level":
            return it.rv(it.eval(args[0], frame)) in self.base
        if name == "base_levels":
            return PyVec(list(self.base))
        if name == "nodes_indices":
            # the grid's own statuses are independent of the graph's base levels (set_base_levels):
            # the scenarios use a grid without any fixed-value node
            if not args:
                return PyVec(list(range(len(self.elev))))
            st = it.rv(it.eval(args[0], frame))
            return PyVec(sorted(getattr(self, "grid_status", {}).get(st, [])))
        if name == "neighbors_indices":
            i = it.rv(it.eval(args[0], frame))
            return out_param(it, frame, args, 1, PyVec(list(self.adj[i])))
        if name == "dfs_indices":
            return PyVec(list(self.dfs))
        if name == "receivers":
            return self.receivers
        return NOT_HANDLED

    def external(self, it, fn, call, frame):
        bn = call.get("bn", "")
        name = bn.split("::")[-1]
        args = call.get("a", [])
        obj = call.get("obj")
        if call.get("k") == "construct":
            ts = fn.type(call.get("t"))
            if ts.startswith("xt::xtensor_container<") and len(args) == 1:
                v = it.rv(it.eval(args[0], frame))
                if isinstance(v, PyVec):
                    return v
            if ts.startswith("xt::xtensor_container<") and len(args) >= 2:
                # container(shape, fill value[, layout]): one flag / value per node
                fillv = it.rv(it.eval(args[1], frame))
                if isinstance(fillv, (bool, int, float)):
                    return PyVec([fillv] * len(self.elev))
            return NOT_HANDLED
        if bn == "xt::zeros":
            return PyVec([False] * len(self.elev))
        if bn == "xt::flatten":
            return it.eval(args[0], frame)
        if bn == "std::isnan":
            return False
        if obj is not None:
            o = it.rv(it.eval(obj, frame))
            if isinstance(o, (Elev, PyVec)) and name in ("operator()", "flat", "operator[]", "at"):
                i = it.rv(it.eval(args[0], frame))
                if not isinstance(i, int) or i < 0 or i >= len(o):
                    raise ThrowEx(call, "out-of-range access %r" % (i,), fn.loc(call))
                return ElemRef(o, i)
            if isinstance(o, Table) and name in ("operator()", "flat", "operator[]", "at"):
                key = tuple(it.rv(it.eval(a, frame)) for a in args)
                return ElemRef(o, key)
        return NOT_HANDLED


def run_fn(fn, world, this, args, max_steps=200000):
    it = Interp(world, max_steps=max_steps)
    try:
        it.call_fn(fn, this, args)
        return None
    except ThrowEx as ex:
        return ex.text


# ------------------------------------------------------------------------------------ scenarios

def pflood_scenarios(kmax):
    """base level 0 with elevation E; k star neighbours 1..k; one chain node attached to node 1"""
    out = []
    for E in (1.0, 0.0, -2.5):
        for k in range(1, kmax + 1):
            opts = [(m, c) for m in (False, True) for c in CLASSES]
            for combo in itertools.product(opts, repeat=k):
                for chain in [None] + [(m, c) for m in (False, True) for c in CLASSES]:
                    out.append((E, combo, chain))
    return out


def build_pflood_world(sc):
    E, combo, chain = sc
    elev = [E]
    masked = [False]
    adj = {0: []}
    for j, (m, c) in enumerate(combo):
        idx = j + 1
        elev.append(rep(c, E))
        masked.append(m)
        adj[0].append(idx)
        adj[idx] = [0]
    if chain is not None:
        idx = len(elev)
        # chain class is relative to the ORIGINAL elevation of node 1
        elev.append(rep(chain[1], elev[1]))
        masked.append(chain[0])
        adj[1] = [0, idx]
        adj[idx] = [1]
    return SinkWorld(elev, adj, masked, [0]), list(elev), adj
