"""C16 — graph and elevation snapshots are faithful and read-only.

C16-T1 (A3/A4) copy completeness: W = members of flow_graph_impl written by any operator's apply
        (through all callees) or by the set_mask / set_base_levels API; Q = members a query on a
        snapshot can read (public const accessors, accumulate, compute_basins, pits).  Every member
        of W ∩ Q must be assigned from the source graph by the snapshot `_save` on every path
        (members re-derived by the query itself excepted; members written only by the set_* API
        may instead be forwarded to the snapshots by that API).  A column-0-only copy is accepted
        only for tables that every single-direction writer writes exclusively at column literal 0.
C16-T2 (A2) every public flow_graph method that may mutate the implementation is dominated by the
        read-only guard; the guard flag is written only by constructors.
C16-T3 elevation snapshots are whole-array copies, taken after the operator that precedes them.
Not decided: equality with a prefix-only graph on all inputs (follows from T1 together with C09).
"""
from ..effects import Effects, FnAnalysis, must_write_map, obj_key, path_str, first_index, \
    fields_of, cls_str
from ..flow import Walker
from ..sir import pp, strip, walk, calls, AnalysisBroken
from .. import model

# members re-derived on demand by the query that reads them (never needed in a snapshot)
DERIVED_ON_DEMAND = {
    "m_basins": "flow_graph::basins() recomputes it (compute_basins) before reading",
    "m_outlets": "cleared and refilled by compute_basins()",
    "m_pits": "cleared and refilled by pits()",
}
# members never written after construction by anything (configuration shared by construction)
QUERY_FNS = ("accumulate", "compute_basins", "pits", "is_masked", "is_base_level")


def member_of(path, root):
    """first field name if the path is rooted at `root`"""
    if path[0] != root:
        return None
    for e in path[1:]:
        if e[0] == "f":
            return e[1]
        break
    return None


class GuardWalker(Walker):
    def __init__(self, fn, is_mutation):
        super().__init__(fn)
        self.is_mutation = is_mutation
        self.sites = []

    def visit(self, node, st):
        if node.get("k") == "call" and self.is_mutation(node):
            self.sites.append((node, st.has("facts", "this->m_writeable")))
        return st


def run(db, chk):
    eff = Effects(db)
    chk.explanation = (
        "Effect summaries of every operator implementation (writes to flow_graph_impl members, "
        "with column index shapes), of the query functions (reads) and a must-write analysis of "
        "the snapshot _save on all of its paths: every member that operators write and snapshot "
        "queries read is copied. Guard-dominance analysis of the public mutators of flow_graph. "
        "Per grid type (7 instantiations).")
    chk.not_decided = ["equality of a snapshot with a prefix-only graph on all inputs (follows "
                       "from copy completeness + C09 purity, not decided as such)"]
    chk.rule("C16-T1", "every flow_graph_impl member that operators (or the set_* API) write and "
             "snapshot queries read is assigned from the source graph by _save on every path; "
             "column-0-only copies only for tables written exclusively at column 0 by "
             "single-direction operators", min_instances=10)
    chk.rule("C16-T6", "the snapshot copy interpreted on concrete-shaped tables of distinct tokens: every table of "
             "the snapshot equals the graph's afterwards (column 0 for a single-direction snapshot, whatever the "
             "width of the graph's tables)", min_instances=6)
    chk.rule("C16-T2", "every mutating public method of flow_graph is dominated by the read-only "
             "guard; m_writeable is written only by constructors", min_instances=4)
    chk.rule("C16-T3", "elevation snapshots are whole-array copies taken after the preceding "
             "operator's apply", min_instances=2)

    for uname, unit in sorted(db.units.items()):
        ops = model.operator_classes(unit)
        impls = model.operator_impls(db, uname)
        # ---------------------------------------------------------------- W
        W = {}          # member -> list of (writer, path, how)
        for op, d in impls.items():
            if d["apply"] is None:
                continue
            s = eff.summary(d["apply"])
            for (k, p, h) in s.effects:
                if k != "w":
                    continue
                m = member_of(p, ("p", 0))
                if m is not None:
                    W.setdefault(m, []).append((op, p, h))
        api_written = {}
        for fn in db.fns(unit=uname, pred=lambda f: f.cls == model.GRAPH_IMPL and
                         f.name in ("set_mask", "set_base_levels")):
            s = eff.summary(fn)
            for (k, p, h) in s.effects:
                if k == "w":
                    m = member_of(p, ("this",))
                    if m is not None:
                        api_written.setdefault(m, set()).add(fn.name)
        if not W or not api_written:
            raise AnalysisBroken("C16-T1: no operator writes / set_* API found in unit %s" % uname)
        # ---------------------------------------------------------------- Q
        Q = {}
        for fn in db.fns(unit=uname, pred=lambda f: f.cls == model.GRAPH_IMPL and not f.is_ctor):
            is_getter = fn.is_const and fn.acc == "public"
            if not (is_getter or fn.name in QUERY_FNS):
                continue
            s = eff.summary(fn)
            for p in s.reads() | s.ret:
                m = member_of(p, ("this",))
                if m is not None:
                    Q.setdefault(m, set()).add(fn.name)
        # ---------------------------------------------------------------- _save
        save = [f for f in impls.get("fastscapelib::flow_snapshot", {}).get("fns", [])
                if f.name == "_save" and "flow_graph_impl" in f.type(f.params[0]["t"])]
        save_el = [f for f in impls.get("fastscapelib::flow_snapshot", {}).get("fns", [])
                   if f.name == "_save" and "flow_graph_impl" not in f.type(f.params[0]["t"])]
        if len(save) != 1 or len(save_el) != 1:
            raise AnalysisBroken("C16: snapshot _save overloads not found in unit %s" % uname)
        sfn = save[0]
        an = FnAnalysis(eff, sfn)
        an.run()
        mw = must_write_map(an, sfn.body)
        copied = {}
        for key, v in mw.items():
            m = member_of(key, ("p", 1))
            if m is None:
                continue
            from_src = any(member_of(r, ("p", 0)) == m for r in v["reads"])
            col0 = [p for p in v["paths"] if first_index(p) is not None]
            copied[m] = {"from_src": from_src, "col_only": bool(col0), "paths": v["paths"],
                         "loc": v["loc"]}
        # API forwarding alternative: flow_graph::set_X also updates the snapshot graphs
        forwarded = set()
        for fn in db.fns(unit=uname, pred=lambda f: f.cls == model.FLOW_GRAPH and
                         f.name in ("set_mask", "set_base_levels")):
            s = eff.summary(fn)
            snap_fields = set()
            for (k, p, h) in s.effects:
                if k == "w" and any(x in ("m_graph_impl_snapshots", "m_graph_snapshots") for x in fields_of(p)):
                    snap_fields |= set(fields_of(p))
            forwarded |= snap_fields

        single_ops = [op for op, fl in ops.items() if fl["out_flowdir"] == "single"]
        need = sorted((set(W) | set(api_written)) & set(Q))
        ref_members = set()
        for (u2, rec) in db.records(model.GRAPH_IMPL):
            if u2.name == uname:
                ref_members |= {f["n"] for f in rec["fields"] if f.get("isref")}
        for m in need:
            if m in DERIVED_ON_DEMAND or m in ref_members:
                continue  # reference members designate the same object in graph and snapshot
            writers = sorted({w[0].split("::")[-1] for w in W.get(m, [])} | api_written.get(m, set()))
            inst = "%s (written by %s; read by %s) [%s]" % (m, ",".join(writers),
                                                            ",".join(sorted(Q[m])[:4]), uname)
            c = copied.get(m)
            ok = c is not None and c["from_src"]
            detail = ""
            if not ok:
                # (forwarding a setter of the parent graph to its snapshots is NOT an alternative:
                #  the snapshot would follow a later re-configuration without any update)
                detail = "_save never assigns it from the source graph on some path: the " \
                         "snapshot keeps a stale / default value%s" % (
                             " (the parent's setters forward it instead: a re-configuration of the parent "
                             "leaks into the snapshot of the previous update)" if m in forwarded else "")
            elif c["col_only"]:
                # column-0 copy on the single-flow branch: all single-direction writers at column 0?
                bad = []
                for (op, p, h) in W.get(m, []):
                    if op not in single_ops:
                        continue
                    fi = first_index(p)
                    if fi is None:
                        if h == "whole":
                            continue
                        bad.append((op, p))
                    elif len(fi) < 2 or fi[1] != ("lit", 0):
                        bad.append((op, p))
                copied_cols = set()
                for p in c["paths"]:
                    fi = first_index(p)
                    if fi is not None and len(fi) > 1:
                        copied_cols.add(fi[1])
                if bad and copied_cols <= {("lit", 0)}:
                    ok = False
                    detail = "only column 0 is copied on the single-direction branch but %s " \
                             "writes %s" % (bad[0][0].split("::")[-1], path_str(bad[0][1]))
            chk.ob("C16-T1", inst, ok, where=(c or {}).get("loc") or sfn.ploc, function=sfn.bn,
                   construct="copy(%s)" % m, detail=detail, extra={"unit": uname})

        # ---------------------------------------------------------------- T3
        an2 = FnAnalysis(eff, save_el[0])
        an2.run()
        mw2 = must_write_map(an2, save_el[0].body)
        v = mw2.get((("p", 1),))
        ok = v is not None and "whole" in v["how"] and (("p", 0),) in v["reads"]
        chk.ob("C16-T3", "elevation snapshot = whole copy of the current elevation [%s]" % uname, ok,
               where=save_el[0].ploc, function=save_el[0].bn, construct="elevation-copy",
               extra={"unit": uname})
        for fn in db.fns(unit=uname, pred=lambda f: f.cls == model.FLOW_GRAPH and f.name == "update_routes"):
            seq = []

            elev_args = {}

            class W3(Walker):
                def visit(self, node, st):
                    if node.get("k") == "call":
                        nm = node.get("bn", "").split("::")[-1]
                        if nm == "apply" and "flow_operator_impl_facade" in node.get("bn", ""):
                            st = st.add("ev", "applied")
                            if len(node.get("a", [])) >= 2:
                                elev_args["apply"] = pp(strip(node["a"][1]))
                        if nm == "save" and "flow_operator_impl_facade" in node.get("bn", ""):
                            seq.append((node, st.has("ev", "applied")))
                            if len(node.get("a", [])) >= 3:
                                elev_args["save"] = pp(strip(node["a"][2]))
                    return st
            W3(fn).run()
            if not seq:
                raise AnalysisBroken("C16-T3: update_routes does not call save()")
            same = elev_args.get("apply") is not None and elev_args.get("apply") == elev_args.get("save")
            chk.ob("C16-T3", "update_routes hands save() the same (current) elevation as apply(): "
                   "%s / %s [%s]" % (elev_args.get("apply"), elev_args.get("save"), uname), same,
                   where=fn.ploc, function=fn.bn, construct="save-elevation-arg",
                   detail="" if same else "elevation snapshots would not be taken from the elevation "
                   "the preceding operators produced", extra={"unit": uname})
            for node, ok in seq:
                chk.ob("C16-T3", "save() follows apply() of the same operator in update_routes [%s]" % uname,
                       ok, where=fn.loc(node), function=fn.bn, construct="save-after-apply",
                       extra={"unit": uname})

        # ---------------------------------------------------------------- T2
        # interpreted: each public mutator is run on an object in the state the snapshot constructor
        # leaves (it must throw before touching anything) and on one in the state the public
        # constructor leaves (it must get past its guard) -- whatever member / type encodes the mode
        from ..interp import Interp, World, Obj, Sym, ThrowEx, NOT_HANDLED, Frame
        unit_ = db.units[uname]
        frec = [r for r in unit_.records if r["bn"] == model.FLOW_GRAPH]
        snap_ctor = [f for f in unit_.fns.values() if f.cls == model.FLOW_GRAPH and f.is_ctor and len(f.params) == 2
                     and "bool" in f.type(f.params[1]["t"])]
        pub_ctor = [f for f in unit_.fns.values() if f.cls == model.FLOW_GRAPH and f.is_ctor and len(f.params) == 2
                    and "flow_operator_sequence" in f.type(f.params[1]["t"])]
        if not frec or not snap_ctor or not pub_ctor:
            raise AnalysisBroken("C16-T2: flow_graph record / constructors not found in %s" % uname)

        class _Reached(Exception):
            pass

        class GuardWorld(World):
            def before_call(self, it, f2, call, callee, frame):
                if callee.cls == model.FLOW_GRAPH and (callee.is_const or any(n.get("k") == "throw" for n in walk(callee.body))):
                    return NOT_HANDLED          # a guard helper of the facade itself
                raise _Reached()

            def external(self, it, f2, call, frame):
                bn = call.get("bn", "") or ""
                if call.get("k") == "construct" or bn.startswith("std::basic_string") or bn.startswith("std::operator"):
                    return NOT_HANDLED
                raise _Reached()

        def state_after(ctor):
            it = Interp(GuardWorld())
            o = Obj(model.FLOW_GRAPH, {})
            for fld in frec[0]["fields"]:
                v = Sym("member", fld["n"])
                if fld.get("init") is not None:
                    try:
                        v = it.rv(it.eval(fld["init"], Frame(ctor, o)))
                    except (AnalysisBroken, _Reached):
                        pass
                o.fields[fld["n"]] = v
            for ini in ctor.d.get("inits") or []:
                if ini.get("field") and ini.get("init") is not None:
                    try:
                        v = it.rv(it.eval(ini["init"], Frame(ctor, o)))
                        if isinstance(v, (bool, int)):
                            o.fields[ini["field"]] = v
                    except (AnalysisBroken, _Reached, ThrowEx):
                        pass
            return o
        mutators = []
        for fn in db.fns(unit=uname, pred=lambda f: f.cls == model.FLOW_GRAPH and not f.is_ctor
                         and f.acc == "public" and not f.is_lambda):
            def is_mutation(node):
                bnm = node.get("bn", "")
                name = bnm.split("::")[-1]
                obj = node.get("obj")
                if obj is not None and "m_impl_ptr" in pp(obj) and node.get("cls") == model.GRAPH_IMPL \
                        and not node.get("cm"):
                    return name not in ("compute_basins", "pits")     # derived on demand, allowed on snapshots
                pw = node.get("pw") or []
                for i, a in enumerate(node.get("a", [])):
                    if i < len(pw) and pw[i] and "m_impl_ptr" in pp(a):
                        return True
                return False
            if any(is_mutation(c) for c in calls(fn.body)):
                mutators.append(fn)
        if not mutators:
            raise AnalysisBroken("C16-T2: no public mutator of flow_graph found in %s" % uname)
        for fn in mutators:
            verdicts = {}
            for label, ctor in (("snapshot", snap_ctor[0]), ("writable", pub_ctor[0])):
                it = Interp(GuardWorld(), max_steps=20000)
                o = state_after(ctor)
                args = [Sym("arg", p.get("n") or "a") for p in fn.params]
                try:
                    it.call_fn(fn, o, args)
                    verdicts[label] = "returned"
                except ThrowEx:
                    verdicts[label] = "threw"
                except _Reached:
                    verdicts[label] = "passed the guard"
                except AnalysisBroken:
                    verdicts[label] = "passed the guard"
            ok = verdicts["snapshot"] == "threw" and verdicts["writable"] != "threw"
            chk.ob("C16-T2", "%s: refused on a snapshot graph (%s), allowed on a writable graph (%s) [%s]"
                   % (fn.name, verdicts["snapshot"], verdicts["writable"], uname), ok, where=fn.ploc, function=fn.bn,
                   construct="mutation-guard(%s)" % fn.name,
                   detail="" if ok else ("a snapshot graph (read-only) can be mutated through this method"
                                         if verdicts["snapshot"] != "threw" else "the method throws on a writable graph too"),
                   extra={"unit": uname})
        # the members that encode the mode: those the two constructors leave with different constants
        sa, sb = state_after(snap_ctor[0]), state_after(pub_ctor[0])
        mode_members = sorted(k for k in sa.fields if isinstance(sa.fields[k], (bool, int)) and
                              isinstance(sb.fields.get(k), (bool, int)) and sa.fields[k] != sb.fields[k])
        chk.ob("C16-T2", "the snapshot constructor leaves the graph in a mode distinct from the public constructor's "
               "(members %s) [%s]" % (mode_members, uname), bool(mode_members), where=snap_ctor[0].ploc,
               function=snap_ctor[0].bn, construct="ctor(mode)", extra={"unit": uname})
        bad_w = []
        for fn in db.fns(unit=uname, pred=lambda f: f.cls == model.FLOW_GRAPH):
            s_ = eff.summary(fn)
            for (k, p, h) in s_.effects:
                if k == "w" and member_of(p, ("this",)) in mode_members and not fn.is_ctor:
                    bad_w.append(fn.name)
        chk.ob("C16-T2", "the mode members %s are written only by constructors [%s]" % (mode_members, uname), not bad_w,
               where="fastscapelib/flow/flow_graph.hpp", function="fastscapelib::flow_graph",
               construct="writers(mode)", detail=("written by %s" % bad_w) if bad_w else "",
               extra={"unit": uname})
    # ---------------------------------------------------------------- T6: the copy itself, interpreted
    save_copy_rule(db, chk)
    chk.absorb(db, "C19", {"C19-L2"}, "C16-T4", "basins / pits of a (snapshot) graph are recomputed from the tables it "
               "holds at the time of the query (shared with C19-L2): the snapshot operator overwrites those tables "
               "without going through the facade", min_instances=3)
    chk.absorb(db, "C20", {"C20-T1", "C20-T5"}, "C16-T7", "every snapshot graph is allocated with the columns of the state it "
               "saves (a multiple-direction state needs all receiver columns) and does not claim to be single-direction "
               "when it is not (shared with C20-T1 / T5)",
               pred=lambda o: "snapshot(" in o["instance"] or "single_flow=false" in o["instance"], min_instances=50)
    chk.absorb(db, "C04", {"C04-S1"}, "C16-T5", "the single-direction state a snapshot copies is complete after the "
               "router: count and weight one are rewritten at every update (shared with C04-S1)", min_instances=100)


def save_copy_rule(db, chk):
    """C16-T6: flow_snapshot's _save(graph, snapshot) interpreted on concrete-shaped arrays of distinct
    tokens: a single-direction snapshot (one receiver column) of a graph that is wider (another
    operator of the sequence is multiple-direction) and a multiple-direction snapshot; afterwards
    every table of the snapshot equals the source, column 0 for the single-direction snapshot"""
    from ..interp import SeqView, Interp, World, Obj, PyVec, Sym, ThrowEx, NOT_HANDLED, OutOfRange
    from .. import ndsym
    from ..ndsym import NDArr, is_arr, ShapeMismatch, IndexOutside
    from .C14 import ADIWorld, UninitUse

    class FlatPtr:
        def __init__(self, arr, pos=0):
            self.arr, self.pos = arr, pos

        def __deepcopy__(self, memo):
            return self

    def flat_index(arr, k):
        idx = []
        for n_ in reversed(arr.shape):
            idx.append(k % n_)
            k //= n_
        if k:
            raise IndexOutside("flat position beyond the end of %s" % arr.name)
        return tuple(reversed(idx))

    class SaveWorld(ADIWorld):
        def __init__(self, n):
            ADIWorld.__init__(self, [1, 1], [n])
            self.n = n

        def before_call(self, it, fn, call, callee, frame):
            nm = callee.bn.split("::")[-1]
            if nm == "size" and (callee.cls or "").endswith("flow_graph_impl"):
                return self.n
            return NOT_HANDLED

        def external(self, it, fn, call, frame):
            bn = call.get("bn", "") or ""
            name = bn.split("::")[-1]
            args = call.get("a", [])
            obj = call.get("obj")

            def V(i):
                return it.rv(it.eval(args[i], frame))
            if bn in ("xt::col", "xt::row") and len(args) == 2:
                arr, k = V(0), V(1)
                if is_arr(arr) and len(arr.shape) == 2:
                    return ndsym.view(arr, ["all", k] if bn == "xt::col" else [k, "all"])
            if bn in ("std::copy_n", "std::copy") and len(args) == 3:
                a0, a1, a2 = V(0), V(1), V(2)
                if isinstance(a0, FlatPtr) and isinstance(a2, FlatPtr):
                    cnt = a1 if bn == "std::copy_n" else (a1.pos - a0.pos if isinstance(a1, FlatPtr) else None)
                    if not isinstance(cnt, int):
                        raise AnalysisBroken("C16-T6: copy over an abstract count")
                    vals = [a0.arr.get(flat_index(a0.arr, a0.pos + k)) for k in range(cnt)]
                    for k, v in enumerate(vals):
                        a2.arr.set(flat_index(a2.arr, a2.pos + k), v)
                    return FlatPtr(a2.arr, a2.pos + cnt)
            if obj is not None:
                oref = it.eval(obj, frame)
                o = it.rv(oref)
                if is_arr(o) and name in ("data", "begin", "cbegin") and not args:
                    return FlatPtr(o, 0)
                if is_arr(o) and name in ("end", "cend") and not args:
                    tot = 1
                    for d in o.shape:
                        tot *= d
                    return FlatPtr(o, tot)
                if is_arr(o) and name == "storage" and not args:
                    return o
                if isinstance(o, PyVec) and name == "operator=" and not isinstance(o, SeqView):
                    v = V(0)
                    o[:] = list(v)
                    return oref
            return ADIWorld.external(self, it, fn, call, frame)

    units = sorted(db.units) if chk.tier == "thorough" else [u for u in ("raster_queen", "profile") if u in db.units]
    n_inst = 0
    for uname in units:
        impls = model.operator_impls(db, uname)
        save = [f for f in impls.get("fastscapelib::flow_snapshot", {}).get("fns", [])
                if f.name == "_save" and "flow_graph_impl" in f.type(f.params[0]["t"])]
        if len(save) != 1:
            raise AnalysisBroken("C16-T6: snapshot _save(graph, snapshot) not found in unit %s" % uname)
        sfn = save[0]
        rec = [r for r in sfn.unit.records if r["bn"] == model.GRAPH_IMPL]
        if not rec:
            raise AnalysisBroken("C16-T6: flow_graph_impl record missing in %s" % uname)
        n, WIDE, DW = 3, 3, 4

        def tokens(name, shape, tag):
            a = NDArr(shape, None, name)
            for idx in a.indices():
                a.data[idx] = "%s%s%s" % (tag, name, list(idx))
            return a

        def graph(tag, single, ncols):
            f = {}
            for fld in rec[0]["fields"]:
                nm, ts = fld["n"], sfn.unit.type(fld["t"])
                if fld.get("isref"):
                    f[nm] = Sym("grid", "g")
                elif nm in ("m_receivers", "m_receivers_distance", "m_receivers_weight"):
                    f[nm] = tokens(nm, (n, ncols), tag)
                elif nm == "m_donors":
                    f[nm] = tokens(nm, (n, DW), tag)
                elif ts.startswith("xt::xtensor_container<") or ts.startswith("xt::xarray_container<"):
                    f[nm] = tokens(nm, (n + (1 if nm == "m_bfs_levels" else 0),), tag)
                elif ts.startswith("std::vector<") or ts.startswith("std::unordered_set<") or ts.startswith("std::set<"):
                    f[nm] = PyVec(["%s%s[%d]" % (tag, nm, k) for k in range(2)])
                elif ts == "bool":
                    f[nm] = (tag == "src") if nm != "m_single_flow" else single
                else:
                    f[nm] = "%s%s" % (tag, nm)
            o = Obj(model.GRAPH_IMPL, f)
            # the member(s) behind single_flow() are found by probing the getter, not by name or type
            getter = [g for g in sfn.unit.fns.values() if g.cls == model.GRAPH_IMPL and g.name == "single_flow" and not g.params]
            if not getter:
                raise AnalysisBroken("C16-T6: flow_graph_impl::single_flow() not instantiated")
            scalars = [fld["n"] for fld in rec[0]["fields"] if not fld.get("isref") and not is_arr(f[fld["n"]])
                       and not isinstance(f[fld["n"]], PyVec)]
            probe = Interp(SaveWorld(n))
            for nm in scalars:
                for val in (True, False, 0, 1):
                    saved = o.fields[nm]
                    o.fields[nm] = val
                    try:
                        r = probe.rv(probe.call_fn(getter[0], o, []))
                    except (AnalysisBroken, ThrowEx):
                        r = None
                    if isinstance(r, (bool, int)) and bool(r) == bool(single):
                        # does the getter really depend on this member?
                        o.fields[nm] = (not val) if isinstance(val, bool) else 1 - val
                        try:
                            r2 = probe.rv(probe.call_fn(getter[0], o, []))
                        except (AnalysisBroken, ThrowEx):
                            r2 = None
                        o.fields[nm] = val
                        if isinstance(r2, (bool, int)) and bool(r2) != bool(single):
                            return o
                    o.fields[nm] = saved
            raise AnalysisBroken("C16-T6: no member of flow_graph_impl makes single_flow() return %r" % single)
        for label, snap_single, src_cols in (("single-direction snapshot of a wider graph", True, WIDE),
                                             ("single-direction snapshot of a single-column graph", True, 1),
                                             ("multiple-direction snapshot", False, WIDE)):
            n_inst += 1
            src = graph("src", src_cols == 1, src_cols)
            dst = graph("old", snap_single, 1 if snap_single else WIDE)
            old_shapes = {k: tuple(v.shape) for k, v in dst.fields.items() if is_arr(v)}
            it = Interp(SaveWorld(n), max_steps=200000)
            bad = []
            try:
                it.call_fn(sfn, Obj(sfn.cls, {"m_op_ptr": Obj("fastscapelib::flow_snapshot", {})}), [src, dst])
            except (ThrowEx, UninitUse, ShapeMismatch, IndexOutside, OutOfRange) as ex:
                bad.append(str(ex)[:160])
            if not bad:
                for fld in rec[0]["fields"]:
                    nm = fld["n"]
                    if fld.get("isref") or nm in ("m_single_flow",) or nm in DERIVED_ON_DEMAND:
                        continue
                    a, b = src.fields[nm], dst.fields[nm]
                    # members _save does not touch are T1's business (copy completeness): only what was
                    # written is compared here
                    if is_arr(b) and all(str(b.get(i)).startswith("old") for i in b.indices()) and \
                            tuple(b.shape) == tuple(old_shapes.get(nm, ())):
                        continue
                    if isinstance(b, PyVec) and all(str(x).startswith("old") for x in b):
                        continue
                    if nm in ("m_receivers", "m_receivers_distance", "m_receivers_weight") and snap_single:
                        if not is_arr(b) or tuple(b.shape) != (n, 1):
                            bad.append("%s of the snapshot has shape %r" % (nm, getattr(b, "shape", None)))
                        else:
                            for i in range(n):
                                if b.get((i, 0)) != a.get((i, 0)):
                                    bad.append("%s(%d, 0) of the snapshot is %r, the graph has %r"
                                               % (nm, i, b.get((i, 0)), a.get((i, 0))))
                                    break
                    elif is_arr(a):
                        if not is_arr(b) or tuple(a.shape) != tuple(b.shape) or \
                                any(a.get(i) != b.get(i) for i in a.indices()):
                            bad.append("%s of the snapshot differs from the graph's" % nm)
                    elif isinstance(a, PyVec):
                        if list(a) != list(b):
                            bad.append("%s of the snapshot differs from the graph's" % nm)
                    elif a != b and not str(b).startswith("old") is False:
                        pass
                    if isinstance(a, (bool, str)) and not is_arr(a) and nm not in ("m_single_flow",) and a != b \
                            and nm in ("m_mask_initialized",):
                        bad.append("%s of the snapshot is %r, the graph has %r" % (nm, b, a))
            chk.ob("C16-T6", "[%s] %s" % (uname, label), not bad, where=sfn.ploc, function=sfn.bn,
                   construct="save-copy", detail="; ".join(bad[:3])[:400], extra={"unit": uname})
    if n_inst == 0:
        raise AnalysisBroken("C16-T6: no unit analysed")
