"""C03 — flow accumulation is the upstream integral and conserves the source.

C03-R1 (A4) the output array is reset before it is accumulated into, in every accumulate overload
        (returning overloads allocate a fresh array and go through the same code).
C03-R2 the four public overloads of flow_graph::accumulate reach the implementation's accumulate.
C03-R3 (A5, free polynomial domain, exhaustive over small graphs): flow_graph_impl::accumulate is
        interpreted on every flow graph of up to 3 (quick) / 4 (thorough) nodes given in bottom-up
        order -- each non-root node draining to any non-empty set of earlier nodes, roots being
        their own receiver -- with SYMBOLIC source, cell areas and partition weights.  The result
        at every node must be the polynomial  area_i*src_i + sum over donors d of w(d,i)*acc_d,
        (conservation at the terminal nodes then follows algebraically from the recurrence when
        each node's weights sum to one, which C05-M3 / C04-S1 decide).
C03-R4 (A2) the sweep visits the reverse of the bottom-up order.
Not decided: floating-point rounding; that routers produce weights summing to one (C05-M3).
"""
import itertools

from ..interp import Interp, World, Obj, PyVec, Poly, ThrowEx, NOT_HANDLED, ElemRef, Sym, explore
from ..effects import Effects, fields_of
from ..sir import pp, strip, walk, calls, AnalysisBroken
from .. import model
from .routers import Table
from . import persist

UNITS = ["raster_queen", "profile", "trimesh"]


class AccArray(dict):
    def __init__(self):
        dict.__init__(self)
        self.filled = None

    def __deepcopy__(self, memo):
        return self

    def __missing__(self, k):
        if self.filled is None:
            return Poly.sym("STALE_CONTENT_OF_acc[%r]" % (k,))
        return self.filled


class AccWorld(World):
    def __init__(self, order, scalar_src):
        self.order = order
        self.scalar_src = scalar_src
        self.src = Sym("srcarray", "src")

    def sym_binop(self, op, a, b):
        raise AnalysisBroken("accumulate model: stale / unmodelled value in arithmetic: %r %s %r" % (a, op, b))

    def sym_cmp(self, op, a, b):
        if isinstance(a, Poly) or isinstance(b, Poly):
            return None         # sources / accumulated values of either sign: undetermined, fork
        raise AnalysisBroken("accumulate model: comparison %r %s %r" % (a, op, b))

    def before_call(self, it, fn, call, callee, frame):
        name = callee.bn.split("::")[-1]
        args = call.get("a", [])
        if name == "nodes_indices_bottomup":
            return PyVec(list(self.order))
        if name == "nodes_areas":
            i = it.rv(it.eval(args[0], frame))
            return Poly.sym("a%d" % i)
        if name == "shape":
            return Sym("shape", "s")
        if name == "size":
            return len(self.order)
        if name == "grid":
            return Sym("grid", "g")
        if name in ("rbegin", "rend", "begin", "end") and "stl_container_iterator_wrapper" in (callee.cls or ""):
            seq = it.rv(it.eval(call["obj"], frame))
            from ..interp import Iter
            if not isinstance(seq, list):
                raise AnalysisBroken("accumulate model: iteration over %r" % (seq,))
            return {"begin": Iter(seq, 0, 1), "end": Iter(seq, len(seq), 1),
                    "rbegin": Iter(seq, len(seq), -1), "rend": Iter(seq, 0, -1)}[name]
        return NOT_HANDLED

    def member(self, it, fn, node, base, frame):
        return NOT_HANDLED

    def external(self, it, fn, call, frame):
        bn = call.get("bn", "")
        name = bn.split("::")[-1]
        args = call.get("a", [])
        obj = call.get("obj")
        if bn == "xt::broadcast":
            return self.src
        if bn == "std::forward":
            return NOT_HANDLED
        if obj is not None:
            o = it.rv(it.eval(obj, frame))
            if isinstance(o, Table) and name in ("operator()", "flat", "operator[]", "at"):
                key = tuple(it.rv(it.eval(a, frame)) for a in args)
                return ElemRef(o, key)
            if isinstance(o, AccArray):
                if name in ("flat", "operator()", "operator[]"):
                    return ElemRef(o, it.rv(it.eval(args[0], frame)))
                if name == "fill":
                    o.clear()
                    o.filled = it.rv(it.eval(args[0], frame))
                    return None
            if isinstance(o, Sym) and o.kind == "srcarray" and name in ("operator()", "flat", "operator[]"):
                i = it.rv(it.eval(args[0], frame))
                return Poly.sym("s") if self.scalar_src else Poly.sym("s%d" % i)
        return NOT_HANDLED


def graphs(n):
    """all flow graphs on nodes 0..n-1 listed in bottom-up order: node 0 is a root; node i is a
    root (own receiver) or drains to a non-empty subset of earlier nodes"""
    def rec_sets(i):
        out = [("root",)]
        earlier = list(range(i))
        for k in range(1, len(earlier) + 1):
            for sub in itertools.combinations(earlier, k):
                out.append(sub)
        return out
    per_node = [[("root",)]] + [rec_sets(i) for i in range(1, n)]
    for combo in itertools.product(*per_node):
        yield combo


def run(db, chk):
    eff = Effects(db)
    nmax = 4 if chk.tier == "thorough" else 3
    chk.explanation = (
        "Exhaustive interpretation of flow_graph_impl::accumulate over an exact symbolic domain "
        "(polynomials over opaque source / area / weight symbols) on every flow graph of up to %d "
        "nodes in bottom-up order, array and scalar source, compared with the upstream-integral "
        "recurrence; must-kill analysis of the output array; overload delegation." % nmax)
    chk.not_decided = ["floating-point rounding of the sums", "weights summing to one is a "
                       "precondition established by the routers (C05-M3, C04-S1)"]
    chk.rule("C03-R1", "the output array is reset (killed) before the first read-modify-write in "
             "every accumulate overload", min_instances=2)
    chk.rule("C03-R2", "every public flow_graph::accumulate overload delegates to the "
             "implementation's accumulate", min_instances=4)
    chk.rule("C03-R3", "accumulate computes the upstream-integral recurrence exactly, for every "
             "small graph with symbolic source, areas and weights (a self receiver never adds to "
             "itself)", min_instances=20)
    n_sc = 0
    for uname in UNITS:
        if uname not in db.units:
            continue
        accs = db.fns(unit=uname, pred=lambda f: f.cls == model.GRAPH_IMPL and f.name == "accumulate")
        inplace = [f for f in accs if len(f.params) == 2]
        ret = [f for f in accs if len(f.params) == 1]
        if len(inplace) < 2 or len(ret) < 2:
            raise AnalysisBroken("accumulate overloads not all instantiated in %s (%d/%d)"
                                 % (uname, len(inplace), len(ret)))
        # ---- R1
        for fn in inplace:
            kw = persist.KillWalk(eff, lambda key: key == (("p", 0),))
            kw.stack.append(fn.key)
            kw.run_fn(fn, {("p", 0): {(("p", 0),)}, ("this",): {(("this",),)}}, frozenset())
            key = (("p", 0),)
            ok = "kill" in kw.touched.get(key, set()) and key not in kw.findings
            chk.ob("C03-R1", "[%s] accumulate(acc, %s): acc reset before accumulation"
                   % (uname, fn.type(fn.params[1]["t"])[:30]), ok,
                   where=(kw.findings.get(key) or (fn.ploc,))[0], function=fn.bn, construct="reset(acc)",
                   detail="" if ok else "values already in the caller's array are added to the result "
                   "(in-place and returning overloads differ)", extra={"unit": uname})
        for fn in ret:
            cl = [c for c in calls(fn.body) if fn.callee(c) is not None and fn.callee(c) in inplace]
            fresh = any("from_shape" in pp(n.get("init") or {}) or "data_array_type" in pp(n.get("init") or {})
                        for n in walk(fn.body) if "d" in n and "k" not in n)
            chk.ob("C03-R1", "[%s] returning accumulate goes through the in-place overload on a "
                   "fresh array" % uname, bool(cl), where=fn.ploc, function=fn.bn,
                   construct="returning-delegates", extra={"unit": uname})
        # ---- R2
        for fn in db.fns(unit=uname, pred=lambda f: f.cls == model.FLOW_GRAPH and f.name == "accumulate"):
            ok = any(fn.callee(c) is not None and fn.callee(c) in accs for c in calls(fn.body))
            chk.ob("C03-R2", "[%s] flow_graph::accumulate(%s) delegates to the implementation"
                   % (uname, ", ".join(p["n"] for p in fn.params)), ok, where=fn.ploc, function=fn.bn,
                   construct="delegates(%d)" % len(fn.params), extra={"unit": uname})
        # ---- R3
        nbad = 0
        for fn in inplace:
            scalar = "double" == fn.type(fn.params[1]["t"]).replace("&", "").replace("const ", "").strip()
            for n in range(1, nmax + 1):
                # node labels are not always their bottom-up positions: with the identity labelling an
                # ascending-label sweep is wrong, with positions 1 and 2 swapped a descending-label sweep
                # is wrong -- the sweep has to follow the stored bottom-up order, reversed
                labellings = [list(range(n))]
                if n >= 3:
                    labellings.append([0, 2, 1] + list(range(3, n)))
                # (the graph object may be a single-column one only when no node has two receivers; a
                #  graph of single-direction routes may also live in a multi-column object)
                variants = [(g, L, sf) for g in graphs(n) for L in labellings
                            for sf in ((True, False) if all(r == ("root",) or len(r) == 1 for r in g) else (False,))]
                for g, L, single_flow in variants:
                    n_sc += 1
                    order = list(L)
                    R, C, Wt = Table("m_receivers"), Table("m_receivers_count"), Table("m_receivers_weight")
                    for i, recs in enumerate(g):
                        if recs == ("root",):
                            C[(L[i],)] = 1
                            R[(L[i], 0)] = L[i]
                            Wt[(L[i], 0)] = Poly.sym("wself%d" % L[i])
                        else:
                            C[(L[i],)] = len(recs)
                            for j, r in enumerate(recs):
                                R[(L[i], j)] = L[r]
                                Wt[(L[i], j)] = Poly.sym("w%d_%d" % (L[i], L[r]))
                    this = Obj(model.GRAPH_IMPL, {"m_receivers": R, "m_receivers_count": C,
                                                   "m_receivers_weight": Wt, "m_grid": Sym("grid", "g"),
                                                   "m_dfs_indices": PyVec(order), "m_single_flow": single_flow})
                    # sources (hence accumulated values) may have any sign: a comparison of a symbolic
                    # value forks, and every outcome must satisfy the recurrence
                    outcomes = []

                    def run_once(dec, this=this, order=order):
                        w = AccWorld(order, scalar)
                        it = Interp(w, dec)
                        acc = AccArray()
                        acc[0] = Poly.sym("garbage")      # the caller's array is not clean
                        th = Obj(model.GRAPH_IMPL, dict(this.fields))
                        try:
                            it.call_fn(fn, th, [acc, Poly.sym("s") if scalar else Sym("srcarray", "src")])
                            return it, (acc, None)
                        except ThrowEx as ex:
                            return it, (acc, "threw %s" % ex.text[:60])
                    for made, res in explore(run_once, max_paths=256):
                        outcomes.append((made, res))
                    bad = []
                    for made, (acc, err) in outcomes:
                      if err:
                        bad.append(err)
                      if not bad:
                          want = {}
                          for i in reversed(range(n)):
                              s = Poly.sym("s") if scalar else Poly.sym("s%d" % L[i])
                              v = Poly.sym("a%d" % L[i]) * s
                              for d in range(n):
                                  if g[d] != ("root",) and i in g[d]:
                                      v = v + Poly.sym("w%d_%d" % (L[d], L[i])) * want[L[d]]
                              want[L[i]] = v
                          for i in order:
                              got = acc.get(i, acc.filled)
                              if not (isinstance(got, Poly) and got == want[i]) and not (want[i] == got):
                                  bad.append("acc[%d] = %r, recurrence gives %r%s" % (
                                    i, got, want[i], " (on the outcome where a sign test of an accumulated value "
                                    "went one way: %r)" % (made,) if made else ""))
                                  break
                    if bad:
                        nbad += 1
                    if not bad or nbad <= 5:
                        chk.ob("C03-R3", "[%s, %s source] graph %s%s" % (uname, "scalar" if scalar else "array",
                               ["root" if r == ("root",) else list(r) for r in g],
                               " in a single-column graph object" if single_flow else ""), not bad, where=fn.ploc,
                               function=fn.bn, construct="recurrence", detail="; ".join(bad[:2]),
                               sample=(n_sc % 13 == 1), extra={"unit": uname})
    chk.absorb(db, "C04", {"C04-S1"}, "C03-R5", "single-direction routing leaves exactly one receiver with "
               "partition weight one at every update (shared with C04-S1), so that accumulation conserves "
               "the source", min_instances=100)
    chk.absorb(db, "C05", {"C05-M1", "C05-M2", "C05-M3"}, "C03-R6", "multiple-direction routing leaves, at every "
               "update, a receiver count and partition weights normalised by one complete, finite, non-zero "
               "sum (shared with C05-M1..M3), so that accumulation conserves the source", min_instances=100)
    chk.absorb(db, "C16", {"C16-T1"}, "C03-R7", "graph snapshots carry the complete receiver tables (all columns of "
               "receivers, counts and partition weights; shared with C16-T1): accumulation on a snapshot conserves "
               "the source", pred=lambda o: "m_receivers" in o["instance"], min_instances=3)
    chk.count_scenarios(n_sc, True)
