"""C11 — worker pool: hand-off memory orders, condition-variable discipline, handshake ordering.

Decided (DESIGN §5 C11): the synchronisation *discipline* visible in the code shape, plus (C11-P1)
a bounded exhaustive interpretation of the block partition arithmetic.  Not decided: the partition
beyond the bound, absence of every possible deadlock.
"""
from ..flow import Walker, State
from ..sir import pp, strip, walk, calls, AnalysisBroken
from . import C08

POOL = "fastscapelib::thread_pool"
UNITS = ["raster_queen", "profile", "trimesh"]

STORE_OK = {"memory_order_release", "memory_order_acq_rel", "memory_order_seq_cst"}
LOAD_OK = {"memory_order_acquire", "memory_order_acq_rel", "memory_order_seq_cst"}
# atomics that publish plain data written by another thread (confirmed by reading):
#   m_has_job[i] publishes p_jobs, the job closures and the job's results in both directions
HANDOFF_FLAGS = ("m_has_job",)
OWNED_BY_CALLER = {"m_size": "written only by the constructor and resize(), both on the caller "
                             "thread after the workers were joined"}


def _norm_type(t):
    t = (t or "").replace("const ", "").replace("volatile ", "").replace("&", "").replace("*", "")
    return t.replace("std::__atomic_base", "std::atomic").replace(" ", "")


def flag_by_type(fn, objnode):
    """a hand-off flag reached through a reference, pointer or iterator instead of `m_has_job[i]`
    (e.g. the element parameter of a lambda given to a std algorithm over the flag vector): the
    accessed object is a parameter / local whose type is the element type of a flag container, a
    type no other atomic member of the pool has"""
    o = strip(objnode)
    via_iter = False
    while isinstance(o, dict):
        if o.get("k") == "unop" and o.get("op") == "*":
            o = strip(o["e"])
        elif o.get("k") == "call" and (o.get("bn") or "").split("::")[-1] in ("operator->", "operator*") \
                and (o.get("obj") is not None or o.get("a")):
            o = strip(o["obj"] if o.get("obj") is not None else o["a"][0])      # iterator dereference
            via_iter = True
        else:
            break
    if not (isinstance(o, dict) and o.get("k") == "ref" and o.get("rk") in ("param", "local")):
        return None
    t = _norm_type(fn.type(o.get("vt", o.get("t"))))
    if not t:
        return None
    others = set()
    elems = {}
    for rec in fn.unit.records:
        if not (rec.get("bn") or "").startswith(POOL):
            continue
        for fld in rec["fields"]:
            ft = _norm_type(fn.unit.type(fld["t"]))
            if fld["n"] in HANDOFF_FLAGS:
                i = ft.find("std::atomic<")
                if i >= 0:
                    depth, j = 0, i
                    while j < len(ft):
                        if ft[j] == "<":
                            depth += 1
                        elif ft[j] == ">":
                            depth -= 1
                            if depth == 0:
                                break
                        j += 1
                    elems[ft[i:j + 1]] = fld["n"]
            elif "std::atomic" in ft:
                others.add(ft)
    if t in elems and t not in others:
        return elems[t]
    if via_iter and "__normal_iterator<" in t:
        # an iterator into the flag container: its type names the element type
        hit = [f for el, f in elems.items() if ("__normal_iterator<" + el) in t and el not in others]
        if hit:
            return hit[0]
    return None


def atomic_access(call):
    """(kind, order) for an atomic member call, else None.  kind in load|store|rmw"""
    bn = call.get("bn", "")
    if not (bn.startswith("std::__atomic_base::") or bn.startswith("std::atomic::")
            or bn.startswith("std::atomic_flag::") or bn.startswith("std::__atomic_flag")):
        return None
    name = bn.split("::")[-1]
    order = None
    for a in call.get("a", []):
        if a.get("cen", "").startswith("memory_order"):
            order = a["cen"]
            break
    if name in ("load", "<conv>"):
        return ("load", order or "memory_order_seq_cst")
    if name in ("store", "operator="):
        return ("store", order or "memory_order_seq_cst")
    if name in ("exchange", "operator++", "operator--", "operator+=", "operator-=", "operator|=",
                "operator&=", "operator^=", "test_and_set", "clear") or name.startswith("fetch_") \
            or name.startswith("compare_exchange"):
        return ("rmw", order or "memory_order_seq_cst")
    return None


def clears_flag(c):
    """a store of 0 to a hand-off flag (the worker giving its slot back)"""
    from ..sir import const_value as _cv
    acc = atomic_access(c)
    return bool(acc and acc[0] == "store" and "m_has_job" in pp(c) and c.get("a")
                and _cv(strip(c["a"][0])) in (0, False))


def field_reads(fn, node, db, depth=0, seen=None):
    """member fields of `this` mentioned below node, following library callees (depth <= 4)"""
    seen = seen if seen is not None else set()
    out = {}
    for n in walk(node):
        if n.get("k") == "member" and n.get("mk") == "field" and pp(strip(n["b"])) == "this":
            out[n["n"]] = fn.type(n.get("ft"))
        if n.get("k") == "call" and n.get("fid") is not None and depth < 4:
            cal = fn.callee(n)
            if cal is not None and cal.key not in seen and cal.cls == fn.cls:
                seen.add(cal.key)
                out.update(field_reads(cal, cal.body, db, depth + 1, seen))
    return out


class LockWalker(Walker):
    """tracks RAII locks (must-held mutex texts) and user events"""
    LOCK_TYPES = ("std::lock_guard<", "std::unique_lock<", "std::scoped_lock<")

    def __init__(self, fn):
        super().__init__(fn)
        self.lock_vars = {}

    def visit_decl(self, var, st):
        t = self.fn.type(var.get("t"))
        if any(t.startswith(x) for x in self.LOCK_TYPES) and var.get("init") is not None:
            init = strip(var["init"])
            args = init.get("a", []) if init.get("k") == "construct" else []
            if args:
                m = pp(strip(args[0]))
                self.lock_vars[var["n"]] = m
                st = st.add("locks", m)
        return st

    def leave_scope(self, names, st):
        for n in names:
            m = self.lock_vars.get(n)
            if m is not None:
                st = st.remove("locks", lambda x, m=m: x == m)
        return st


class NotifyWalker(LockWalker):
    def __init__(self, fn, pred_fields, mutex):
        super().__init__(fn)
        self.pred_fields = pred_fields
        self.mutex = mutex
        self.notifies = []

    def on_write(self, lv, st, node):
        t = pp(strip(lv))
        for f in self.pred_fields:
            if t == "this->" + f:
                if st.has("locks", self.mutex):
                    st = st.add("ev", "pred_updated_under_lock")
                st = st.add("ev", "pred_written")
        return LockWalker.on_write(self, lv, st, node)

    depth = 0

    def visit(self, node, st):
        if node.get("k") == "call" and node.get("bn", "").startswith("std::condition_variable::notify"):
            self.notifies.append((node, st.has("ev", "pred_updated_under_lock"),
                                  st.has("ev", "pred_written")))
        elif node.get("k") == "call" and node.get("fid") is not None and self.depth < 3:
            # a helper of the same class counts as "updates the predicate under the lock" when all
            # its normal exits do (wrapper summary)
            cal = self.fn.callee(node)
            if cal is not None and cal.cls == self.fn.cls and cal.body is not None and not cal.is_lambda:
                sub = NotifyWalker(cal, self.pred_fields, self.mutex)
                sub.depth = self.depth + 1
                sub.run()
                outs = [s2 for kind, _, s2 in sub.exits if kind != "throw"]
                for ev in ("pred_updated_under_lock", "pred_written"):
                    if outs and all(s2.has("ev", ev) for s2 in outs):
                        st = st.add("ev", ev)
        return st


class SeqWalker(LockWalker):
    """generic must-precede: records a token for every call of a thread_pool method; `checks`
    maps a callee base name to a callback(node, state)"""

    def __init__(self, fn, checks):
        super().__init__(fn)
        self.checks = checks

    def cond(self, e, st):
        t, f = LockWalker.cond(self, e, st)
        txt = pp(strip(e))
        if txt == "this->m_paused" and f is not None:
            f = f.add("ev", "not_paused")
        if txt == "this->m_started" and t is not None:
            t = t.add("ev", "started")
        return t, f

    def visit(self, node, st):
        if node.get("k") == "call":
            name = node.get("bn", "").split("::")[-1]
            cls = node.get("cls")
            if name in self.checks:
                self.checks[name](node, st)
            if node.get("bn", "") in ("std::for_each", "std::for_each_n"):
                # the callable of a std algorithm runs here: its calls are checked in this state
                for a in node.get("a", []):
                    for n in walk(a):
                        if n.get("k") == "lambda" and n.get("fid") in self.fn.unit.fns:
                            for c2 in calls(self.fn.unit.fns[n["fid"]].body):
                                nm2 = c2.get("bn", "").split("::")[-1]
                                if nm2 in self.checks:
                                    self.checks[nm2](c2, st)
            if cls == POOL:
                if name == "resume":
                    st = st.add("ev", "not_paused")
                if name == "start":
                    st = st.add("ev", "started")
                if name == "run_tasks":
                    st = st.remove("ev", lambda x: x == "no_unwaited_run")
                if name == "wait":
                    st = st.add("ev", "no_unwaited_run")
                    st = st.add("ev", "waited")
                if name == "set_tasks":
                    st = st.add("ev", "tasks_set")
                    st = st.add("ev", "tasks_set:" + ",".join(pp(strip(a)) for a in node.get("a", [])))
            if node.get("bn") == "std::function::operator()":
                st = st.add("ev", "job_called")
        return st


def run(db, chk):
    chk.explanation = (
        "Synchronisation-discipline rules over the instantiated thread_pool<size_t> (resolved "
        "std::atomic / condition_variable / lock calls, memory-order enum constants evaluated by "
        "clang): (A1) release/acquire on the hand-off flag, (A2) predicate waits and "
        "state-change-under-mutex before notify, (A3) spin loops read atomics only and "
        "run_blocks cannot return with an un-awaited dispatch, (A5-A7) ordering of the "
        "set_tasks/run_tasks/wait/resume/join handshake, (A4) resume-before-resize at the call "
        "sites. Exactly-once execution and the block partition arithmetic are NOT decided.")
    chk.not_decided = ["exactly-once execution of every index / block partition arithmetic (values)",
                       "absence of every possible deadlock (only the handshakes named in the rules)"]
    chk.rule("C11-A1", "every store to the hand-off flag m_has_job[i] is at least release and every "
             "load at least acquire (it publishes p_jobs, the job closure and the job's results)",
             min_instances=4)
    chk.rule("C11-A2a", "every condition_variable::wait is a predicate wait (two-argument form, or "
             "inside a loop that re-tests shared state)", min_instances=1)
    chk.rule("C11-A2b", "every notify_* is preceded, in its function, by an update of the waiters' "
             "predicate state made while holding the waiters' mutex (else the wake-up can be "
             "lost)", min_instances=1)
    chk.rule("C11-A2c", "the predicate state is re-armed (written) before the waiting jobs are "
             "published again", min_instances=1)
    chk.rule("C11-A3a", "busy-wait conditions read only atomics (and members owned by the "
             "spinning thread)", min_instances=2)
    chk.rule("C11-A3b", "run_blocks never returns with a dispatched but un-awaited job set "
             "(wait() follows run_tasks() on every path)", min_instances=1)
    chk.rule("C11-A5", "run_tasks() is preceded by set_tasks() in the same function on all paths",
             min_instances=2)
    chk.rule("C11-A6", "a worker clears its flag only after it observed the flag set and ran the job",
             min_instances=1)
    chk.rule("C11-A7", "handshake order: pause() awaits running jobs before publishing the pause "
             "jobs; stop() resumes a paused pool before joining; run_tasks() starts / resumes "
             "before publishing; resume() awaits the job flags after notifying", min_instances=4)
    chk.rule("C11-A8", "pause() returns only after every worker has signalled that it took its pause job (a "
             "wait loop on an atomic the pause jobs write follows run_tasks() on every path)", min_instances=1)
    chk.rule("C11-P1", "bounded exhaustive interpretation of the block partition arithmetic: for every "
             "pool size, range and minimum block size within the bound the blocks are disjoint, "
             "contiguous, non-empty, cover the range exactly and number at most the pool size",
             min_instances=1)
    chk.rule("C11-P2", "bounded exhaustive interpretation of run_blocks' dispatch, twice on the same pool object: "
             "the published job slots call the user function on blocks that cover the requested range exactly "
             "once, with distinct runner ids below the pool size -- nothing of an earlier call is dispatched again",
             min_instances=1)
    chk.rule("C11-A4", "resume() precedes resize() at every call site (shared with C08-B3)",
             min_instances=2)
    for k, v in OWNED_BY_CALLER.items():
        chk.assume("%s is owned by the caller thread: %s" % (k, v))

    pool_fns = db.fns(pred=lambda f: (f.cls or "").startswith(POOL) or
                      (f.is_lambda and f.bn.startswith(POOL + "::")))
    if not pool_fns:
        raise AnalysisBroken("thread_pool not instantiated")
    first_unit = sorted({f.unit.name for f in pool_fns})[0]
    pool_fns = [f for f in pool_fns if f.unit.name == first_unit]
    byname = {}
    for f in pool_fns:
        byname.setdefault(f.bn, []).append(f)

    # ---- A1 ------------------------------------------------------------------------------
    for fn in pool_fns:
        for c in calls(fn.body):
            acc = atomic_access(c)
            if acc is None or c.get("obj") is None:
                continue
            obj = pp(strip(c["obj"]))
            flag = next((f for f in HANDOFF_FLAGS if ("this->" + f + "[") in obj), None)
            if flag is None:
                flag = flag_by_type(fn, c["obj"])
            if flag is None:
                continue
            kind, order = acc
            ok = (order in STORE_OK) if kind == "store" else (order in LOAD_OK) if kind == "load" \
                else (order in ("memory_order_acq_rel", "memory_order_seq_cst"))
            chk.ob("C11-A1", "%s of %s with %s" % (kind, obj, order), ok, where=fn.loc(c),
                   function=fn.bn, construct="%s(%s)" % (kind, flag),
                   detail="" if ok else "a relaxed %s does not order the plain data it hands off "
                   "(p_jobs / job closure / results): data race" % kind)

    # ---- A2 ------------------------------------------------------------------------------
    pred_fields = {}
    mutex = None
    for fn in pool_fns:
        for c in calls(fn.body):
            if not c.get("bn", "").startswith("std::condition_variable"):
                continue
            name = c["bn"].split("::")[-1]
            if name not in ("wait", "wait_for", "wait_until"):
                continue
            args = c.get("a", [])
            ok = False
            detail = ""
            lam = [a for a in args if strip(a).get("k") == "lambda"]
            if lam:
                lfn = fn.unit.fns.get(strip(lam[0]).get("fid"))
                if lfn is not None:
                    pf = field_reads(lfn, lfn.body, db)
                    pred_fields.update(pf)
                    ok = bool(pf)
                    if not ok:
                        detail = "the predicate reads no shared member"
            else:
                # loop form: an enclosing while whose condition reads members
                for n in walk(fn.body):
                    if n.get("k") in ("while", "do") and any(x is c for x in walk(n.get("body"))):
                        pf = field_reads(fn, n["c"], db)
                        if pf:
                            pred_fields.update(pf)
                            ok = True
                if not ok:
                    detail = "bare wait(lock): nothing re-tests a predicate, so a notification " \
                             "sent before the wait starts is lost and a spurious wake-up resumes early"
            # the waiters' mutex
            if args:
                lk = pp(strip(args[0]))
                for n in walk(fn.body):
                    if "d" in n and "k" not in n and n.get("n") == lk and n.get("init") is not None:
                        ini = strip(n["init"])
                        if ini.get("k") == "construct" and ini.get("a"):
                            mutex = pp(strip(ini["a"][0]))
            chk.ob("C11-A2a", "%s(%s)" % (name, ", ".join(pp(a) for a in args)), ok,
                   where=fn.loc(c), function=fn.bn, construct="cv-wait", detail=detail)
    if mutex is None:
        raise AnalysisBroken("C11-A2: the waiters' mutex could not be identified")
    for fn in pool_fns:
        if not any(c.get("bn", "").startswith("std::condition_variable::notify") for c in calls(fn.body)):
            continue
        w = NotifyWalker(fn, pred_fields, mutex)
        w.run()
        for node, ok, written in w.notifies:
            chk.ob("C11-A2b", "%s in %s" % (pp(node), fn.name), ok, where=fn.loc(node),
                   function=fn.bn, construct="cv-notify",
                   detail="" if ok else ("no waiter-visible state is changed under %s before the "
                                         "notification (predicate members: %s): a worker that has "
                                         "not reached wait() yet misses it and blocks forever"
                                         % (mutex, sorted(pred_fields) or "none")))
    # A2c: re-arm before publishing the waiting jobs
    for fn in pool_fns:
        sites = [c for c in calls(fn.body) if c.get("bn") == POOL + "::set_tasks"
                 and "m_pause_jobs" in pp(c)]
        if not sites:
            continue
        res = []

        class W(NotifyWalker):
            def visit(self, node, st):
                st = NotifyWalker.visit(self, node, st)
                if node.get("k") == "call" and node.get("bn") == POOL + "::run_tasks":
                    res.append((node, st.has("ev", "pred_written")))
                return st
        W(fn, pred_fields, mutex).run()
        for node, ok in res:
            chk.ob("C11-A2c", "predicate re-armed before %s in %s" % (pp(node), fn.name), ok,
                   where=fn.loc(node), function=fn.bn, construct="rearm",
                   detail="" if ok else "the pause jobs are published without resetting the "
                   "predicate state %s: a second pause would not block (or blocks forever)"
                   % sorted(pred_fields))

    # ---- A3a: spin loops -------------------------------------------------------------------
    for fn in pool_fns:
        for n in walk(fn.body):
            if n.get("k") not in ("while", "do"):
                continue
            body = n.get("body")
            empty = body is None or body.get("k") == "null" or \
                (body.get("k") == "compound" and not body.get("b"))
            worker_loop = any(clears_flag(c) for c in calls(fn.body))
            if not (empty or worker_loop):
                continue
            reads = field_reads(fn, n["c"], db)
            bad = {f: t for f, t in reads.items()
                   if "atomic" not in t and f not in OWNED_BY_CALLER}
            chk.ob("C11-A3a", "spin on %s in %s" % (pp(n["c"]), fn.name), not bad,
                   where=fn.loc(n), function=fn.bn, construct="spin(%s)" % pp(n["c"]),
                   detail="" if not bad else "non-atomic shared members read in a busy-wait: %s" % bad)

    # ---- A3b / A5 / A6 / A7 --------------------------------------------------------------------
    def fns_named(name):
        return [f for f in pool_fns if f.bn == POOL + "::" + name and not f.is_lambda]

    for fn in fns_named("run_blocks"):
        w = SeqWalker(fn, {})
        w.run(State({"ev": frozenset({"no_unwaited_run"})}))
        for kind, node, st in w.exits:
            if kind == "throw":
                continue
            ok = st.has("ev", "no_unwaited_run")
            chk.ob("C11-A3b", "exit (%s) of run_blocks" % kind, ok, where=fn.loc(node),
                   function=fn.bn, construct="exit-after-run_tasks",
                   detail="" if ok else "a path returns after run_tasks() without wait(): the "
                   "caller's job vector is destroyed while workers may still run it")

    for fn in pool_fns:
        if fn.is_lambda or not any(c.get("bn") == POOL + "::run_tasks" for c in calls(fn.body)):
            continue
        res = []
        w = SeqWalker(fn, {"run_tasks": lambda node, st: res.append((node, st.has("ev", "tasks_set")))})
        w.run()
        for node, ok in res:
            chk.ob("C11-A5", "set_tasks before run_tasks in %s" % fn.name, ok, where=fn.loc(node),
                   function=fn.bn, construct="run_tasks",
                   detail="" if ok else "jobs published without (re)binding the job vector")

    for fn in pool_fns:
        # the worker loop, wherever it lives (thread lambda or a helper it calls)
        if not any(clears_flag(c) for c in calls(fn.body)):
            continue
        res = []

        class W6(SeqWalker):
            def visit(self, node, st):
                st = SeqWalker.visit(self, node, st)
                if node.get("k") == "call":
                    if clears_flag(node):
                        guard = any("m_has_job" in f and not f.startswith("!(") for f in st.get("facts"))
                        res.append((node, guard and st.has("ev", "job_called"), guard,
                                    st.has("ev", "job_called")))
                return st
        W6(fn, {}).run()
        for node, ok, guard, called in res:
            chk.ob("C11-A6", "worker clears %s" % pp(strip(node["obj"])), ok, where=fn.loc(node),
                   function=fn.bn, construct="worker-clear",
                   detail="" if ok else "flag cleared %s%s" % ("" if guard else "without having "
                   "observed it set; ", "" if called else "before running the job"))

    for fn in fns_named("pause"):
        res = []
        w = SeqWalker(fn, {"set_tasks": lambda node, st: res.append((node, st.has("ev", "waited")))})
        w.run()
        for node, ok in res:
            chk.ob("C11-A7", "pause(): wait() before %s" % pp(node), ok, where=fn.loc(node),
                   function=fn.bn, construct="pause-order",
                   detail="" if ok else "the job vector is re-bound while workers may still "
                   "execute jobs of the previous one")
    for fn in fns_named("resume"):
        res = []

        class W8(SeqWalker):
            def visit(self, node, st):
                st = SeqWalker.visit(self, node, st)
                if node.get("k") == "call":
                    if node.get("bn", "").startswith("std::condition_variable::notify"):
                        st = st.remove("ev", lambda x: x == "quiet")
                    elif node.get("bn") == POOL + "::wait":
                        st = st.add("ev", "quiet")
                return st
        w8 = W8(fn, {})
        w8.run(State({"ev": frozenset({"quiet"})}))
        for kind, node, st in w8.exits:
            if kind == "throw":
                continue
            ok = st.has("ev", "quiet")
            chk.ob("C11-A7", "resume(): returns only after wait() saw every job flag cleared", ok,
                   where=fn.loc(node), function=fn.bn, construct="resume-waits",
                   detail="" if ok else "a worker that is still finishing its pause job clears its flag "
                   "later and wipes the flag of the next job: that block is silently never run")
    for fn in fns_named("stop"):
        res = []
        w = SeqWalker(fn, {"join": lambda node, st: res.append((node, st.has("ev", "not_paused")))})
        w.run()
        if not res:
            raise AnalysisBroken("C11-A7: stop() does not join the workers any more")
        for node, ok in res:
            chk.ob("C11-A7", "stop(): pool resumed before join()", ok, where=fn.loc(node),
                   function=fn.bn, construct="stop-order",
                   detail="" if ok else "joining workers that are blocked in their pause job "
                   "never returns")
    for fn in fns_named("run_tasks"):
        res = []

        class W7(SeqWalker):
            def visit(self, node, st):
                st = SeqWalker.visit(self, node, st)
                if node.get("k") == "call":
                    acc = atomic_access(node)
                    if acc and acc[0] == "store" and "m_has_job" in pp(node):
                        res.append((node, st.has("ev", "not_paused")))
                return st
        W7(fn, {}).run()
        for node, ok in res:
            chk.ob("C11-A7", "run_tasks(): pool resumed before publishing", ok, where=fn.loc(node),
                   function=fn.bn, construct="run_tasks-order",
                   detail="" if ok else "jobs published to workers still blocked in their pause job")

    # ---- A8: pause() returns only after every worker took its pause job --------------------------
    # (a worker that has not yet seen its flag when stop() sets m_stopped leaves its loop with the
    #  flag still set, and stop() -> resume() -> wait() then spins for ever)
    signals = {}
    for fn in pool_fns:
        for c in calls(fn.body):
            if c.get("op") == "=" and c.get("obj") is not None and "m_pause_jobs[" in pp(strip(c["obj"])):
                for a in c.get("a", []):
                    for n in walk(a):
                        if n.get("k") == "lambda" and n.get("fid") in fn.unit.fns:
                            lam = fn.unit.fns[n["fid"]]
                            for c2 in calls(lam.body):
                                acc = atomic_access(c2)
                                if acc and acc[0] in ("rmw", "store") and c2.get("obj") is not None:
                                    m = pp(strip(c2["obj"]))
                                    if "->" in m:
                                        signals.setdefault(m.split("->")[-1].split("[")[0], []).append(lam.loc(c2))
    pause_fns = byname.get(POOL + "::pause", [])
    if not pause_fns:
        raise AnalysisBroken("C11-A8: thread_pool::pause not instantiated")

    class PauseWalk(Walker):
        """must-fact `acked`: no pause jobs were published since the last wait on the workers' signal"""
        n_pub = 0

        def visit(self, node, st):
            if node.get("k") == "call" and node.get("bn") == POOL + "::run_tasks":
                self.n_pub += 1
                st = st.remove("ev", lambda x: x == "acked")
            elif node.get("k") == "call" and node.get("fid") is not None:
                # a spin helper: a callee of the pool that loops on a predicate passed as a callable
                cal = self.fn.callee(node)
                if cal is not None and (cal.cls or "").startswith(POOL) and cal.body is not None and \
                        any(n.get("k") in ("while", "do", "for") for n in walk(cal.body)):
                    for a in node.get("a", []):
                        for n in walk(a):
                            if n.get("k") == "lambda" and n.get("fid") in self.fn.unit.fns:
                                lam = self.fn.unit.fns[n["fid"]]
                                if any(m in signals for m in field_reads(lam, lam.body, db)):
                                    st = st.add("ev", "acked")
            return st

        def enter_loop(self, stmt, st):
            if stmt.get("c") is not None:
                rd = field_reads(self.fn, stmt["c"], db)
                if any(m in signals for m in rd):
                    st = st.add("ev", "acked")
            return st
    for fn in pause_fns:
        pw = PauseWalk(fn)
        pw.run(State().add("ev", "acked"))
        if pw.n_pub == 0:
            raise AnalysisBroken("C11-A8: pause() never publishes pause jobs")
        for kind, node, st in pw.exits:
            if kind == "throw":
                continue
            ok = st.has("ev", "acked")
            chk.ob("C11-A8", "pause(): exit (%s): the pause jobs published are acknowledged through %s"
                   % (kind, sorted(signals) or "(the pause jobs signal nothing)"), ok, where=fn.ploc, function=fn.bn,
                   construct="pause-ack",
                   detail="" if ok else "pause() returns before every worker has taken its pause job: a stop() "
                   "issued right afterwards lets a worker exit with its job flag set, and stop() -> resume() -> "
                   "wait() never returns")

    # ---- P1: block partition (bounded exhaustive interpretation of pure integer arithmetic) ------
    from ..interp import Interp, World, Obj, ThrowEx
    blk = {("<ctor>" if f.is_ctor else f.name): f for f in pool_fns if f.cls == POOL + "::blocks"}
    for need in ("<ctor>", "start", "end", "num_blocks"):
        if need not in blk:
            raise AnalysisBroken("C11-P1: thread_pool::blocks::%s not instantiated" % need)
    rec = [r for r in blk["start"].unit.records if r["bn"] == POOL + "::blocks"]
    pmax, tmax, mmax = (12, 40, 10) if chk.tier == "thorough" else (8, 24, 6)
    bad = []
    n_cases = 0
    for pool in range(1, pmax + 1):
        for total in range(0, tmax + 1):
            for first in (0, 5):
                for msz in range(0, mmax + 1):
                    n_cases += 1
                    it = Interp(World())
                    o = it.new_obj(blk["start"], rec[0])
                    try:
                        it.call_fn(blk["<ctor>"], o, [first, first + total, pool, msz])
                        nb = it.rv(it.call_fn(blk["num_blocks"], o, []))
                        spans = []
                        for b in range(min(nb, pool)):
                            spans.append((it.rv(it.call_fn(blk["start"], o, [b])),
                                          it.rv(it.call_fn(blk["end"], o, [b]))))
                    except ThrowEx as ex:
                        bad.append((pool, total, msz, "threw " + ex.text[:40]))
                        continue
                    except AnalysisBroken as ex:
                        if "division by zero" in str(ex):
                            bad.append((pool, total, msz, "integer division by zero"))
                            continue
                        raise
                    ok = nb <= pool
                    pos = first
                    for (a, b) in spans:
                        if a != pos or b <= a:
                            ok = False
                        pos = b
                    if total > 0 and (pos != first + total or nb < 1):
                        ok = False
                    if total == 0 and nb != 0:
                        ok = False
                    if not ok and len(bad) < 5:
                        bad.append((pool, total, msz, "num_blocks %r spans %r" % (nb, spans)))
    chk.ob("C11-P1", "blocks(first, last, pool size, min size): %d combinations (pool <= %d, range <= %d, "
           "min size <= %d)" % (n_cases, pmax, tmax, mmax), not bad, where=blk["<ctor>"].ploc,
           function=blk["<ctor>"].bn, construct="block-partition",
           detail="" if not bad else "first failing (pool, range, min size): %r" % (bad[0],))
    chk.count_scenarios(n_cases, True)

    chk.absorb(db, "C08", {"C08-B11"}, "C11-A10", "worker / block indices are never used as an unbounded shift amount "
               "(flags packed into one word alias beyond its width: two workers share a flag, a block is skipped or "
               "awaited twice) -- shared with C08-B11", pred=lambda o: "thread_pool" in (o.get("where") or "")
               or "positive control" in o["instance"], min_instances=1)
    # ---- A9: run_tasks() publishes the task set installed by the preceding set_tasks() ---------------
    from ..effects import Effects as _Eff, fields_of as _fields_of
    chk.rule("C11-A9", "run_tasks() dispatches the task set installed by the set_tasks() that precedes it (C11-A5): "
             "nothing in run_tasks()' call tree (start / resume of a stopped or paused pool included) writes the "
             "members set_tasks() writes", min_instances=1)
    _eff = _Eff(db)

    def _this_writes(f):
        out = set()
        for (k, p, h) in _eff.summary(f).effects:
            if k == "w" and p and p[0] == ("this",):
                fl = _fields_of(p)
                if fl:
                    out.add(fl[0])
        return out
    st_fns = [f for f in pool_fns if f.cls == POOL and f.name == "set_tasks" and f.body]
    rt_fns = [f for f in pool_fns if f.cls == POOL and f.name == "run_tasks" and f.body]
    if not st_fns or not rt_fns:
        raise AnalysisBroken("C11-A9: thread_pool::set_tasks / run_tasks not instantiated")
    task_members = set()
    for f in st_fns:
        task_members |= _this_writes(f)
    if not task_members:
        raise AnalysisBroken("C11-A9: set_tasks() writes no member")
    for f in rt_fns:
        over = sorted(_this_writes(f) & task_members)
        chk.ob("C11-A9", "run_tasks() and its callees leave %s alone" % sorted(task_members), not over,
               where=f.ploc, function=f.bn, construct="task-set(%s)" % ",".join(over or ["-"]),
               detail="" if not over else "%s, installed by set_tasks(), is overwritten inside run_tasks() (e.g. by the "
               "implicit resume of a paused pool): the blocks of the pending run_blocks() are never run and an older "
               "task set runs instead" % over)
    # ---- P2: dispatch of run_blocks (bounded exhaustive interpretation) -----------------------------
    from ..interp import PyVec, Closure, NOT_HANDLED, Sym
    import copy as _copy
    rb_fns = [f for f in pool_fns if f.cls == POOL and f.name == "run_blocks" and f.body]
    if not rb_fns:
        raise AnalysisBroken("C11-P2: thread_pool::run_blocks not instantiated")
    prec = [r for r in rb_fns[0].unit.records if r["bn"] == POOL]
    if not prec:
        raise AnalysisBroken("C11-P2: thread_pool record not found")

    class Recorder:
        def __deepcopy__(self, memo):
            return self

    class DispatchWorld(World):
        def __init__(self):
            self.published = None
            self.calls = []

        def default_value(self, it, ts):
            base = ts.replace("const ", "").strip()
            if base.startswith("std::function<"):
                return None
            if base.startswith("std::vector<std::thread") or base.startswith("std::condition_variable") \
                    or base.startswith("std::mutex") or base.startswith("std::atomic") \
                    or base.startswith("std::vector<std::atomic"):
                return Sym("sync", base[:30])
            return NOT_HANDLED

        def before_call(self, it, fn, call, callee, frame):
            nm = callee.bn.split("::")[-1]
            if callee.cls == POOL and nm == "set_tasks":
                v = it.rv(it.eval(call["a"][0], frame))
                self.published = list(v)
                return None
            if callee.cls == POOL and nm in ("run_tasks", "wait", "resume", "start"):
                return None
            if call.get("obj") is not None and callee.is_lambda:
                o = it.rv(it.eval(call["obj"], frame))
                if isinstance(o, Recorder):
                    self.calls.append(tuple(it.rv(it.eval(a, frame)) for a in call.get("a", [])))
                    return None
            return NOT_HANDLED
    pmax2 = 5 if chk.tier == "thorough" else 4
    ranges = [(0, 0), (0, 1), (0, 2), (0, 3), (0, 5), (0, 9), (2, 4), (3, 12)]
    n2 = 0
    bad2 = []
    for rb in rb_fns[: (len(rb_fns) if chk.tier == "thorough" else 2)]:
        for pool in range(1, pmax2 + 1):
            for msz in (0, 1, 3):
                for r1 in ranges:
                    for r2 in ranges:
                        n2 += 1
                        w = DispatchWorld()
                        it = Interp(w, max_steps=200000)
                        this = Obj(POOL, {})
                        for fld in prec[0]["fields"]:
                            ts = rb.unit.type(fld["t"])
                            if ts.startswith("std::vector<std::function"):
                                this.fields[fld["n"]] = PyVec()
                            elif ts in ("bool",):
                                this.fields[fld["n"]] = False
                            else:
                                this.fields[fld["n"]] = Sym("sync", fld["n"])
                        this.fields["m_size"] = pool
                        rec_fn = Recorder()
                        try:
                            for (lo, hi) in (r1, r2):
                                w.published, w.calls = None, []
                                args = [lo, hi, rec_fn] + ([msz] if len(rb.params) > 3 else [])
                                it.call_fn(rb, this, args)
                                jobs = [j for j in (w.published or []) if j is not None]
                                for j in jobs:
                                    if not isinstance(j, Closure):
                                        raise AnalysisBroken("C11-P2: published job %r is not a closure" % (j,))
                                    it.call_closure(j, [], None)
                                seen = []
                                for c in w.calls:
                                    seen.extend(range(c[1], c[2]))
                                ids = [c[0] for c in w.calls]
                                ok = sorted(seen) == list(range(lo, hi)) and len(set(ids)) == len(ids) \
                                    and all(isinstance(i, int) and 0 <= i < pool for i in ids) \
                                    and (w.published is None or len(w.published) <= pool)
                                if hi <= lo and w.calls:
                                    ok = False
                                if not ok and len(bad2) < 4:
                                    bad2.append("pool %d, min size %d, run_blocks%r then run_blocks%r: the second call "
                                                "dispatches %r" % (pool, msz, r1, r2, w.calls) if (lo, hi) == r2 and r1 != r2
                                                else "pool %d, min size %d, run_blocks%r dispatches %r" % (pool, msz, (lo, hi), w.calls))
                        except ThrowEx as ex:
                            if len(bad2) < 4:
                                bad2.append("pool %d: threw %s" % (pool, ex.text[:60]))
    chk.ob("C11-P2", "run_blocks on the same pool twice: %d (pool <= %d, first range, second range, min size) "
           "combinations over %d instantiation(s)" % (n2, pmax2, len(rb_fns)), not bad2, where=rb_fns[0].ploc,
           function=rb_fns[0].bn, construct="dispatch", detail="; ".join(bad2[:2])[:500])
    chk.count_scenarios(n2, True)

    # ---- A4 (= C08-B3) ---------------------------------------------------------------------------
    resize_safe = {}
    for fn in db.fns(POOL + "::resize"):
        w = C08.StopBeforeSize(fn)
        w.run()
        resize_safe[fn.unit.name] = w.saw_size_write and not w.size_written_before_stop
    for fn in db.all_fns():
        if fn.cls == POOL or not any(c.get("bn") == POOL + "::resize" for c in calls(fn.body)):
            continue
        w = C08.ResumeBeforeResize(fn)
        w.run()
        for node, obj, resumed in w.sites:
            ok = resumed or resize_safe.get(fn.unit.name, False)
            chk.ob("C11-A4", "%s: %s.resize(...)" % (fn.bn.split("::")[-1], obj), ok,
                   where=fn.loc(node), function=fn.bn, construct="resize(%s)" % obj,
                   extra={"unit": fn.unit.name})
