"""C09 — updating routes is a pure function of its current inputs (partial claim).

C09-P1 (A3 + A6) declared elevation effect: an operator implementation whose apply() writes the
        elevation argument (directly or through callees) declares elevation_updated = true; and
        update_routes strips the const of the caller's array only where the sequence declares
        that no operator updates elevation, the owned copy being assigned from the input first.
C09-P2 (A4) persistent-state audit: every data member that survives between two update_routes
        calls (flow_graph_impl, basin_graph, MST resolver) and is read during a call is config,
        killed before read, count-guarded, or listed in the reasoned exception table.
C09-P3 (A3) no iteration over an unordered container that persists across calls feeds an
        order-sensitive sink (a heap whose comparator is not a total order on the element).
C09-P4 the neighbour queries are memos of pure functions (shared with C07-G2).
Not decided: bit-equality of floating-point results as such.
"""
from ..effects import Effects, FnAnalysis, must_write_map, path_str, first_index, fields_of, obj_key
from ..flow import Walker
from ..sir import resolve_alias, pp, strip, walk, calls, AnalysisBroken
from .. import model
from . import persist


def run(db, chk):
    eff = Effects(db)
    chk.explanation = (
        "Effect summaries of every operator implementation against its declared constexpr "
        "flags; guard analysis of the const_cast pass-through in update_routes; audit of every "
        "member that persists between update_routes calls by a must-kill-before-read analysis; "
        "scan of iterations over unordered containers and totality of the heap comparator they "
        "feed; who-may-write analysis proving the neighbour queries are memos of pure functions. "
        "All 7 grid instantiations.")
    chk.not_decided = ["bit-equality of floating-point results as such (it follows if no stale "
                       "state, unordered iteration or race exists; those sources are decided)"]
    chk.rule("C09-P1", "an operator whose apply() may write the elevation array declares "
             "elevation_updated; update_routes passes the caller's array through (const_cast) only "
             "under !elevation_updated(), and assigns the owned copy from the input before use",
             min_instances=6)
    chk.rule("C09-P3", "iteration over a persistent unordered container feeds only "
             "order-insensitive sinks (writes indexed by the element, or a heap whose comparator "
             "is a total order on the element)", min_instances=1)
    chk.rule("C09-P4", "neighbour look-ups read only grid members that nothing reachable after "
             "construction writes (so caching and query order cannot matter)", min_instances=7)
    persist.declare(chk)

    for uname, unit in sorted(db.units.items()):
        ops = model.operator_classes(unit)
        impls = model.operator_impls(db, uname)
        # ------------------------------------------------------------------ P1
        for op, d in sorted(impls.items()):
            ap = d["apply"]
            if ap is None:
                continue
            s = eff.summary(ap)
            w = sorted(path_str(p) for (k, p, h) in s.effects if k == "w" and p[0] == ("p", 1))
            declared = bool(ops[op]["elevation_updated"])
            ok = declared or not w
            chk.ob("C09-P1", "%s: writes elevation: %s, declares elevation_updated=%s [%s]"
                   % (op.split("::")[-1], bool(w), declared, uname), ok, where=ap.ploc,
                   function=ap.bn, construct="elevation-effect(%s)" % op.split("::")[-1],
                   detail="" if ok else "apply() writes %s but the operator declares it does not "
                   "update elevation: update_routes would hand it the caller's own array" % w[:3],
                   extra={"unit": uname})
        for fn in db.fns(unit=uname, pred=lambda f: f.cls == model.FLOW_GRAPH and f.name == "update_routes"):
            sites = []

            class W1(Walker):
                def visit(self, node, st):
                    if node.get("k") == "binop" and node["op"] == "=" and \
                            pp(strip(node["lhs"])) == "this->m_elevation_copy":
                        if "elevation" == pp(strip(node["rhs"])):
                            st = st.add("ev", "copied")
                    if node.get("k") == "call" and node.get("op") == "=" and node.get("obj") is not None \
                            and pp(strip(node["obj"])) == "this->m_elevation_copy":
                        if node.get("a") and pp(strip(node["a"][0])) == "elevation":
                            st = st.add("ev", "copied")
                    if node.get("k") == "cast" and not node.get("impl") and node.get("ck") == "NoOp" \
                            and self.fn.type(node.get("t")).strip().endswith("*") \
                            and not self.fn.type(node.get("t")).startswith("const ") \
                            and any(n.get("k") == "ref" and n.get("rk") == "param" for n in walk(node["e"])) \
                            and "m_elevation_copy" not in pp(node["e"]):
                        ok = any(f.startswith("!(") and "elevation_updated" in f for f in st.get("facts"))
                        sites.append(("const_cast of the input", node, ok))
                    if node.get("k") == "unop" and node["op"] == "&" and \
                            pp(strip(node["e"])) == "this->m_elevation_copy":
                        sites.append(("owned copy handed to the operators", node, st.has("ev", "copied")))
                    return st
            W1(fn).run()
            if len(sites) < 2:
                raise AnalysisBroken("C09-P1: pass-through / copy branches of update_routes not recognised "
                                     "(%d sites) in %s" % (len(sites), uname))
            for what, node, ok in sites:
                chk.ob("C09-P1", "update_routes: %s [%s]" % (what, uname), ok, where=fn.loc(node),
                       function=fn.bn, construct=what.split()[0],
                       detail="" if ok else ("the caller's const array is made writable on a path "
                                             "where an operator may update elevation"
                                             if what.startswith("const") else
                                             "the owned copy is used before it is assigned from the input"),
                       extra={"unit": uname})

        # ------------------------------------------------------------------ P3
        for fn in db.fns(unit=uname):
            # iterations over an unordered container: range-for loops and std::for_each over begin()/end()
            iters = []
            for n in walk(fn.body):
                if n.get("k") == "rangefor":
                    iters.append((n["range"], n.get("body"), fn))
                elif n.get("k") == "call" and n.get("bn") in ("std::for_each", "std::for_each_n") and n.get("a"):
                    a0 = strip(n["a"][0])
                    if a0.get("k") == "call" and a0.get("obj") is not None and \
                            a0.get("bn", "").split("::")[-1] in ("begin", "cbegin"):
                        for m in walk(n["a"][-1]):
                            if m.get("k") == "lambda" and m.get("fid") in fn.unit.fns:
                                lam = fn.unit.fns[m["fid"]]
                                iters.append((a0["obj"], lam.body, lam))
            # explicit iterator loops: a cursor initialised from begin() and tested by a loop
            cursors = {}
            for n in walk(fn.body):
                if n.get("k") == "decl":
                    for v in n["vars"]:
                        for m in walk(v.get("init")) if v.get("init") is not None else []:
                            if m.get("k") == "call" and m.get("obj") is not None and \
                                    m.get("bn", "").split("::")[-1] in ("begin", "cbegin"):
                                cursors[v["n"]] = m["obj"]
                                break
            if cursors:
                for n in walk(fn.body):
                    if n.get("k") in ("for", "while", "do") and n.get("c") is not None:
                        used = {r["n"] for r in walk(n["c"]) if r.get("k") == "ref" and r.get("n") in cursors}
                        for name in sorted(used):
                            iters.append((cursors[name], n.get("body"), fn))
            for (rng, body, bfn) in iters:
                t = fn.type(strip(rng).get("t"))
                if "std::unordered_" not in t:
                    continue
                sinks = []
                an = FnAnalysis(eff, fn)
                an.run()
                rpaths = an.visit(rng)
                if rpaths and all(p[0][0] in ("local", "tmp") for p in rpaths):
                    continue   # a container built during this very call: its order is a function
                               # of this call's inputs, not of the object's history
                for c in walk(body):
                    k = c.get("k")
                    if k == "call" and c.get("obj") is not None and not c.get("cm"):
                        name = c.get("bn", "").split("::")[-1]
                        if name in ("operator()", "operator[]", "flat", "at"):
                            continue
                        sinks.append(c)
                    if k == "call" and c.get("fid") is not None and c.get("obj") is None:
                        sinks.append(c)
                # element-indexed writes are order-insensitive: checked through the effect classes
                for c in sinks:
                    bn = c.get("bn", "")
                    name = bn.split("::")[-1]
                    ok = False
                    detail = ""
                    if bn.startswith("std::priority_queue::") and name in ("emplace", "push"):
                        qt = bfn.type(strip(c["obj"]).get("t"))
                        ok, detail = comparator_total(db, bfn, qt)
                    elif bn.startswith("std::set::") or bn.startswith("std::unordered_set::") or \
                            bn.startswith("std::map::") or bn.startswith("std::unordered_map::"):
                        ok = True
                    else:
                        detail = "order-sensitive sink %s" % bn
                    chk.ob("C09-P3", "loop over %s in %s feeds %s [%s]"
                           % (pp(rng), fn.name, pp(c)[:60], uname), ok, where=bfn.loc(c),
                           function=fn.bn, construct="unordered->%s" % bn, detail=detail,
                           extra={"unit": uname})

        # ------------------------------------------------------------------ P4 (= C07-G2)
        purity(db, eff, chk, uname, "C09-P4")
        cache_hit_rule(db, chk, uname, "C09-P4")

        # ------------------------------------------------------------------ P2
        persist.audit(db, eff, chk, uname)

    chk.absorb(db, "C10", {"C10-X1", "C10-X2"}, "C09-P6", "parallel regions write shared tables only at indices "
               "derived from their block and the donors are registered sequentially afterwards (shared with "
               "C10-X1 / X2): the resulting state cannot depend on the thread interleaving", min_instances=14)
    chk.absorb(db, "C19", {"C19-L2"}, "C09-P8", "basins / pits are recomputed from the tables held at the time of the "
               "query (shared with C19-L2): a cached result would describe an earlier update", min_instances=3)
    chk.absorb(db, "C20", {"C20-T4"}, "C09-P7", "the operator sequence's move assignment transfers every member "
               "(shared with C20-T4): the pass-through / copy decision of update_routes follows the sequence "
               "actually held", min_instances=50)


def comparator_total(db, fn, queue_type):
    """is the ordering used by this std::priority_queue a total order on its element type?
    (the comparison function must read every data member of the element)"""
    import re
    m = re.match(r"^(?:const )?std::priority_queue<(.*?), std::vector<", queue_type)
    if not m:
        return False, "unrecognised queue type %s" % queue_type[:60]
    elem = m.group(1)
    rec = None
    for r in fn.unit.records:
        if fn.unit.type(r["t"]) == elem:
            rec = r
    if rec is None:
        return False, "element type %s is not a library record" % elem[:60]
    if "std::greater<" in queue_type:
        opname = "operator>"
    elif "std::less<" in queue_type:
        opname = "operator<"
    else:
        return False, "custom comparator"
    cmpf = [f for f in fn.unit.fns.values() if f.cls == rec["bn"] and f.name == opname
            and f.d.get("clst") == rec["t"]]
    if not cmpf:
        return False, "comparison %s of %s not found" % (opname, rec["bn"])
    read = set()
    for n in walk(cmpf[0].body):
        if n.get("k") == "member" and n.get("mk") == "field":
            read.add(n["n"])
    fields = {f["n"] for f in rec["fields"]}
    if fields <= read:
        return True, ""
    return False, ("the heap compares only %s of %s: elements with equal keys pop in an order that "
                   "depends on the (unspecified, history-dependent) iteration order of the "
                   "unordered container" % (sorted(read), sorted(fields)))


GRID_MEMO_FNS = ("neighbors_indices_impl", "neighbors_count_impl", "neighbors_distances_impl")
CACHE_MEMBER = "m_neighbors_indices_cache"


def grid_classes(db, uname):
    """plain names of the grid class of this unit and its library bases"""
    unit = db.units[uname]
    target = {"raster": "fastscapelib::raster_grid", "profile": "fastscapelib::profile_grid",
              "trimesh": "fastscapelib::trimesh_xt"}[uname.split("_")[0]]
    names = {target, "fastscapelib::grid", "fastscapelib::structured_grid"}
    if target == "fastscapelib::raster_grid":
        names.add("fastscapelib::raster_neighbors")
    return target, names


def shared_storage_refs(fn, seen=None, depth=0):
    """references to static / thread_local / global variables reachable from fn's body through
    library callees (bounded depth); returns [(name, where)]"""
    from ..sir import walk
    seen = seen if seen is not None else set()
    out = []
    if fn.body is None:
        return out
    for n in walk(fn.body):
        if n.get("k") == "ref" and (n.get("rk") in ("slocal", "global") or n.get("tls")):
            if n.get("cv") is None and n.get("cvs") is None and n.get("cvf") is None:
                out.append((n.get("n"), fn.loc(n)))
        if n.get("k") == "call" and n.get("fid") is not None and depth < 5:
            cal = fn.callee(n)
            if cal is not None and cal.key not in seen and (cal.cls or "").startswith("fastscapelib"):
                seen.add(cal.key)
                out += shared_storage_refs(cal, seen, depth + 1)
    # static locals are also declared (not only referenced)
    for n in walk(fn.body):
        if "d" in n and "k" not in n and (n.get("static") or n.get("tls")):
            out.append((n.get("n"), fn.loc(n)))
    return out


def cache_hit_rule(db, chk, uname, rid):
    """the hit test / hit path of a neighbour-cache policy may only depend on the cache object's own
    members: a hit decided by storage shared between grid objects returns another grid's data"""
    n = 0
    from ..sir import walk, const_value
    never_hits = set()
    for f in db.fns(unit=uname, pred=lambda f: (f.cls or "").startswith("fastscapelib::neighbors_")
                    and f.name == "has"):
        rets = [x for x in walk(f.body) if x.get("k") == "return"]
        if rets and all(r.get("e") is not None and const_value(r["e"]) in (False, 0) for r in rets):
            never_hits.add(f.d.get("clst"))
    for f in db.fns(unit=uname, pred=lambda f: (f.cls or "").startswith("fastscapelib::neighbors_")
                    and f.name in ("has", "get")):
        if f.name == "get" and f.d.get("clst") in never_hits:
            continue            # a policy that never reports a hit never serves get()
        n += 1
        refs = shared_storage_refs(f)
        chk.ob(rid, "%s::%s depends only on the cache object's own members [%s]" % (f.cls.split("::")[-1], f.name, uname),
               not refs, where=(refs[0][1] if refs else f.ploc), function=f.bn, construct="cache-hit(%s)" % f.name,
               detail="" if not refs else "reads %s, storage shared by every grid of the thread: a look-up on one "
               "grid can return the neighbours computed for another" % sorted({r[0] for r in refs}),
               extra={"unit": uname})
    if n == 0:
        raise AnalysisBroken("%s: no neighbour-cache policy (has / get) instantiated in %s" % (rid, uname))


def purity(db, eff, chk, uname, rid):
    target, names = grid_classes(db, uname)
    fns = db.fns(unit=uname, pred=lambda f: f.cls in names and not f.is_lambda)
    if not fns:
        raise AnalysisBroken("%s: grid classes not found in %s" % (rid, uname))
    # writes to grid members by anything callable after construction (public / protected API)
    ctor_only = set()
    written_after = {}
    for f in fns:
        if f.is_ctor or f.d.get("dtor"):
            continue
        if f.acc != "public":
            # private / protected helpers only matter through the public functions that reach them
            # (effect summaries are transitive); helpers used by the constructors alone are construction
            continue
        s = eff.summary(f)
        for (k, p, h) in s.effects:
            if k == "w" and p[0] == ("this",):
                fl = fields_of(p)
                if fl:
                    written_after.setdefault(fl[0], set()).add(f.name)
    memo_reads = {}
    for f in fns:
        if f.name in GRID_MEMO_FNS and f.cls == target:
            s = eff.summary(f)
            for p in s.reads():
                if p[0] == ("this",):
                    fl = fields_of(p)
                    if fl:
                        memo_reads.setdefault(fl[0], set()).add(f.name)
            for (k, p, h) in s.effects:
                if k == "w" and p[0] == ("this",):
                    fl = fields_of(p)
                    chk.ob(rid, "%s writes grid member %s [%s]" % (f.name, fl[:1], uname), False,
                           where=f.ploc, function=f.bn, construct="memo-writes(%s)" % (fl[:1],),
                           extra={"unit": uname})
    if not memo_reads:
        raise AnalysisBroken("%s: neighbour implementation functions not found in %s" % (rid, uname))
    bad = {m: (rs, written_after[m]) for m, rs in memo_reads.items()
           if m in written_after and m != CACHE_MEMBER}
    chk.ob(rid, "neighbour functions of %s read %s; members written after construction: %s [%s]"
           % (target.split("::")[-1], sorted(memo_reads), sorted(written_after), uname), not bad,
           where="fastscapelib/grid", function=target, construct="memo-purity",
           detail="" if not bad else "the memoised functions read members that are written after "
           "construction: %s" % {m: sorted(w) for m, (r, w) in bad.items()},
           extra={"unit": uname})
