"""C06 — graph tables and traversal orders are mutually consistent (partial claim).

C06-F1 (A2/A3 typestate "derived data is fresh"): objects R = receivers(+count), D = donors(+count),
        O = bottom-up (dfs) order, B = breadth-first order / levels.  In every operator apply()
        that writes R: D is rebuilt after the last write to R, O and B are rebuilt after D (they
        read D), on every path to every exit; nothing reads O after R changed before O is rebuilt.
        A router whose output may be multi-direction uses the top-down (Kahn) order.
C06-F2 (A4) donors_count is reset before donors are registered (shared with C09-P2), and the
        routers register the donor of each receiver exactly once (C04-S2 / C05-M1).
C06-F3 (A5, bounded) the traversal algorithms are interpreted on every acyclic flow graph of <= 3
        (quick) / 4 (thorough) nodes -- they only look at the graph shape, never at values -- and
        their outputs are checked against the property's three conditions.
Not decided: the same conditions on graphs with more nodes than the bound (no inductive argument).
"""
from ..effects import Effects, FnAnalysis, fields_of, path_str
from ..flow import Walker, State
from ..sir import pp, strip, walk, AnalysisBroken
from .. import model
from . import persist

R_FIELDS = {"m_receivers", "m_receivers_count"}
D_FIELDS = {"m_donors"}
O_FIELDS = {"m_dfs_indices"}
B_FIELDS = {"m_bfs_indices", "m_bfs_levels"}
ALL_OK = frozenset({"D_ok", "O_ok", "B_ok"})


def classify_effects(effects, root):
    """sets of table groups written / read at paths rooted at `root`"""
    w, r = set(), set()
    for (k, p, h) in effects:
        if p[0] != root:
            continue
        f = fields_of(p)
        if not f:
            continue
        g = "R" if f[0] in R_FIELDS else "D" if f[0] in D_FIELDS else "O" if f[0] in O_FIELDS \
            else "B" if f[0] in B_FIELDS else None
        if g is None:
            continue
        (w if k == "w" else r).add(g)
    return w, r


class OrderWalker(Walker):
    def __init__(self, fn, eff, cache, graph_root, problems, depth=0, closures=None):
        super().__init__(fn)
        # what the callables this function receives as parameters do to the graph tables when
        # called: parameter declaration id -> (written groups, read groups)
        self.closures = dict(closures or {})
        self.eff = eff
        self.cache = cache
        self.graph_root = graph_root      # path root designating the graph impl in this function
        self.problems = problems
        self.an = FnAnalysis(eff, fn)
        self.an.run()
        self.depth = depth
        self.o_writers = []

    def tok(self, st):
        return st.get("tok")

    def set_tok(self, st, toks):
        s = dict(st.sets)
        s["tok"] = frozenset(toks)
        return State(s)

    def apply_groups(self, st, node, written, read, what):
        toks = set(self.tok(st))
        if "O" in read and "O_ok" not in toks:
            self.problems.append((self.fn, node, "%s reads the bottom-up order although receivers "
                                  "changed since it was computed" % what))
        if "B" in read and "B_ok" not in toks and "B" not in written:
            self.problems.append((self.fn, node, "%s reads the breadth-first order although "
                                  "receivers changed since it was computed" % what))
        if "R" in written:
            toks -= {"D_ok", "O_ok", "B_ok"}
        if "D" in written:
            toks.add("D_ok")
        if "O" in written:
            if "D_ok" not in toks:
                self.problems.append((self.fn, node, "%s computes the bottom-up order from donors "
                                      "that are stale with respect to the receivers" % what))
            else:
                toks.add("O_ok")
            self.o_writers.append(what)
        if "B" in written:
            if "D_ok" not in toks:
                self.problems.append((self.fn, node, "%s computes the breadth-first order from "
                                      "stale donors" % what))
            else:
                toks.add("B_ok")
        return self.set_tok(st, toks)

    def exec(self, s, st):
        # a loop that itself writes graph tables is one unit: per-node registration inside the
        # loop is decided by the abstract interpretation of the loop body (C04-S2 / C05-M1)
        if s is not None and st is not None and s.get("k") in ("for", "while", "do", "rangefor"):
            from ..effects import _leaf_effects
            eff = _leaf_effects(self.an, s)
            w, r = classify_effects(eff.effects, self.graph_root)
            if self.closures:
                # callables received as parameters that the loop calls or hands further down
                for c in walk(s):
                    if c.get("k") != "call":
                        continue
                    for u in ([c["obj"]] if c.get("obj") is not None else []) + list(c.get("a", [])):
                        u = strip(u)
                        while isinstance(u, dict) and u.get("k") == "call" and u.get("bn") in ("std::move", "std::forward") \
                                and u.get("a"):
                            u = strip(u["a"][0])
                        if isinstance(u, dict) and u.get("k") == "ref" and u.get("d") in self.closures:
                            cw, cr = self.closures[u["d"]]
                            w = set(w) | set(cw)
                            r = set(r) | set(cr)
            if w:
                return self.apply_groups(st, s, w, r - w, "loop at line %s" % self.fn.loc(s).split(":")[-1])
        return Walker.exec(self, s, st)

    def closure_args(self, node, callee):
        """callee parameter id -> (written, read) graph-table groups of the closure passed for it"""
        from ..effects import _leaf_effects
        out = {}
        for i, a in enumerate(node.get("a", [])):
            if i >= len(callee.params):
                break
            u = strip(a)
            while isinstance(u, dict) and (u.get("k") == "construct" and len(u.get("a", [])) == 1 or
                                           u.get("k") == "call" and u.get("bn") in ("std::move", "std::forward")
                                           and u.get("a")):
                u = strip(u["a"][0])
            if not isinstance(u, dict):
                continue
            lams = []
            if u.get("k") == "lambda":
                lams = [u]
            elif u.get("k") == "ref" and u.get("d") in self.an.lambdas:
                lams = self.an.lambdas[u["d"]]
            elif u.get("k") == "ref" and u.get("d") in self.closures:
                out[callee.params[i]["d"]] = self.closures[u["d"]]      # handed further down
                continue
            w, r = set(), set()
            for lam in lams:
                e = _leaf_effects(self.an, {"k": "expr", "e": lam, "l": lam.get("l")})
                w2, r2 = classify_effects(e.effects, self.graph_root)
                w |= w2
                r |= r2
            if lams:
                out[callee.params[i]["d"]] = (frozenset(w), frozenset(r))
        return out

    def visit(self, node, st):
        k = node.get("k")
        if k == "call" and node.get("fid") is not None:
            callee = self.fn.callee(node)
            if callee is not None and callee.is_lambda and node.get("obj") is not None:
                o = strip(node["obj"])
                if o.get("k") == "ref" and o.get("d") in self.closures:
                    w, r = self.closures[o["d"]]
                    if w or r:
                        return self.apply_groups(st, node, set(w), set(r) - set(w), "callback %s()" % o.get("n"))
                return st
            if callee is None or callee.is_lambda:
                return st
            passed = self.closure_args(node, callee)
            # which root of the callee designates the graph impl?
            obj_paths = self.an.visit(node["obj"]) if node.get("obj") is not None else set()
            croot = None
            if any(p == (self.graph_root,) for p in obj_paths):
                croot = ("this",)
            else:
                for i, a in enumerate(node.get("a", [])):
                    if any(p == (self.graph_root,) for p in self.an.visit(a)):
                        croot = ("p", i)
            if croot is None:
                return st
            if callee.cls == self.fn.cls and self.depth < 4:
                # same implementation class: analyse the callee's own typestate transformation
                est, pres = transformer(callee, self.eff, self.cache, croot, self.problems, self.depth + 1,
                                        closures=passed)
                toks = (set(self.tok(st)) & pres) | est
                return self.set_tok(st, toks)
            # another class: its summary does not contain what the callables passed to it do
            for d, (w, r) in sorted(passed.items()):
                if w or r:
                    st = self.apply_groups(st, node, set(w), set(r) - set(w), "callback passed to %s()" % callee.name)
            s = self.eff.summary(callee)
            w, r = classify_effects(s.effects, croot)
            return self.apply_groups(st, node, w, r, callee.name + "()")
        if k in ("binop", "unop", "call"):
            # direct writes through local aliases
            tgt = None
            if k == "binop" and node["op"].endswith("=") and node["op"] not in ("==", "!=", "<=", ">="):
                tgt = node["lhs"]
            elif k == "unop" and node["op"] in ("++", "--"):
                tgt = node["e"]
            elif k == "call" and node.get("fid") is None and node.get("obj") is not None and \
                    node.get("bn", "").split("::")[-1] in ("fill", "operator="):
                tgt = node["obj"]
            if tgt is not None:
                paths = self.an.visit(tgt)
                w, _ = classify_effects({("w", p, "x") for p in paths}, self.graph_root)
                # registering a donor entry is part of a rebuild, resetting the count is not
                if w:
                    if "D" in w and node.get("bn", "").endswith("fill"):
                        w = w - {"D"}
                    return self.apply_groups(st, node, w, set(), pp(strip(tgt))[:40])
        return st


def transformer(fn, eff, cache, graph_root, problems, depth=0, closures=None):
    """(established, preserved) tokens of fn: exit tokens when started from {} and from ALL_OK"""
    key = (fn.key, graph_root, tuple(sorted((d, tuple(sorted(w)), tuple(sorted(r)))
                                            for d, (w, r) in (closures or {}).items())))
    if key in cache:
        return cache[key]
    res = []
    for start in (frozenset(), ALL_OK):
        sink = problems if start == ALL_OK else []
        w = OrderWalker(fn, eff, cache, graph_root, sink, depth, closures=closures)
        w.run(State({"tok": start}))
        outs = [st.get("tok") for (kind, node, st) in w.exits if kind != "throw"]
        toks = frozenset.intersection(*outs) if outs else frozenset()
        res.append(toks)
        if start == ALL_OK:
            cache[("owriters", fn.key)] = list(w.o_writers)
            cache[("exits", fn.key)] = [(kind, node, st.get("tok")) for (kind, node, st) in w.exits
                                        if kind != "throw"]
    cache[key] = (set(res[0]), set(res[1]))
    return cache[key]


def order_rule(db, eff, chk, uname, rid, only_op=None):
    unit = db.units[uname]
    ops = model.operator_classes(unit)
    impls = model.operator_impls(db, uname)
    n = 0
    for op, d in sorted(impls.items()):
        ap = d["apply"]
        if ap is None or not ops[op]["graph_updated"]:
            continue
        if only_op is not None and op != only_op:
            continue
        n += 1
        cache = {}
        problems = []
        est, pres = transformer(ap, eff, cache, ("p", 0), problems)
        short = op.split("::")[-1]
        for (kind, node, toks) in cache.get(("exits", ap.key), []):
            missing = sorted(ALL_OK - set(toks))
            chk.ob(rid, "%s::apply exit (%s): donors / bottom-up / breadth-first orders fresh [%s]"
                   % (short, kind, uname), not missing, where=ap.loc(node), function=ap.bn,
                   construct="exit-fresh(%s)" % short,
                   detail="" if not missing else "stale at this exit: %s" % ", ".join(
                       {"D_ok": "donors", "O_ok": "bottom-up order", "B_ok": "breadth-first order"}[m]
                       for m in missing), extra={"unit": uname})
        seen = set()
        for (f, node, text) in problems:
            if (f.key, text) in seen:
                continue
            seen.add((f.key, text))
            chk.ob(rid, "%s: %s [%s]" % (short, text, uname), False, where=f.loc(node), function=f.bn,
                   construct="order(%s)" % text.split(" ")[0], extra={"unit": uname})
        if ops[op]["out_flowdir"] == "multi":
            ow = cache.get(("owriters", ap.key), [])
            ok = bool(ow) and all("topdown" in x for x in ow)
            chk.ob(rid, "%s (multi-direction output) computes the bottom-up order with the "
                   "top-down (Kahn) traversal: %s [%s]" % (short, ow, uname), ok, where=ap.ploc,
                   function=ap.bn, construct="kahn-order", extra={"unit": uname})
    if n == 0:
        raise AnalysisBroken("%s: no graph-updating operator found in %s" % (rid, uname))


# ------------------------------------------------------------------------------------ F3

def small_graphs(n, multi):
    """flow graphs on nodes 0..n-1 (node ids are storage indices): every node is a root or drains
    to a non-empty set (single: exactly one) of OTHER nodes; acyclic"""
    import itertools
    nodes = list(range(n))

    def options(i):
        out = [()]
        others = [j for j in nodes if j != i]
        for k in range(1, (len(others) if multi else 1) + 1):
            for sub in itertools.combinations(others, k):
                out.append(sub)
        return out
    for combo in itertools.product(*[options(i) for i in nodes]):
        # acyclicity
        state = {}

        def cyc(u):
            if state.get(u) == 1:
                return True
            if state.get(u) == 2:
                return False
            state[u] = 1
            for v in combo[u]:
                if cyc(v):
                    return True
            state[u] = 2
            return False
        if any(cyc(u) for u in nodes):
            continue
        yield combo


def traversal_rule(db, chk, uname, nmax):
    from ..interp import Interp, World, Obj, PyVec, ThrowEx, NOT_HANDLED, ElemRef, SeqView
    from .routers import Table
    fns = {f.name: f for f in db.fns(unit=uname, pred=lambda f: f.cls == model.GRAPH_IMPL and
                                    f.name.startswith("compute_"))}
    need = ("compute_donors", "compute_dfs_indices_bottomup", "compute_dfs_indices_topdown",
            "compute_bfs_indices_bottomup")
    for k in need:
        if k not in fns:
            raise AnalysisBroken("C06-F3: %s not instantiated in %s" % (k, uname))

    class TW(World):
        def __init__(self, n):
            self.n = n

        def before_call(self, it, fn, call, callee, frame):
            if callee.bn.split("::")[-1] == "size":
                return self.n
            return NOT_HANDLED

        def external(self, it, fn, call, frame):
            bn = call.get("bn", "")
            name = bn.split("::")[-1]
            args = call.get("a", [])
            obj = call.get("obj")
            if bn == "xt::adapt":
                v = it.rv(it.eval(args[0], frame))
                shp = it.rv(it.eval(args[1], frame)) if len(args) > 1 and "layout_type" not in fn.type(args[1].get("t")) else None
                m = shp[0] if isinstance(shp, list) and shp else shp
                if not isinstance(m, int) or isinstance(m, bool):
                    return PyVec(list(v))       # adapt(container): the whole container
                return PyVec(list(v)[:m])
            if obj is not None:
                oref = it.eval(obj, frame)
                o = it.rv(oref)
                if isinstance(o, Table):
                    if name in ("operator()", "flat", "operator[]", "at"):
                        return ElemRef(o, tuple(it.rv(it.eval(a, frame)) for a in args))
                    if name == "fill":
                        o.cells.clear()
                        o.fills.append((None, it.rv(it.eval(args[0], frame))))
                        return None
                if isinstance(o, PyVec) and call.get("cls", "").startswith("xt::"):
                    if name in ("operator()", "flat", "operator[]"):
                        i = it.rv(it.eval(args[0], frame))
                        if not isinstance(i, int) or i < 0 or i >= len(o):
                            raise ThrowEx(call, "index %r out of range (size %d)" % (i, len(o)), fn.loc(call))
                        return ElemRef(o, i)
                    if name in ("begin", "end"):
                        from ..interp import Iter
                        return Iter(o, 0 if name == "begin" else len(o), 1)
                    if name == "operator=" and not isinstance(o, SeqView):
                        v = it.rv(it.eval(args[0], frame))
                        o[:] = list(v)
                        return oref
            return NOT_HANDLED
    # the donor convention of the multi-direction router for a node without receiver (does it
    # register itself as its own donor?) is read off the router itself: interpret apply() on the
    # scenario "no neighbour"
    from .routers import run_router, Scenario, CENTRE
    from ..interp import Sym
    MULTI = "fastscapelib::multi_flow_router"
    map_ = model.operator_impls(db, uname).get(MULTI, {}).get("apply")
    if map_ is None:
        raise AnalysisBroken("C06-F3: multi_flow_router apply() not instantiated in %s" % uname)
    # ... for each kind of node that keeps itself as receiver: a pit, a masked node, a base level
    conventions = {}
    for kind, sc in (("pit", Scenario(False, False, [])), ("masked node", Scenario(True, False, [])),
                     ("base level", Scenario(False, True, []))):
        ws = run_router(map_, sc, Obj(MULTI, {"m_slope_exp": Sym("exp", "p")}))
        outs = {any(k[0] == CENTRE and v == CENTRE for k, v in w.tables["m_donors"].cells.items()) for w in ws}
        for o in outs:
            conventions.setdefault(o, []).append(kind)
    n_sc = 0
    nbad = 0
    for multi, self_donor in [(False, False)] + [(True, c) for c in sorted(conventions)]:
        who = "" if not multi else " (roots as %s)" % " / ".join(conventions[self_donor])
        for n in range(1, nmax + 1):
            for g in small_graphs(n, multi):
                n_sc += 1
                R, C, D, DC = Table("m_receivers"), Table("m_receivers_count"), Table("m_donors"), Table("m_donors_count")
                for i, recs in enumerate(g):
                    if not recs:
                        C[(i,)] = 1
                        R[(i, 0)] = i
                    else:
                        C[(i,)] = len(recs)
                        for j, r in enumerate(recs):
                            R[(i, j)] = r
                dfs, bfs = PyVec([-1] * n), PyVec([-1] * n)
                this = Obj(model.GRAPH_IMPL, {"m_receivers": R, "m_receivers_count": C, "m_donors": D,
                                               "m_donors_count": DC, "m_dfs_indices": dfs, "m_bfs_indices": bfs,
                                               "m_bfs_levels": PyVec([-1] * (n + 1)), "m_grid": None})
                it = Interp(TW(n), max_steps=200000)
                bad = []
                try:
                    if not multi:
                        it.call_fn(fns["compute_donors"], this, [])
                    else:
                        # donors as the multi-direction router registers them (node order)
                        cnt = {}
                        for i, recs in enumerate(g):
                            if not recs and self_donor:
                                D[(i, cnt.get(i, 0))] = i
                                cnt[i] = cnt.get(i, 0) + 1
                            for r in recs:
                                D[(r, cnt.get(r, 0))] = i
                                cnt[r] = cnt.get(r, 0) + 1
                        for i in range(n):
                            DC[(i,)] = cnt.get(i, 0)
                    it.call_fn(fns["compute_dfs_indices_topdown" if multi else "compute_dfs_indices_bottomup"], this, [])
                    it.call_fn(fns["compute_bfs_indices_bottomup"], this, [])
                except ThrowEx as ex:
                    bad.append("threw %s" % ex.text[:70])
                if not bad:
                    # donors inverse of receivers (single: computed by compute_donors)
                    if not multi:
                        for i in range(n):
                            want = sorted(j for j in range(n) if g[j] == (i,))
                            got = sorted(D.get((i, k)) for k in range(DC.get((i,)) if isinstance(DC.get((i,)), int) else 0))
                            if got != want:
                                bad.append("donors of %d are %r, inverse of receivers is %r" % (i, got, want))
                    d = list(this.fields["m_dfs_indices"])
                    if sorted(d) != list(range(n)):
                        bad.append("bottom-up order %r is not a permutation" % d)
                    else:
                        pos = {v: k for k, v in enumerate(d)}
                        for i, recs in enumerate(g):
                            for r in recs:
                                if pos[r] > pos[i]:
                                    bad.append("node %d precedes its receiver %d in the bottom-up order %r" % (i, r, d))
                    b = list(this.fields["m_bfs_indices"])
                    lv = list(this.fields["m_bfs_levels"])
                    if sorted(b) != list(range(n)):
                        bad.append("breadth-first order %r is not a permutation" % b)
                    elif not lv or lv[0] != 0 or lv[-1] != n or any(x >= y for x, y in zip(lv, lv[1:])):
                        bad.append("levels %r do not partition the order into non-empty levels" % lv)
                    else:
                        level = {}
                        for k in range(len(lv) - 1):
                            for v in b[lv[k]:lv[k + 1]]:
                                level[v] = k
                        for i, recs in enumerate(g):
                            for r in recs:
                                if not level[r] < level[i]:
                                    bad.append("receiver %d of node %d is not in a strictly earlier level "
                                               "(levels %r over %r)" % (r, i, lv, b))
                if bad:
                    nbad += 1
                if not bad or nbad <= 6:
                    chk.ob("C06-F3", "[%s] %s-direction graph %s%s" % (uname, "multi" if multi else "single",
                           [list(r) if r else "root" for r in g], who), not bad,
                           where=fns["compute_bfs_indices_bottomup"].ploc,
                           function="fastscapelib::detail::flow_graph_impl::compute_*",
                           construct="traversal(%s)" % ("multi" if multi else "single"),
                           detail="; ".join(bad[:2]), sample=(n_sc % 97 == 1), extra={"unit": uname})
    return n_sc


def run(db, chk):
    eff = Effects(db)
    chk.explanation = (
        "Typestate analysis (must-facts over the structured control flow, callee transformers for "
        "same-class helpers, effect summaries for graph methods) of every graph-updating operator "
        "implementation on all 7 grid instantiations: after receivers change, donors, the "
        "bottom-up order and the breadth-first order are rebuilt, in that order, before any exit "
        "and before anything reads them.")
    chk.not_decided = ["that the computed orders are permutations / topological / level-wise on "
                       "arbitrary graphs (correctness of the traversal algorithms over values)",
                       "exact inverse relation donors <-> receivers beyond per-node registration "
                       "(C04-S2, C05-M1) and the count reset (C09-P2)"]
    chk.rule("C06-F1", "derived tables are rebuilt after the last write to receivers, donors "
             "first, on every path to every exit; multi-direction routers use the Kahn order",
             min_instances=21)
    chk.rule("C06-F3", "bounded exhaustive interpretation of compute_donors / compute_dfs_indices_* "
             "/ compute_bfs_indices_bottomup on EVERY acyclic flow graph of up to %d nodes (single and "
             "multiple direction): donors = inverse of receivers, bottom-up order = permutation with "
             "receivers first, breadth-first order = permutation in non-empty levels with receivers in "
             "strictly earlier levels" % (4 if chk.tier == "thorough" else 3), min_instances=30)
    for uname in sorted(db.units):
        order_rule(db, eff, chk, uname, "C06-F1")
    n = 0
    for uname in (sorted(db.units) if chk.tier == "thorough" else ["raster_queen"]):
        n += traversal_rule(db, chk, uname, 4 if chk.tier == "thorough" else 3)
    chk.absorb(db, "C05", {"C05-M1"}, "C06-F2", "the multi-direction router registers, for every receiver entry, "
               "exactly one donor entry (inverse with multiplicity; shared with C05-M1)", min_instances=100)
    chk.absorb(db, "C04", {"C04-S2"}, "C06-F2b", "the single-direction router (both bodies) registers the node "
               "exactly once as donor of its receiver (shared with C04-S2)", min_instances=100)
    chk.absorb(db, "C09", {"C09-P2"}, "C06-F4", "the routers keep no state between updates: receiver counts and "
               "weights are rewritten at every update (shared with C09-P2)",
               pred=lambda o: "_flow_router::apply" in o["instance"], min_instances=6)
    chk.absorb(db, "C20", {"C20-T1"}, "C06-F5", "operator sequences whose flow directions do not match are rejected "
               "(shared with C20-T1): a resolver fed a multiple-direction state rewrites column 0 only",
               min_instances=399)
    chk.count_scenarios(n, True)
