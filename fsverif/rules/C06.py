"""C06 — graph tables and traversal orders are mutually consistent (partial claim).

C06-F1 (A2/A3 typestate "derived data is fresh"): objects R = receivers(+count), D = donors(+count),
        O = bottom-up (dfs) order, B = breadth-first order / levels.  In every operator apply()
        that writes R: D is rebuilt after the last write to R, O and B are rebuilt after D (they
        read D), on every path to every exit; nothing reads O after R changed before O is rebuilt.
        A router whose output may be multi-direction uses the top-down (Kahn) order.
C06-F2 (A4) donors_count is reset before donors are registered (shared with C09-P2), and the
        routers register the donor of each receiver exactly once (C04-S2 / C05-M1).
Not decided: that the orders are permutations / topological / level-wise on arbitrary graphs
(algorithm correctness over graph values).
"""
from ..effects import Effects, FnAnalysis, fields_of, path_str
from ..flow import Walker, State
from ..sir import pp, strip, walk, AnalysisBroken
from .. import model
from . import persist

R_FIELDS = {"m_receivers", "m_receivers_count"}
D_FIELDS = {"m_donors"}
O_FIELDS = {"m_dfs_indices"}
B_FIELDS = {"m_bfs_indices", "m_bfs_levels"}
ALL_OK = frozenset({"D_ok", "O_ok", "B_ok"})


def classify_effects(effects, root):
    """sets of table groups written / read at paths rooted at `root`"""
    w, r = set(), set()
    for (k, p, h) in effects:
        if p[0] != root:
            continue
        f = fields_of(p)
        if not f:
            continue
        g = "R" if f[0] in R_FIELDS else "D" if f[0] in D_FIELDS else "O" if f[0] in O_FIELDS \
            else "B" if f[0] in B_FIELDS else None
        if g is None:
            continue
        (w if k == "w" else r).add(g)
    return w, r


class OrderWalker(Walker):
    def __init__(self, fn, eff, cache, graph_root, problems, depth=0):
        super().__init__(fn)
        self.eff = eff
        self.cache = cache
        self.graph_root = graph_root      # path root designating the graph impl in this function
        self.problems = problems
        self.an = FnAnalysis(eff, fn)
        self.an.run()
        self.depth = depth
        self.o_writers = []

    def tok(self, st):
        return st.get("tok")

    def set_tok(self, st, toks):
        s = dict(st.sets)
        s["tok"] = frozenset(toks)
        return State(s)

    def apply_groups(self, st, node, written, read, what):
        toks = set(self.tok(st))
        if "O" in read and "O_ok" not in toks:
            self.problems.append((self.fn, node, "%s reads the bottom-up order although receivers "
                                  "changed since it was computed" % what))
        if "B" in read and "B_ok" not in toks and "B" not in written:
            self.problems.append((self.fn, node, "%s reads the breadth-first order although "
                                  "receivers changed since it was computed" % what))
        if "R" in written:
            toks -= {"D_ok", "O_ok", "B_ok"}
        if "D" in written:
            toks.add("D_ok")
        if "O" in written:
            if "D_ok" not in toks:
                self.problems.append((self.fn, node, "%s computes the bottom-up order from donors "
                                      "that are stale with respect to the receivers" % what))
            else:
                toks.add("O_ok")
            self.o_writers.append(what)
        if "B" in written:
            if "D_ok" not in toks:
                self.problems.append((self.fn, node, "%s computes the breadth-first order from "
                                      "stale donors" % what))
            else:
                toks.add("B_ok")
        return self.set_tok(st, toks)

    def exec(self, s, st):
        # a loop that itself writes graph tables is one unit: per-node registration inside the
        # loop is decided by the abstract interpretation of the loop body (C04-S2 / C05-M1)
        if s is not None and st is not None and s.get("k") in ("for", "while", "do", "rangefor"):
            from ..effects import _leaf_effects
            eff = _leaf_effects(self.an, s)
            w, r = classify_effects(eff.effects, self.graph_root)
            if w:
                return self.apply_groups(st, s, w, r - w, "loop at line %s" % self.fn.loc(s).split(":")[-1])
        return Walker.exec(self, s, st)

    def visit(self, node, st):
        k = node.get("k")
        if k == "call" and node.get("fid") is not None:
            callee = self.fn.callee(node)
            if callee is None or callee.is_lambda:
                return st
            # which root of the callee designates the graph impl?
            obj_paths = self.an.visit(node["obj"]) if node.get("obj") is not None else set()
            croot = None
            if any(p == (self.graph_root,) for p in obj_paths):
                croot = ("this",)
            else:
                for i, a in enumerate(node.get("a", [])):
                    if any(p == (self.graph_root,) for p in self.an.visit(a)):
                        croot = ("p", i)
            if croot is None:
                return st
            if callee.cls == self.fn.cls and self.depth < 4:
                # same implementation class: analyse the callee's own typestate transformation
                est, pres = transformer(callee, self.eff, self.cache, croot, self.problems, self.depth + 1)
                toks = (set(self.tok(st)) & pres) | est
                return self.set_tok(st, toks)
            s = self.eff.summary(callee)
            w, r = classify_effects(s.effects, croot)
            return self.apply_groups(st, node, w, r, callee.name + "()")
        if k in ("binop", "unop", "call"):
            # direct writes through local aliases
            tgt = None
            if k == "binop" and node["op"].endswith("=") and node["op"] not in ("==", "!=", "<=", ">="):
                tgt = node["lhs"]
            elif k == "unop" and node["op"] in ("++", "--"):
                tgt = node["e"]
            elif k == "call" and node.get("fid") is None and node.get("obj") is not None and \
                    node.get("bn", "").split("::")[-1] in ("fill", "operator="):
                tgt = node["obj"]
            if tgt is not None:
                paths = self.an.visit(tgt)
                w, _ = classify_effects({("w", p, "x") for p in paths}, self.graph_root)
                # registering a donor entry is part of a rebuild, resetting the count is not
                if w:
                    if "D" in w and node.get("bn", "").endswith("fill"):
                        w = w - {"D"}
                    return self.apply_groups(st, node, w, set(), pp(strip(tgt))[:40])
        return st


def transformer(fn, eff, cache, graph_root, problems, depth=0):
    """(established, preserved) tokens of fn: exit tokens when started from {} and from ALL_OK"""
    key = (fn.key, graph_root)
    if key in cache:
        return cache[key]
    res = []
    for start in (frozenset(), ALL_OK):
        sink = problems if start == ALL_OK else []
        w = OrderWalker(fn, eff, cache, graph_root, sink, depth)
        w.run(State({"tok": start}))
        outs = [st.get("tok") for (kind, node, st) in w.exits if kind != "throw"]
        toks = frozenset.intersection(*outs) if outs else frozenset()
        res.append(toks)
        if start == ALL_OK:
            cache[("owriters", fn.key)] = list(w.o_writers)
            cache[("exits", fn.key)] = [(kind, node, st.get("tok")) for (kind, node, st) in w.exits
                                        if kind != "throw"]
    cache[key] = (set(res[0]), set(res[1]))
    return cache[key]


def order_rule(db, eff, chk, uname, rid, only_op=None):
    unit = db.units[uname]
    ops = model.operator_classes(unit)
    impls = model.operator_impls(db, uname)
    n = 0
    for op, d in sorted(impls.items()):
        ap = d["apply"]
        if ap is None or not ops[op]["graph_updated"]:
            continue
        if only_op is not None and op != only_op:
            continue
        n += 1
        cache = {}
        problems = []
        est, pres = transformer(ap, eff, cache, ("p", 0), problems)
        short = op.split("::")[-1]
        for (kind, node, toks) in cache.get(("exits", ap.key), []):
            missing = sorted(ALL_OK - set(toks))
            chk.ob(rid, "%s::apply exit (%s): donors / bottom-up / breadth-first orders fresh [%s]"
                   % (short, kind, uname), not missing, where=ap.loc(node), function=ap.bn,
                   construct="exit-fresh(%s)" % short,
                   detail="" if not missing else "stale at this exit: %s" % ", ".join(
                       {"D_ok": "donors", "O_ok": "bottom-up order", "B_ok": "breadth-first order"}[m]
                       for m in missing), extra={"unit": uname})
        seen = set()
        for (f, node, text) in problems:
            if (f.key, text) in seen:
                continue
            seen.add((f.key, text))
            chk.ob(rid, "%s: %s [%s]" % (short, text, uname), False, where=f.loc(node), function=f.bn,
                   construct="order(%s)" % text.split(" ")[0], extra={"unit": uname})
        if ops[op]["out_flowdir"] == "multi":
            ow = cache.get(("owriters", ap.key), [])
            ok = bool(ow) and all("topdown" in x for x in ow)
            chk.ob(rid, "%s (multi-direction output) computes the bottom-up order with the "
                   "top-down (Kahn) traversal: %s [%s]" % (short, ow, uname), ok, where=ap.ploc,
                   function=ap.bn, construct="kahn-order", extra={"unit": uname})
    if n == 0:
        raise AnalysisBroken("%s: no graph-updating operator found in %s" % (rid, uname))


def run(db, chk):
    eff = Effects(db)
    chk.explanation = (
        "Typestate analysis (must-facts over the structured control flow, callee transformers for "
        "same-class helpers, effect summaries for graph methods) of every graph-updating operator "
        "implementation on all 7 grid instantiations: after receivers change, donors, the "
        "bottom-up order and the breadth-first order are rebuilt, in that order, before any exit "
        "and before anything reads them.")
    chk.not_decided = ["that the computed orders are permutations / topological / level-wise on "
                       "arbitrary graphs (correctness of the traversal algorithms over values)",
                       "exact inverse relation donors <-> receivers beyond per-node registration "
                       "(C04-S2, C05-M1) and the count reset (C09-P2)"]
    chk.rule("C06-F1", "derived tables are rebuilt after the last write to receivers, donors "
             "first, on every path to every exit; multi-direction routers use the Kahn order",
             min_instances=21)
    for uname in sorted(db.units):
        order_rule(db, eff, chk, uname, "C06-F1")
