"""C20 — operator sequences are validated and their declared effects hold.

C20-T1 (A5, flag domain, exhaustive): the sequence builder (add_operator<OP>, update_snapshots, the
        user-written move constructor), the flow_graph constructor checks, single_flow(), the
        single-column argument handed to the implementation, the snapshot key lists and the
        elevation_updated() flag that drives the pass-through are INTERPRETED for every sequence
        of up to 3 (quick) / 4 (thorough) operators drawn from {single router, multi router,
        pflood, mst, snapshot(graph), snapshot(elevation), snapshot(both)}; the outcome is compared
        with the declarative specification transcribed from the property statement.
C20-T2 (A6) the constexpr flag table of every operator equals the table documented in
        doc/source/guide_flow.md.
C20-T3 (A3) declared vs actual effect: an implementation that writes the graph declares
        graph_updated, one that writes elevation declares elevation_updated (= C09-P1), one that
        declares a single-direction output writes the receiver tables only at column 0, and the
        sequence flags are written only by the interpreted functions.
"""
import itertools
import os
import re

from ..interp import Interp, World, Obj, Sym, PyVec, ThrowEx, NOT_HANDLED, explore
from ..effects import Effects, path_str, first_index, fields_of
from ..sir import pp, strip, walk, calls, AnalysisBroken
from .. import model, extract

SEQ = "fastscapelib::flow_operator_sequence"
UNITS = None
DIR = {"undefined": 0, "single": 1, "multi": 2}
DIRNAME = {v: k for k, v in DIR.items()}


class SeqWorld(World):
    def __init__(self):
        self.impl_single_flow = None

    def skip_stmt(self, it, fn, s):
        if s.get("k") == "expr":
            t = pp(s["e"])
            if t.startswith("this->m_op_vec.") or t.startswith("this->m_op_impl_vec."):
                return True
        if fn.cls == model.FLOW_GRAPH and fn.is_ctor and fn.body is not None and \
                any(s is c for c in fn.body.get("b", [])):
            # top-level statements of the constructor: keep the sanity checks (ifs that throw) and
            # the creation of the implementation (its single-column argument); skip the rest
            if s.get("k") == "if":
                return not any(n.get("k") == "throw" for n in walk(s.get("then")))
            if s.get("k") == "expr" and "make_shared" in pp(s["e"]) and "m_impl_ptr" in pp(s["e"]):
                return False
            if any(n.get("k") == "new" for n in walk(s)):
                return False        # allocation of the snapshot graphs (their single-column argument)
            if s.get("k") == "expr":
                # a helper of the class that carries the sanity checks (it can throw) or creates the
                # implementation is interpreted like the statements it was split from
                for c in calls(s["e"]):
                    cal = fn.callee(c)
                    seen_k = set()
                    work = [cal] if cal is not None and cal.cls == fn.cls else []
                    while work:
                        g = work.pop()
                        if g is None or g.key in seen_k or g.body is None:
                            continue
                        seen_k.add(g.key)
                        if any(n.get("k") in ("throw", "new") for n in walk(g.body)) or \
                                any("make_shared" in pp(n) and "m_impl_ptr" in pp(n) for n in walk(g.body)
                                    if n.get("k") == "expr"):
                            return False
                        work += [g.callee(c2) for c2 in calls(g.body) if g.callee(c2) is not None and g.callee(c2).cls == fn.cls]
            return True
        return False

    def external(self, it, fn, call, frame):
        bn = call.get("bn", "")
        if call.get("k") == "construct":
            if call.get("cls") == "fastscapelib::thread_pool":
                return Sym("thread_pool", "pool")
            if call.get("cls") == model.FLOW_GRAPH and len(call.get("a", [])) == 2 and \
                    "bool" == fn.type(call["a"][1].get("t")).replace("const ", "").strip():
                # a snapshot graph: reduced to the single-column argument it is allocated with
                sf = it.rv(it.eval(call["a"][1], frame))
                return Obj(model.FLOW_GRAPH, {"m_writeable": False,
                                              "m_impl_ptr": Obj(model.GRAPH_IMPL, {"m_single_flow": sf})})
            return NOT_HANDLED
        if bn == "std::make_shared":
            args = call.get("a", [])
            if len(args) == 2:
                self.impl_single_flow = it.rv(it.eval(args[1], frame))
                # the implementation object, reduced to what the facade asks of it
                return Obj(model.GRAPH_IMPL, {"m_single_flow": self.impl_single_flow})
            return Sym("impl", "impl")
        if bn in ("std::shared_ptr::operator=", "std::__shared_ptr::operator="):
            vals = [it.rv(it.eval(a, frame)) for a in call.get("a", [])]
            if call.get("obj") is not None and vals:
                ref = it.eval(call["obj"], frame)
                if hasattr(ref, "set"):
                    ref.set(vals[0])
            return None
        return NOT_HANDLED


def alphabet(ops):
    """symbols: (label, operator class, ctor field values)"""
    out = []
    for op in sorted(ops):
        short = op.split("::")[-1]
        if short == "flow_snapshot":
            out.append(("snapshot(graph)", op, (True, False)))
            out.append(("snapshot(elevation)", op, (False, True)))
            out.append(("snapshot(both)", op, (True, True)))
        else:
            out.append((short, op, None))
    return out


def spec(ops, seq):
    """declarative specification transcribed from the property statement"""
    direction = "undefined"
    graph_updated = False
    elevation_updated = False
    all_single = True
    gkeys, ekeys, snap_single = [], [], {}
    for i, (label, op, snap) in enumerate(seq):
        fl = ops[op]
        if snap is not None:
            name = "s%d" % i
            if snap[0]:
                if direction == "undefined":
                    return {"accept": False, "why": "graph snapshot before any router"}
                gkeys.append(name)
                snap_single[name] = direction == "single"
            if snap[1]:
                ekeys.append(name)
        if fl["in_flowdir"] != "undefined" and fl["in_flowdir"] != direction:
            return {"accept": False, "why": "%s needs %s input" % (label, fl["in_flowdir"])}
        if fl["elevation_updated"]:
            elevation_updated = True
        if fl["graph_updated"]:
            graph_updated = True
            if fl["out_flowdir"] != "undefined":
                direction = fl["out_flowdir"]
                if direction != "single":
                    all_single = False
    if not graph_updated or direction == "undefined":
        return {"accept": False, "why": "no operator updates the graph / defines a direction"}
    return {"accept": True, "single_flow": direction == "single", "single_column": all_single,
            "graph_keys": gkeys, "elevation_keys": ekeys, "snap_single": snap_single,
            "snap_alloc": dict(snap_single), "pass_through": not elevation_updated}


def make_snapshot_op(it, unit, name, save_graph, save_elevation):
    """a flow_snapshot operator built by the library's own constructor (whatever its members are)"""
    SNAP = "fastscapelib::flow_snapshot"
    ctor = [f for f in unit.fns.values() if f.cls == SNAP and f.is_ctor and len(f.params) == 3]
    rec = [r for r in unit.records if r["bn"] == SNAP]
    if not ctor or not rec:
        return Obj(SNAP, {"m_snapshot_name": name, "m_save_graph": save_graph, "m_save_elevation": save_elevation})
    o = Obj(SNAP, {})
    for fld in rec[0]["fields"]:
        o.fields[fld["n"]] = None
    it.call_fn(ctor[0], o, [name, save_graph, save_elevation])
    return o


def find_fn(unit, bn, pred):
    c = [f for f in unit.fns.values() if f.bn == bn and pred(f)]
    return c


def interpret(unit, ops, seq):
    """run the library's own code on the sequence; returns the observed outcome"""
    w = SeqWorld()
    it = Interp(w)
    rec = [r for r in unit.records if r["bn"] == SEQ]
    if not rec:
        raise AnalysisBroken("flow_operator_sequence not instantiated in %s" % unit.name)
    so = it.new_obj(unit.fns[next(iter(unit.fns))], rec[0])
    try:
        for i, (label, op, snap) in enumerate(seq):
            add = [f for f in unit.fns.values() if f.bn == SEQ + "::add_operator" and f.params
                   and f.type(f.params[0]["t"]).startswith("std::shared_ptr<%s>" % op)]
            if not add:
                raise AnalysisBroken("add_operator<%s> not instantiated in %s" % (op, unit.name))
            o = Obj(op, {})
            if snap is not None:
                o = make_snapshot_op(it, unit, "s%d" % i, snap[0], snap[1])
            it.call_fn(add[0], so, [o])
        # move into the flow_graph (user-written move constructor) and run the constructor checks
        ctor = [f for f in unit.fns.values() if f.cls == model.FLOW_GRAPH and f.is_ctor
                and len(f.params) == 2 and "flow_operator_sequence" in f.type(f.params[1]["t"])]
        if not ctor:
            raise AnalysisBroken("flow_graph(grid, operators) not instantiated in %s" % unit.name)
        fg = Obj(model.FLOW_GRAPH, {"m_writeable": True, "m_graph_snapshots": {}, "m_graph_impl_snapshots": {},
                                    "m_elevation_snapshots": {}, "m_grid": Sym("grid", "g")})
        it.call_fn(ctor[0], fg, [Sym("grid", "g"), so])
        ops_obj = fg.fields.get("m_operators")
        if not isinstance(ops_obj, Obj):
            raise AnalysisBroken("flow_graph::m_operators not initialised by the constructor")

        def call0(bn_suffix, this):
            f = [x for x in unit.fns.values() if x.bn == bn_suffix and not x.params]
            if not f:
                raise AnalysisBroken("%s not instantiated" % bn_suffix)
            return it.rv(it.call_fn(f[0], this, []))
        out = {"accept": True}
        out["single_flow"] = bool(call0(model.FLOW_GRAPH + "::single_flow", fg))
        out["single_column"] = bool(w.impl_single_flow)
        out["graph_keys"] = list(call0(model.FLOW_GRAPH + "::graph_snapshot_keys", fg))
        out["elevation_keys"] = list(call0(model.FLOW_GRAPH + "::elevation_snapshot_keys", fg))
        out["pass_through"] = not bool(call0(SEQ + "::elevation_updated", ops_obj))
        ssf = [x for x in unit.fns.values() if x.bn == SEQ + "::snapshot_single_flow"]
        if ssf:
            out["snap_single"] = {}
            for k in out["graph_keys"]:
                out["snap_single"][k] = bool(it.rv(it.call_fn(ssf[0], ops_obj, [k])))
        else:
            out["snap_single"] = None       # the query is not instantiated (not used): see snap_alloc
        # the storage the constructor allocated for each snapshot graph
        out["snap_alloc"] = {}
        for mname in ("m_graph_impl_snapshots", "m_graph_snapshots"):
            m = fg.fields.get(mname)
            if isinstance(m, dict) and m:
                for k, g in m.items():
                    impl = g.fields.get("m_impl_ptr") if isinstance(g, Obj) and g.cls == model.FLOW_GRAPH else g
                    if isinstance(impl, Obj) and "m_single_flow" in impl.fields:
                        out["snap_alloc"][k] = bool(impl.fields["m_single_flow"])
                break
        return out
    except ThrowEx as ex:
        return {"accept": False, "why": ex.text[:80], "where": ex.where}


def doc_table():
    path = extract.repo_file("doc/source/guide_flow.md")
    if not os.path.exists(path):
        raise AnalysisBroken("doc/source/guide_flow.md not found")
    tbl = {}
    for line in open(path):
        m = re.match(r"^\s*fs::(\w+)::(\w+)\.?\s*//\s*(\S+)", line)
        if m and m.group(2) in model.FLAGS:
            v = m.group(3)
            if v in ("true", "false"):
                v = v == "true"
            else:
                v = v.split("::")[-1]
            tbl.setdefault("fastscapelib::" + m.group(1), {})[m.group(2)] = v
    return tbl


def run(db, chk):
    eff = Effects(db)
    maxlen = 4 if chk.tier == "thorough" else 3
    chk.explanation = (
        "Exhaustive abstract interpretation (exact flag/enum domain) of the library's own "
        "sequence-building and validation code for every operator sequence of length <= %d over a "
        "7-symbol alphabet, per grid type, against a declarative specification transcribed from "
        "the property; documented flag table vs constexpr flags; declared vs actual effects of "
        "each operator implementation through effect summaries." % maxlen)
    chk.rule("C20-T1", "for every operator sequence: accepted / rejected, reported direction, "
             "single-column storage, snapshot key lists, per-snapshot direction and pass-through "
             "equal the specification", min_instances=399)
    chk.rule("C20-T4", "the user-written move assignment of the operator sequence transfers every data member "
             "(so that direction, pass-through and snapshot keys survive the move), for every accepted "
             "sequence of <= 3 operators assigned over two different targets", min_instances=50)
    chk.rule("C20-T2", "the constexpr flags of each operator equal the table documented in "
             "doc/source/guide_flow.md", min_instances=12)
    chk.rule("C20-T3", "declared vs actual effects of each operator implementation; sequence "
             "flags written only by the interpreted functions", min_instances=8)

    units = sorted(db.units) if chk.tier == "thorough" else ["raster_queen", "profile", "trimesh"]
    n_sc = 0
    for uname in units:
        unit = db.units[uname]
        ops = model.operator_classes(unit)
        alpha = alphabet(ops)
        if len(alpha) != 7:
            raise AnalysisBroken("operator alphabet has %d symbols (expected 7): %s"
                                 % (len(alpha), [a[0] for a in alpha]))
        bad = 0
        for n in range(1, maxlen + 1):
            for seq in itertools.product(alpha, repeat=n):
                n_sc += 1
                want = spec(ops, seq)
                got = interpret(unit, ops, seq)
                keys = ["accept"] if not want["accept"] else \
                    ["accept", "single_flow", "single_column", "graph_keys", "elevation_keys",
                     "snap_single", "snap_alloc", "pass_through"]
                diff = [k for k in keys if want.get(k) != got.get(k) and not (k == "snap_single" and got.get(k) is None
                                                                                and "snap_alloc" in got)]
                if "snap_alloc" in diff and isinstance(got.get("snap_alloc"), dict) and \
                        set(got["snap_alloc"]) == set(want["snap_alloc"]) and \
                        not any(got["snap_alloc"][k] and not want["snap_alloc"][k] for k in want["snap_alloc"]):
                    diff.remove("snap_alloc")       # more columns than the saved state needs: harmless
                label = " > ".join(s[0] for s in seq)
                if diff and bad < 25:
                    bad += 1
                    chk.ob("C20-T1", "[%s] sequence %s" % (uname, label), False,
                           where=got.get("where", "fastscapelib/flow/flow_operator.hpp"),
                           function=SEQ + "::add_operator", construct="sequence(%s)" % diff[0],
                           detail="differs on %s: code gives %s, specification %s"
                           % (diff, {k: got.get(k) for k in diff}, {k: want.get(k) for k in diff}),
                           extra={"unit": uname})
                elif not diff:
                    chk.ob("C20-T1", "[%s] sequence %s -> %s" % (uname, label,
                           "accepted" if want["accept"] else "rejected"), True,
                           function=SEQ + "::add_operator", construct="sequence",
                           sample=(n_sc % 97 == 1), extra={"unit": uname})
    chk.count_scenarios(n_sc, True)

    # ---- T5: graphs built without operators (snapshot graphs) ---------------------------------------
    chk.rule("C20-T5", "a graph built by the private (grid, single_flow) constructor -- the way snapshot graphs are "
             "built, with an empty operator sequence -- and holding a multiple-direction state does not report "
             "single_flow() (single-direction-only consumers such as the non-linear stream-power solver would "
             "accept it)", min_instances=1)
    for uname in units:
        unit = db.units[uname]
        pc = [f for f in unit.fns.values() if f.cls == model.FLOW_GRAPH and f.is_ctor and len(f.params) == 2
              and f.type(f.params[1]["t"]).replace("const ", "").strip() == "bool"]
        sf = [x for x in unit.fns.values() if x.bn == model.FLOW_GRAPH + "::single_flow" and not x.params]
        if not pc or not sf:
            continue
        for multi_state in (True,):
            w = SeqWorld()
            it = Interp(w)
            rec = [r for r in unit.records if r["bn"] == SEQ]
            if not rec:
                raise AnalysisBroken("flow_operator_sequence not instantiated in %s" % unit.name)
            # (the operator sequence member is default-constructed: no operator)
            fg = Obj(model.FLOW_GRAPH, {"m_writeable": False, "m_operators": it.new_obj(pc[0], rec[0])})
            try:
                it.call_fn(pc[0], fg, [Sym("grid", "g"), not multi_state])
                got = bool(it.rv(it.call_fn(sf[0], fg, [])))
                bad = got
                detail = "single_flow() answers true for a snapshot graph allocated for a multiple-direction state" if bad else ""
            except ThrowEx as ex:
                bad, detail = True, "threw %s" % ex.text[:80]
            chk.ob("C20-T5", "[%s] flow_graph(grid, single_flow=false).single_flow()" % uname, not bad,
                   where=sf[0].ploc, function=sf[0].bn, construct="snapshot-graph-direction", detail=detail,
                   extra={"unit": uname})

    # ---- T4: move assignment ---------------------------------------------------------------------
    import copy as _copy
    for uname in units:
        unit = db.units[uname]
        ops = model.operator_classes(unit)
        alpha = alphabet(ops)
        asg = [f for f in unit.fns.values() if f.bn == SEQ + "::operator=" and f.body]
        if not asg:
            raise AnalysisBroken("flow_operator_sequence move assignment not instantiated in %s" % uname)
        rec = [r for r in unit.records if r["bn"] == SEQ][0]
        any_fn = unit.fns[next(iter(unit.fns))]

        def build(it, seq):
            so = it.new_obj(any_fn, rec)
            for i, (label, op, snap) in enumerate(seq):
                add = [f for f in unit.fns.values() if f.bn == SEQ + "::add_operator" and f.params
                       and f.type(f.params[0]["t"]).startswith("std::shared_ptr<%s>" % op)]
                o = Obj(op, {})
                if snap is not None:
                    o = make_snapshot_op(it, unit, "s%d" % i, snap[0], snap[1])
                it.call_fn(add[0], so, [o])
            return so
        accepted = [seq for n in (1, 2, 3) for seq in itertools.product(alpha, repeat=n) if spec(ops, seq)["accept"]]
        targets = [accepted[0], accepted[-1]]
        for seq in accepted:
            for tseq in targets:
                n_sc += 1
                it = Interp(SeqWorld())
                try:
                    src = build(it, seq)
                    dst = build(it, tseq)
                    before = {k: _copy.deepcopy(v) for k, v in src.fields.items()}
                    it.call_fn(asg[0], dst, [src])
                except ThrowEx as ex:
                    chk.ob("C20-T4", "[%s] move assignment threw" % uname, False, where=asg[0].ploc,
                           function=asg[0].bn, construct="move-assign", detail=ex.text[:80], extra={"unit": uname})
                    continue
                diff = [f["n"] for f in rec["fields"] if dst.fields.get(f["n"]) != before.get(f["n"])]
                chk.ob("C20-T4", "[%s] %s := %s" % (uname, " > ".join(x[0] for x in tseq), " > ".join(x[0] for x in seq)),
                       not diff, where=asg[0].ploc, function=asg[0].bn, construct="move-assign(%s)" % ",".join(diff),
                       detail="" if not diff else "member(s) %s keep the target's old value instead of the source's" % diff,
                       extra={"unit": uname}, sample=(n_sc % 37 == 1))
    chk.count_scenarios(n_sc, True)

    # ---- T2 ------------------------------------------------------------------------------------
    doc = doc_table()
    unit = db.units[units[0]]
    ops = model.operator_classes(unit)
    for op, flags in sorted(doc.items()):
        if op not in ops:
            raise AnalysisBroken("documented operator %s not found in the AST" % op)
        for f, v in sorted(flags.items()):
            ok = ops[op][f] == v
            chk.ob("C20-T2", "%s::%s documented %s, declared %s" % (op.split("::")[-1], f, v, ops[op][f]),
                   ok, where="doc/source/guide_flow.md", function=op, construct="flag(%s)" % f)

    # ---- T3 ------------------------------------------------------------------------------------
    for uname in units:
        unit = db.units[uname]
        ops = model.operator_classes(unit)
        impls = model.operator_impls(db, uname)
        for op, d in sorted(impls.items()):
            ap = d["apply"]
            if ap is None:
                continue
            s = eff.summary(ap)
            gw = sorted({fields_of(p)[0] for (k, p, h) in s.effects
                         if k == "w" and p[0] == ("p", 0) and fields_of(p)
                         and fields_of(p)[0] not in ("m_grid", "m_basins", "m_outlets", "m_pits")})
            declared = bool(ops[op]["graph_updated"])
            ok = declared or not gw
            chk.ob("C20-T3", "%s: writes graph tables %s, declares graph_updated=%s [%s]"
                   % (op.split("::")[-1], gw, declared, uname), ok, where=ap.ploc, function=ap.bn,
                   construct="graph-effect(%s)" % op.split("::")[-1], extra={"unit": uname})
            if ops[op]["out_flowdir"] == "single":
                badcols = []
                for (k, p, h) in s.effects:
                    if k == "w" and p[0] == ("p", 0) and fields_of(p) and \
                            fields_of(p)[0] in ("m_receivers", "m_receivers_distance", "m_receivers_weight"):
                        fi = first_index(p)
                        if fi is None:
                            if h != "whole":
                                badcols.append(path_str(p))
                        elif len(fi) < 2 or fi[1] != ("lit", 0):
                            badcols.append(path_str(p))
                chk.ob("C20-T3", "%s (single-direction output) writes receiver tables only at "
                       "column 0 [%s]" % (op.split("::")[-1], uname), not badcols, where=ap.ploc,
                       function=ap.bn, construct="column0(%s)" % op.split("::")[-1],
                       detail="" if not badcols else "the single-column receiver table of an "
                       "all-single-direction graph would be overrun: %s" % badcols[:3],
                       extra={"unit": uname})
        # who may write the sequence flags
        flagm = {"m_elevation_updated", "m_graph_updated", "m_out_flowdir", "m_all_single_flow",
                 "m_graph_snapshot_keys", "m_elevation_snapshot_keys", "m_graph_snapshot_single_flow"}
        writers = {}
        for fn in db.fns(unit=uname, pred=lambda f: f.cls == SEQ):
            for (k, p, h) in eff.summary(fn).effects:
                if k == "w" and p[0] == ("this",) and fields_of(p) and fields_of(p)[0] in flagm:
                    writers.setdefault(fn.name if not fn.is_ctor else "<ctor>", set()).add(fields_of(p)[0])
        # the functions T1 / T4 interpret: constructors, move assignment, add_operator and whatever
        # private helpers add_operator calls (resolved through the call graph, not by name)
        allowed = {"add_operator", "<ctor>", "operator="}
        work = [f for f in db.fns(unit=uname, pred=lambda f: f.cls == SEQ and f.name == "add_operator")]
        seen_k = set()
        while work:
            f = work.pop()
            if f.key in seen_k:
                continue
            seen_k.add(f.key)
            for c in calls(f.body):
                cal = f.callee(c)
                if cal is not None and cal.cls == SEQ:
                    allowed.add(cal.name)
                    work.append(cal)
        extra = sorted(set(writers) - allowed)
        chk.ob("C20-T3", "sequence flags written only by %s [%s]" % (sorted(writers), uname),
               not extra, where="fastscapelib/flow/flow_operator.hpp", function=SEQ,
               construct="writers(flags)", extra={"unit": uname})
