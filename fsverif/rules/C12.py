"""C12 — stream-power erosion is non-negative and never reverses a slope (partial claim).

C12-V1 (A5) exponent validation: set_slope_exp throws exactly when the exponent is not one and the
        graph is not single-direction (intervals below / at / above one x {single, multi}); the
        constructor goes through set_slope_exp; the classification itself is C13-L1.
C12-V2 (A4) the erosion array and the correction counter are reset at the start of every erode().
C12-V3 (A5, order representatives + opaque numerics) per node of the bottom-up sweep: an outlet /
        [receivers lying above the node never contribute to its implicit update;]
        pit (single own receiver) is never written (erosion stays 0); a node at or below the lake
        level (lowest post-erosion receiver elevation) is never written; the lake level is the
        MINIMUM over the receivers of (elevation - erosion); every write of the node's erosion is
        `elevation - x` with x >= lake level on that path (clamp), exactly once per node.
Not decided: non-negativity "beyond rounding" and anything numerical (the implicit solve is C13).
"""
import itertools

from ..interp import Interp, World, Obj, PyVec, Sym, ThrowEx, NOT_HANDLED, ElemRef, Interval, \
    LoopBound, explore
from ..effects import Effects
from ..sir import pp, strip, walk, calls, AnalysisBroken
from .. import model
from .routers import Table
from . import persist, C13

UNITS = ["raster_queen", "profile", "trimesh"]
SPL = "fastscapelib::spl_eroder"
NODE = 7


class ONum:
    """opaque numeric value (result of the implicit solve); only its recorded order facts count"""
    n = 0

    def __init__(self, desc):
        ONum.n += 1
        self.id = ONum.n
        self.desc = desc
        self.ge = set()      # floats f with self >= f known
        self.lt = set()

    def __deepcopy__(self, memo):
        return self

    def __repr__(self):
        return "<%s#%d>" % (self.desc, self.id)


class EroWorld(World):
    loop_bound = 2

    def __init__(self, recs, h, e_old, e_next, linear):
        self.recs = recs            # receiver node ids (may contain NODE itself)
        self.h = h
        self.e_old = e_old          # dict node -> old elevation rep
        self.e_next = e_next        # dict node -> post-erosion elevation rep
        self.linear = linear
        self.writes = []            # (value written to m_erosion[NODE])
        self.lake_tests = []        # floats compared with h through <=
        self.ncorr = 0

    # values -------------------------------------------------------------------------------------
    def sym_binop(self, op, a, b):
        if op == "-" and isinstance(a, float) and isinstance(b, Sym) and b.kind == "ero":
            # elevation(rec) - erosion(rec): the receiver's post-erosion elevation
            for r, v in self.e_old.items():
                if v == a and b.tag == r:
                    return self.e_next[r]
            raise AnalysisBroken("spl model: elevation - erosion of different nodes")
        if op == "-" and isinstance(a, float) and a == self.h and isinstance(b, (ONum, float)):
            return Sym("written", "h-x", b)
        return ONum("num")

    def sym_unop(self, op, a):
        return ONum("num")

    def sym_cmp(self, op, a, b):
        if isinstance(a, ONum) and isinstance(b, float) or isinstance(b, ONum) and isinstance(a, float):
            return None
        if isinstance(a, ONum) or isinstance(b, ONum):
            return None
        raise AnalysisBroken("spl model: comparison %r %s %r" % (a, op, b))

    def on_decision(self, op, a, b, outcome):
        if isinstance(a, ONum) and isinstance(b, float):
            lt = (op == "<" and outcome) or (op == ">=" and not outcome)
            ge = (op == "<" and not outcome) or (op == ">=" and outcome)
            if ge:
                a.ge.add(b)
            if lt:
                a.lt.add(b)

    # library model --------------------------------------------------------------------------------
    def before_call(self, it, fn, call, callee, frame):
        name = callee.bn.split("::")[-1]
        if name == "impl":
            return Sym("impl", "i")
        if name in ("receivers", "receivers_count", "receivers_distance", "receivers_weight"):
            return self.tables[name]
        if name == "nodes_indices_bottomup":
            return PyVec([NODE])
        if name == "single_flow":
            return True         # (only consulted by set_slope_exp, whose rejection rule is C12-V1)
        return NOT_HANDLED

    def external(self, it, fn, call, frame):
        bn = call.get("bn", "")
        name = bn.split("::")[-1]
        args = call.get("a", [])
        obj = call.get("obj")
        if bn in ("std::pow", "pow"):
            for a in args:
                it.eval(a, frame)
            return ONum("pow")
        if obj is not None:
            o = it.rv(it.eval(obj, frame))
            if isinstance(o, Table) and name in ("operator()", "flat", "operator[]", "at"):
                key = tuple(it.rv(it.eval(a, frame)) for a in args)
                return ElemRef(o, key)
            if isinstance(o, Sym) and o.kind == "elevarray":
                i = it.rv(it.eval(args[0], frame))
                return self.h if i == NODE else self.e_old[i]
            if isinstance(o, Sym) and o.kind in ("area", "kcoef"):
                return ONum(o.kind)
            if isinstance(o, Sym) and o.kind == "erosion":
                if name == "fill":
                    return None
                if name in ("begin", "end", "cbegin", "cend"):
                    from ..interp import WholeRange

                    class _Ero:
                        def fill_all(self_inner, v):
                            return None
                    if not hasattr(self, "_ero_range"):
                        self._ero_range = _Ero()
                    return WholeRange(self._ero_range, name in ("end", "cend"))
                i = it.rv(it.eval(args[0], frame))
                return EroRef(self, i)
        return NOT_HANDLED

    def on_assign(self, it, fn, node, ref, value):
        pass


class LogTable(Table):
    """graph table that logs which cells are read"""

    def __init__(self, name):
        Table.__init__(self, name)
        self.reads = []

    def get(self, key):
        self.reads.append(key)
        return Table.get(self, key)


class EroRef:
    pass


from ..interp import Ref


class EroRef(Ref):
    def __init__(self, w, i):
        self.w = w
        self.i = i

    def get(self):
        if self.i == NODE:
            return 0.0
        return Sym("ero", self.i)

    def set(self, v):
        if self.i != NODE:
            raise AnalysisBroken("spl model: erosion of another node (%r) written" % (self.i,))
        self.w.writes.append(v)


def order_scenarios():
    """(receivers, h, old elevations, post-erosion elevations) representatives"""
    out = []
    h = 10.0
    # one receiver: self (outlet/pit) or another node with next elevation below / equal / above h
    out.append(([NODE], h, {NODE: h}, {NODE: h}))
    for e_old, e_next in ((8.0, 7.0), (10.0, 9.0), (12.0, 9.0), (12.0, 10.0), (12.0, 11.0), (8.0, 8.0)):
        out.append(([20], h, {20: e_old}, {20: e_next}))
    # two receivers: all orders of their post-erosion elevations relative to h
    vals = [(8.0, 7.0), (9.0, 9.0), (12.0, 9.5), (12.0, 10.0), (13.0, 11.0)]
    for a, b in itertools.product(vals, repeat=2):
        out.append(([20, 21], h, {20: a[0], 21: b[0]}, {20: a[1], 21: b[1]}))
    # a two-receiver node one of whose receivers is itself (multi-direction never does this, but
    # the guard is r_count == 1 && self)
    return out


def run(db, chk):
    eff = Effects(db)
    chk.explanation = (
        "Interval interpretation of set_slope_exp x {single, multi} for the rejection rule; "
        "must-kill analysis of erode()'s persistent members; abstract interpretation of the erode "
        "sweep body per node with order representatives for elevations and opaque values for the "
        "implicit solve (forking on every undetermined comparison, Newton loop unrolled <= 2): "
        "control structure of the no-erosion cases, minimality of the lake level and the clamp.")
    chk.not_decided = ["non-negativity of erosion beyond rounding; every numerical aspect of the "
                       "implicit solve (C13)", "Newton iterations beyond two unrollings (the loop "
                       "writes no erosion; its result is opaque to the rule)"]
    chk.rule("C12-V1", "set_slope_exp rejects exactly (exponent != 1 and not single-direction); "
             "the constructor goes through it", min_instances=10)
    chk.rule("C12-V2", "erode() resets the erosion array and the correction counter before use",
             min_instances=2)
    chk.rule("C12-V3", "per node: outlets / pits and lake nodes are not written; lake level = "
             "minimum post-erosion receiver elevation; every erosion write is elevation - x with "
             "x >= lake level, once", min_instances=30)
    n_sc = 0
    for uname in UNITS:
        if uname not in db.units:
            continue
        # ---- V1
        fns = db.fns(SPL + "::set_slope_exp", unit=uname)
        if not fns:
            raise AnalysisBroken("set_slope_exp not instantiated in %s" % uname)
        fn = fns[0]
        for label, val, is_one in C13.SCENARIOS:
            for single in (True, False):
                outs = C13.classify(fn, val, single)
                n_sc += len(outs)
                want_throw = (not is_one) and (not single)
                ok = all(o[1] == want_throw for o in outs)
                chk.ob("C12-V1", "[%s] %s on a %s-direction graph: %s" % (
                    uname, label, "single" if single else "multiple",
                    "/".join(sorted({"rejected" if o[1] else "accepted" for o in outs}))), ok,
                    where=fn.ploc, function=fn.bn, construct="reject(n!=1,multi)",
                    detail="" if ok else "expected %s" % ("rejection" if want_throw else "acceptance"),
                    extra={"unit": uname})
        ctors = [f for f in db.fns(unit=uname, pred=lambda f: f.cls == SPL and f.is_ctor)]
        for c in ctors:
            ok = any(x.get("bn") == SPL + "::set_slope_exp" for x in calls(c.body))
            chk.ob("C12-V1", "[%s] the constructor validates the exponent through set_slope_exp" % uname,
                   ok, where=c.ploc, function=c.bn, construct="ctor-validates", extra={"unit": uname})
        # ---- V2
        er = db.fns(SPL + "::erode", unit=uname)
        if not er:
            raise AnalysisBroken("spl_eroder::erode not instantiated in %s" % uname)
        er = er[0]
        for member in ("m_erosion", "m_n_corr"):
            key = (("this",), ("f", member))
            kw = persist.KillWalk(eff, lambda k, key=key: k == key)
            kw.stack.append(er.key)
            kw.run_fn(er, {("this",): {(("this",),)}}, frozenset())
            ok = "kill" in kw.touched.get(key, set()) and key not in kw.findings
            chk.ob("C12-V2", "[%s] erode(): %s reset before use" % (uname, member), ok,
                   where=(kw.findings.get(key) or (er.ploc,))[0], function=er.bn,
                   construct="reset(%s)" % member,
                   detail="" if ok else "erosion / counter of the previous step leaks into this one",
                   extra={"unit": uname})
        # ---- V3
        nbad = 0
        abandoned = 0
        for (recs, h, e_old, e_next) in order_scenarios():
            for linear in (True, False):
                results = []

                def run_one(dec, recs=recs, h=h, e_old=e_old, e_next=e_next, linear=linear):
                    w = EroWorld(recs, h, e_old, e_next, linear)
                    R, C, D, Wt = (LogTable(x) for x in ("r", "c", "d", "w"))
                    C[(NODE,)] = len(recs)
                    for j, r in enumerate(recs):
                        R[(NODE, j)] = r
                        D[(NODE, j)] = 1.5
                        Wt[(NODE, j)] = 0.5
                    w.tables = {"receivers": R, "receivers_count": C, "receivers_distance": D,
                                "receivers_weight": Wt}
                    it = Interp(w, dec)
                    orig = it.compare

                    def compare(op, a, b, node=None, _orig=orig):
                        before = len(it.made)
                        ra, rb = it.rv(a), it.rv(b)
                        if op == "<=" and ra == h and isinstance(rb, float) and isinstance(ra, float):
                            w.lake_tests.append(rb)
                        r = _orig(op, a, b, node)
                        if len(it.made) > before:
                            w.on_decision(op, ra, rb, r)
                        return r
                    it.compare = compare
                    this = Obj(SPL, {"m_flow_graph": Sym("flow_graph", "fg"), "m_erosion": Sym("erosion", "e"),
                                     "m_n_corr": 99, "m_k_coef": Sym("kcoef", "k"), "m_area_exp": 0.5,
                                     "m_slope_exp": 1.0 if linear else 1.7, "m_tolerance": 1e-3,
                                     "m_linear": linear})
                    try:
                        # whatever else the setter derives from the exponent (beyond m_linear) is
                        # computed by the library's own setter
                        sse = [f for f in er.unit.fns.values() if f.cls == SPL and f.name == "set_slope_exp"]
                        if sse:
                            it.call_fn(sse[0], this, [1.0 if linear else 1.7])
                        it.call_fn(er, this, [Sym("elevarray", "elev"), Sym("area", "A"), 1.0])
                        w.status = "ok"
                    except LoopBound:
                        w.status = "loop-bound"
                    except ThrowEx as ex:
                        w.status = "threw " + ex.text
                    return it, w
                for made, w in explore(run_one, max_paths=4000):
                    n_sc += 1
                    if w.status == "loop-bound":
                        abandoned += 1
                        continue
                    bad = []
                    if w.status != "ok":
                        bad.append(w.status)
                    outlet = (len(recs) == 1 and recs[0] == NODE)
                    lake = min(e_next[r] for r in recs)
                    if outlet:
                        if w.writes:
                            bad.append("outlet / pit node written")
                    elif h <= lake:
                        if w.writes:
                            bad.append("node at or below the lake level (%.3g <= %.3g) eroded" % (h, lake))
                    else:
                        if w.lake_tests and w.lake_tests[-1] != lake:
                            bad.append("lake level computed as %r, minimum post-erosion receiver "
                                       "elevation is %r" % (w.lake_tests[-1], lake))
                        if len(w.writes) != 1:
                            bad.append("%d erosion writes for the node (expected one)" % len(w.writes))
                        # a receiver lying above the node (lake rim) must not contribute to the update
                        for tbl in ("receivers_weight", "receivers_distance"):
                            for key in w.tables[tbl].reads:
                                if len(key) == 2 and key[0] == NODE and key[1] < len(recs) and \
                                        e_old[recs[key[1]]] > h:
                                    bad.append("receiver %d lies above the node (%.3g > %.3g) but "
                                               "contributes to its implicit update: the new elevation "
                                               "can exceed the old one (negative erosion)"
                                               % (recs[key[1]], e_old[recs[key[1]]], h))
                                    break
                        for v in w.writes:
                            if isinstance(v, float):
                                x = h - v          # concrete representatives: new elevation
                            elif isinstance(v, Sym) and v.kind == "written":
                                x = v.data
                            else:
                                bad.append("erosion written as %r, not elevation - new elevation" % (v,))
                                continue
                            if isinstance(x, float):
                                if x < lake:
                                    bad.append("new elevation %r below the lake level %r" % (x, lake))
                            elif isinstance(x, ONum):
                                if not any(f >= lake for f in x.ge):
                                    bad.append("new elevation is not clamped at the lake level on this path")
                    if bad:
                        nbad += 1
                    if not bad or nbad <= 6:
                        chk.ob("C12-V3", "[%s] receivers %s (old %s, next %s), node %.3g, %s case, path %s"
                               % (uname, recs, [e_old[r] for r in recs], [e_next[r] for r in recs], h,
                                  "linear" if linear else "non-linear", "".join("T" if d else "F" for d in made)),
                               not bad, where=er.ploc, function=er.bn, construct="node-erosion",
                               detail="; ".join(bad[:2]), sample=(n_sc % 59 == 1), extra={"unit": uname})
        chk.extra.setdefault("paths_abandoned_at_loop_bound", 0)
        chk.extra["paths_abandoned_at_loop_bound"] += abandoned
    chk.absorb(db, "C16", {"C16-T1"}, "C12-V4", "a graph snapshot the eroder may be run on carries the receivers, "
               "their distances and weights of the source graph (shared with C16-T1): a stale distance makes the "
               "stream-power factor negative", pred=lambda o: "m_receivers" in o["instance"], min_instances=3)
    chk.absorb(db, "C13", {"C13-Q3"}, "C12-V6", "with zero erodibility or a zero time step the erosion is exactly 0, not "
               "NaN, for every exponent class (shared with C13-Q3)", min_instances=10)
    chk.absorb(db, "C05", {"C05-M1"}, "C12-V5", "base levels, masked nodes and pits are recognisable by the eroder: the "
               "multiple-direction router leaves them a single self receiver (count one) at every update (shared "
               "with C05-M1)", min_instances=100)
    chk.absorb(db, "C20", {"C20-T5"}, "C12-V7", "the single_flow() answer the eroder's exponent check relies on is not 'true' "
               "for a snapshot graph holding a multiple-direction state (shared with C20-T5)", min_instances=1)
    chk.count_scenarios(n_sc, False)
