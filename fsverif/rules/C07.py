"""C07 — grid neighbourhoods match the grid geometry on every accessor (partial claim).

C07-G1 (A5, symbolic offsets; A6 tables) for each raster connectivity (rook, queen, bishop), each
        of the 4 looping configurations and each of the 9 node codes: build_coded_neighbors_offsets
        / node_neighbors_offsets are interpreted with SYMBOLIC shape (wrap steps DR = nrows-1,
        DC = ncols-1 non-zero, i.e. shape >= 2 per axis).  The resulting (row, col) offset list
        must equal the geometric specification (one step per direction of the connectivity; at a
        first / last row or column the step exists only across a looped axis, and is then the
        wrap +-DR / +-DC), without duplicates, and its length must equal
        build_neighbors_count(...)[code].  neighbors_indices_impl must linearise an offset as
        row_offset*ncols + col_offset + idx (symbolically).  Profile grid: the three node classes
        x two configurations likewise, against build_neighbors_count.
C07-G2 (A3) the neighbour look-ups are memos of a pure function (who-may-write, shared with C09-P4).
C07-G3 the neighbour accessors (indices, distances, struct, raster (row, col) variants) all draw
        from the same cached / computed index list and the same count.
Not decided: Euclidean distances and statuses numerically (xtensor expressions), symmetry as such
(it follows from the geometric specification), size-2 looped axes (duplicate neighbours).
"""
import itertools

from ..interp import Interp, World, Obj, PyVec, Poly, Sym, ThrowEx, NOT_HANDLED, ElemRef
from ..effects import Effects, fields_of
from ..sir import pp, strip, walk, calls, AnalysisBroken
from .. import model
from . import C09

STATUS = {"core": 0, "fixed_value": 1, "fixed_gradient": 2, "looped": 3}
UNITS = ["raster_queen", "raster_rook", "raster_bishop", "raster_nocache", "profile", "profile_nocache",
         "trimesh"]
M64 = 1 << 64
DR, DC, NC, NR, IDX = (Poly.sym(x) for x in ("DR", "DC", "NC", "NR", "idx"))


def norm(p):
    """canonical form of a polynomial modulo 2^64 (unsigned index arithmetic)"""
    p = Poly.of(p)
    return tuple(sorted((k, v % M64) for k, v in p.terms.items() if v % M64))


class GridWorld(World):
    def sym_cmp(self, op, a, b):
        for x in (a, b):
            if isinstance(x, Poly) and any(v.startswith("truncated<") for mono in x.terms for v in mono):
                return op in ("!=", "<", "<=")        # a poisoned step: any outcome ends in a mismatch
        if op in ("!=", "==") and (b == 0 or a == 0):
            x = a if b == 0 else b
            if isinstance(x, Poly):
                n = norm(x)
                nz = n in (norm(DR), norm(DC), norm(DR * Poly.of(-1)), norm(DC * Poly.of(-1)))
                if nz:
                    return op == "!="     # shape >= 2 per axis: the wrap steps are non-zero
                if not n:
                    return op == "=="
        # a symbolic axis length N = D + 1 stands for every N >= 3
        for x, y, flip in ((a, b, False), (b, a, True)):
            if isinstance(x, Poly) and isinstance(y, int) and not isinstance(y, bool):
                n = norm(x)
                for base, off in ((DR, 1), (DC, 1), (DR, 0), (DC, 0)):
                    if n == norm(base + Poly.of(off)):
                        lo = 2 + off          # D >= 2, N >= 3
                        o = op if not flip else {"<": ">", "<=": ">=", ">": "<", ">=": "<=", "==": "==", "!=": "!="}[op]
                        if o == "<" and y <= lo:
                            return False
                        if o == "<=" and y < lo:
                            return False
                        if o == ">" and y < lo:
                            return True
                        if o == ">=" and y <= lo:
                            return True
                        if o == "==" and y < lo:
                            return False
                        if o == "!=" and y < lo:
                            return True
        raise AnalysisBroken("grid model: comparison %r %s %r" % (a, op, b))

    def external(self, it, fn, call, frame):
        return NOT_HANDLED

    def narrow_cast(self, it, type_str, value, where):
        # axis lengths are unbounded: a step of N - 1 nodes does not fit a narrower integer type
        return Poly.sym("truncated<%s>(%s)" % (type_str, value))


def expected_offsets(rc, vloop, hloop, code, dr=DR, dc=DC):
    rpos, cpos = divmod(code, 3)       # 0 first, 1 middle, 2 last
    dr, dc = Poly.of(dr), Poly.of(dc)
    up = {0: (dr if vloop else None), 1: -1, 2: -1}[rpos]
    down = {0: 1, 1: 1, 2: ((dr * Poly.of(-1)) if vloop else None)}[rpos]
    left = {0: (dc if hloop else None), 1: -1, 2: -1}[cpos]
    right = {0: 1, 1: 1, 2: ((dc * Poly.of(-1)) if hloop else None)}[cpos]
    out = []

    def add(r, c):
        if r is None or c is None:
            return
        out.append((norm(r), norm(c)))
    if rc in ("queen", "bishop"):
        add(up, left)
    if rc in ("queen", "rook"):
        add(up, 0)
    if rc in ("queen", "bishop"):
        add(up, right)
    if rc in ("queen", "rook"):
        add(0, left)
        add(0, right)
    if rc in ("queen", "bishop"):
        add(down, left)
    if rc in ("queen", "rook"):
        add(down, 0)
    if rc in ("queen", "bishop"):
        add(down, right)
    return out


def bounds(vloop, hloop):
    L = STATUS["looped"]
    F = STATUS["fixed_value"]
    return Obj("fastscapelib::raster_boundary_status",
               {"left": L if hloop else F, "right": L if hloop else F,
                "top": L if vloop else F, "bottom": L if vloop else F})


def run(db, chk):
    eff = Effects(db)
    chk.explanation = (
        "Symbolic abstract interpretation of the raster neighbour tables (offset lists per node "
        "code, neighbour counts, linearisation of offsets) for 3 connectivities x 4 looping "
        "configurations x 9 node codes with symbolic shape, and of the profile grid's neighbour "
        "computation, against the geometric specification; who-may-write purity of the look-ups; "
        "agreement of the accessors on their data sources; concrete interpretation of the (row, col) "
        "accessors on torus neighbourhoods (G8) and of the per-code distance table (G9) on representative "
        "shapes.")
    chk.not_decided = ["distances on shapes other than the representative ones of C07-G9 (the table depends on the "
                       "shape only through the wrap offsets), profile-grid and mesh distances, neighbour statuses",
                       "size-2 looped axes (duplicate neighbours), outside the rule's bound DR, DC != 0 "
                       "and != +-1", "trimesh connectivity (C18)"]
    chk.assume("each axis is either of length exactly 2 (concrete) or symbolic of length >= 3; on a "
               "looped 2-node axis the wrap and the unit step coincide (duplicates tolerated, "
               "count / offsets agreement still required)")
    chk.rule("C07-G1", "offset lists, neighbour counts and index linearisation equal the geometric "
             "specification for every connectivity x looping configuration x node code",
             min_instances=114)
    chk.rule("C07-G5", "flat index <-> (row, col): unravel_idx(r*ncols + c) == (r, c) and ravel_idx(r, c) == "
             "r*ncols + c as exact integer identities for symbolic r, c, ncols (the (row, col) accessors go "
             "through them)", min_instances=4)
    chk.rule("C07-G2", "neighbour look-ups read only members that nothing writes after construction",
             min_instances=7)
    chk.rule("C07-G3", "all neighbour accessors use the same count and the same (cached) index list",
             min_instances=7)
    chk.rule("C07-G8", "the (row, col) accessors report, for every neighbour with flat index f, the row and "
             "column of f itself (row * ncols + col == f, within the shape), including neighbours reached "
             "across looped borders: interpretation on representative shapes with the wrapped queen "
             "neighbourhood of every node as the cached index list, the library's own ravel / unravel "
             "helpers included", min_instances=1)
    chk.rule("C07-G9", "the per-code distance table gives every neighbour offset its Euclidean step length "
             "(dy for a row step, dx for a column step, hypot(dy, dx) for a diagonal one), a step across a "
             "looped border counting as ONE step: build_coded_neighbors_distances interpreted (with the "
             "library's distance helper) on the offset tables of representative shapes for every looping "
             "configuration and spacing dy != dx", min_instances=1)
    chk.rule("C07-G4", "by-reference accessors return exactly `neighbors_count` entries whatever "
             "the output container held before (query-order independence)", min_instances=14)
    n_sc = 0
    for uname in UNITS:
        if uname not in db.units:
            continue
        unit = db.units[uname]
        if uname.startswith("raster"):
            rc = {"raster_queen": "queen", "raster_rook": "rook", "raster_bishop": "bishop",
                  "raster_nocache": "queen"}[uname]
            bco = db.fns("fastscapelib::raster_grid::build_coded_neighbors_offsets", unit=uname)
            bnc = [f for f in db.fns("fastscapelib::raster_neighbors::build_neighbors_count", unit=uname)
                   if ("raster_connect::%s>" % rc) in f.clstype()]
            nii = db.fns("fastscapelib::raster_grid::neighbors_indices_impl", unit=uname)
            if not bco or not bnc or not nii:
                raise AnalysisBroken("raster neighbour functions not instantiated in %s" % uname)
            for vloop, hloop, rcls, ccls in itertools.product((False, True), (False, True),
                                                              ("ge3", "two"), ("ge3", "two")):
                if (rcls == "two" or ccls == "two") and not (chk.tier == "thorough" or uname == "raster_queen"
                                                            or uname == "raster_rook"):
                    continue
                dr_v = DR if rcls == "ge3" else 1
                dc_v = DC if ccls == "ge3" else 1
                it = Interp(GridWorld())
                this = Obj("fastscapelib::raster_grid", {"m_shape": PyVec([NR, NC]),
                                                         "m_bounds_status": bounds(vloop, hloop)})

                class W(GridWorld):
                    def sym_binop(self, op, a, b):
                        if op == "-" and b == 1 and isinstance(a, Poly):
                            if norm(a) == norm(NR):
                                return DR
                            if norm(a) == norm(NC):
                                return DC
                        return GridWorld.sym_binop(self, op, a, b)
                # m_shape[0] - 1 is evaluated on polynomials; name the results DR / DC
                it = Interp(GridWorld())
                this.fields["m_shape"] = PyVec([DR + Poly.of(1) if rcls == "ge3" else 2,
                                                DC + Poly.of(1) if ccls == "ge3" else 2])
                try:
                    table = it.rv(it.call_fn(bco[0], this, []))
                    counts = it.rv(it.call_fn(bnc[0], this, [this.fields["m_bounds_status"]]))
                except ThrowEx as ex:
                    raise AnalysisBroken("C07: neighbour tables threw %s" % ex.text)
                for code in range(9):
                    rpos, cpos = divmod(code, 3)
                    if (rcls == "two" and rpos == 1) or (ccls == "two" and cpos == 1):
                        continue      # a 2-node axis has no middle position
                    n_sc += 1
                    got = [(norm(o[0]), norm(o[1])) for o in table[code]]
                    want = expected_offsets(rc, vloop, hloop, code, dr_v, dc_v)
                    bad = []
                    if sorted(got) != sorted(want):
                        bad.append("offsets differ from the geometry: got %d, expected %d entries"
                                   % (len(got), len(want)))
                    dup_ok = (rcls == "two" and vloop) or (ccls == "two" and hloop)
                    if len(set(got)) != len(got) and not dup_ok:
                        bad.append("duplicate neighbour offsets")
                    if counts[code] != len(want):
                        bad.append("neighbour count table says %r, geometry gives %d" % (counts[code], len(want)))
                    chk.ob("C07-G1", "[%s] %s, rows %s cols %s, vertical loop %s, horizontal loop %s, node code %d"
                           % (uname, rc, ">=3" if rcls == "ge3" else "2", ">=3" if ccls == "ge3" else "2",
                              vloop, hloop, code), not bad, where=bco[0].ploc,
                           function=bco[0].bn, construct="offsets(code %d)" % code,
                           detail="; ".join(bad), sample=(n_sc % 19 == 1), extra={"unit": uname})
            # linearisation of an offset
            it = Interp(GridWorld())
            off = PyVec([PyVec([Poly.sym("ro"), Poly.sym("co")])])
            this = Obj("fastscapelib::raster_grid", {"m_shape": PyVec([NR, NC]),
                                                     "m_neighbor_offsets": PyVec([off] * 9),
                                                     "m_nodes_codes": PyVec([0] * 4)})
            out = PyVec([None] * 8)
            try:
                it.call_fn(nii[0], this, [out, 2])
                got = out[0]
                want = Poly.sym("ro") * NC + Poly.sym("co") + Poly.of(2)
                ok = isinstance(got, Poly) and norm(got) == norm(want)
                det = "" if ok else "neighbour index computed as %r, expected row_offset*ncols + col_offset + idx" % (got,)
            except ThrowEx as ex:
                ok, det = False, "threw %s" % ex.text
            chk.ob("C07-G1", "[%s] neighbors_indices_impl linearises (row, col) offsets row-major" % uname,
                   ok, where=nii[0].ploc, function=nii[0].bn, construct="linearise", detail=det,
                   extra={"unit": uname})
            # ---- G5: the (row, col) accessors go through unravel_idx / ravel_idx
            unr = db.fns("fastscapelib::raster_grid::unravel_idx", unit=uname)
            rav = db.fns("fastscapelib::raster_grid::ravel_idx", unit=uname)
            if not unr or not rav:
                raise AnalysisBroken("raster_grid::unravel_idx / ravel_idx not instantiated in %s" % uname)
            NCs, Rs, Cs = Poly.sym("NC"), Poly.sym("r"), Poly.sym("c")

            class IdxWorld(GridWorld):
                def sym_binop(self, op, a, b):
                    # integer division / remainder of r*NC + c (0 <= c < NC) by NC
                    if op in ("/", "%") and isinstance(a, Poly) and isinstance(b, Poly) and norm(b) == norm(NCs):
                        q, rem = {}, {}
                        for mono, k in a.terms.items():
                            if "NC" in mono:
                                m2 = list(mono)
                                m2.remove("NC")
                                q[tuple(m2)] = q.get(tuple(m2), 0) + k
                            else:
                                rem[mono] = k
                        if norm(Poly(rem)) in (norm(Cs), norm(Poly.of(0))):
                            return Poly(q) if op == "/" else Poly(rem)
                    # anything else (floating-point arithmetic on an index, unknown operand) is not an
                    # exact integer operation for all shapes
                    return Poly.sym("inexact<%s %s %s>" % (a, op, b))

                def narrow_cast(self, it2, type_str, value, where):
                    return Poly.sym("truncated<%s>(%s)" % (type_str, value))

            class Lenient(Obj):
                def getfield(self, n):
                    if n not in self.fields:
                        return Poly.sym("member<%s>" % n)
                    return self.fields[n]
            it = Interp(IdxWorld())
            this = Lenient("fastscapelib::raster_grid", {"m_shape": PyVec([Poly.sym("NR"), NCs])})
            bad = []
            try:
                got = it.rv(it.call_fn(unr[0], this, [Rs * NCs + Cs]))
                if not (isinstance(got, (tuple, list)) and len(got) == 2 and isinstance(got[0], Poly)
                        and isinstance(got[1], Poly) and norm(got[0]) == norm(Rs) and norm(got[1]) == norm(Cs)):
                    bad.append("unravel_idx(r*ncols + c) = %r, expected (r, c)" % (got,))
                got2 = it.rv(it.call_fn(rav[0], this, [Rs, Cs]))
                if not (isinstance(got2, Poly) and norm(got2) == norm(Rs * NCs + Cs)):
                    bad.append("ravel_idx(r, c) = %r, expected r*ncols + c" % (got2,))
            except ThrowEx as ex:
                bad.append("threw %s" % ex.text)
            chk.ob("C07-G5", "[%s] unravel_idx / ravel_idx are exact inverses for every shape (symbolic r, c, ncols)"
                   % uname, not bad, where=unr[0].ploc, function=unr[0].bn, construct="unravel",
                   detail="; ".join(bad)[:400], extra={"unit": uname})
        elif uname.startswith("profile"):
            nii = db.fns("fastscapelib::profile_grid::neighbors_indices_impl", unit=uname)
            bnc = db.fns("fastscapelib::profile_grid::build_neighbors_count", unit=uname)
            if not nii or not bnc:
                raise AnalysisBroken("profile neighbour functions not instantiated in %s" % uname)
            N = Poly.sym("N")

            class PW(GridWorld):
                def sym_cmp(self, op, a, b):
                    if op in ("==", "!="):
                        na, nb = norm(a), norm(b)
                        eq = na == nb
                        # distinct classes: 0, the middle index i, N-1  (N >= 3)
                        return eq if op == "==" else not eq
                    return GridWorld.sym_cmp(self, op, a, b)
            for looped in (False, True):
                L = STATUS["looped"] if looped else STATUS["core"]
                bs = Obj("fastscapelib::profile_boundary_status", {"left": L, "right": L})
                for cls, idx in (("first", 0), ("middle", Poly.sym("i")), ("last", N + Poly.of(-1))):
                    n_sc += 1
                    it = Interp(PW())
                    this = Obj("fastscapelib::profile_grid", {"m_size": N, "m_bounds_status": bs,
                                                              "m_neighbors_count": PyVec([0, 0, 0])})
                    out = PyVec([None, None])
                    bad = []
                    try:
                        it.call_fn(nii[0], this, [out, idx])
                        it.call_fn(bnc[0], this, [])
                    except ThrowEx as ex:
                        bad.append("threw %s" % ex.text)
                    if not bad:
                        want = {"first": ([N + Poly.of(-1)] if looped else []) + [Poly.of(1)],
                                "middle": [Poly.sym("i") + Poly.of(-1), Poly.sym("i") + Poly.of(1)],
                                "last": [N + Poly.of(-2)] + ([Poly.of(0)] if looped else [])}[cls]
                        got = [x for x in out if x is not None]
                        if [norm(x) for x in got] != [norm(x) for x in want]:
                            bad.append("neighbours %r, geometry gives %r" % (got, want))
                        cnt = this.fields["m_neighbors_count"][{"first": 0, "middle": 1, "last": 2}[cls]]
                        if cnt != len(want):
                            bad.append("neighbour count table says %r, geometry gives %d" % (cnt, len(want)))
                    chk.ob("C07-G1", "[%s] profile %s node, looped %s" % (uname, cls, looped), not bad,
                           where=nii[0].ploc, function=nii[0].bn, construct="profile-neighbours(%s)" % cls,
                           detail="; ".join(bad), extra={"unit": uname})
        # ---- G2
        C09.purity(db, eff, chk, uname, "C07-G2")
        C09.cache_hit_rule(db, chk, uname, "C07-G2")
        # ---- G3: accessors share their sources
        accessors = [f for f in db.fns(unit=uname) if f.cls in ("fastscapelib::grid", "fastscapelib::raster_grid")
                     and f.name in ("neighbors_indices", "neighbors", "neighbors_distances") and not f.is_lambda]
        bad = []
        for f in accessors:
            cs = {c.get("bn", "").split("::")[-1] for c in calls(f.body)}
            delegating = any(n in cs for n in ("neighbors_indices", "neighbors")) and \
                not ({"get_nb_indices_from_cache", "neighbors_distances_impl"} & cs)
            if delegating:
                continue
            uses_count = "neighbors_count" in cs or "neighbors_count_impl" in cs
            uses_idx = "get_nb_indices_from_cache" in cs
            uses_dist = "neighbors_distances_impl" in cs
            if f.name == "neighbors_distances":
                if not (uses_count and uses_dist):
                    bad.append("%s@%s" % (f.name, f.ploc))
            elif not (uses_count and uses_idx):
                bad.append("%s@%s" % (f.name, f.ploc))
            if f.name == "neighbors" and not uses_dist:
                bad.append("%s@%s (distances)" % (f.name, f.ploc))
        chk.ob("C07-G3", "[%s] %d neighbour accessors draw counts / indices / distances from the "
               "shared implementation functions" % (uname, len(accessors)), not bad and bool(accessors),
               where="fastscapelib/grid/base.hpp", function="fastscapelib::grid", construct="accessor-sources",
               detail="" if not bad else "accessors bypassing the shared sources: %s" % bad,
               extra={"unit": uname})
        # ---- G4: by-reference accessors leave exactly `count` entries, whatever the container held
        n_sc += accessor_sizes(db, chk, uname)
        n_sc += accessor_rowcol(db, chk, uname)
        n_sc += distance_tables(db, chk, uname)
    chk.absorb(db, "C10", {"C10-X1"}, "C07-G6", "neighbour look-ups keep no storage shared between threads that a "
               "concurrent look-up on the same grid could overwrite (shared with C10-X1)",
               pred=lambda o: "apply_par" in o["instance"], min_instances=7)
    chk.count_scenarios(n_sc, True)


class AccessorWorld(GridWorld):
    def __init__(self, k):
        self.k = k

    def before_call(self, it, fn, call, callee, frame):
        name = callee.bn.split("::")[-1]
        if name in ("neighbors_count", "neighbors_count_impl"):
            return self.k
        if name == "get_nb_indices_from_cache":
            return PyVec([100 + i for i in range(8)])
        if name == "neighbors_distances_impl":
            return PyVec([0.5 + i for i in range(8)])
        if name == "nodes_status":
            return Sym("status", "s")
        if name == "ravel_idx":
            return 42
        if name == "unravel_idx":
            v = it.rv(it.eval(call["a"][0], frame))
            return (v, v + 1000)
        return NOT_HANDLED

    def external(self, it, fn, call, frame):
        name = call.get("bn", "").split("::")[-1]
        obj = call.get("obj")
        args = call.get("a", [])
        if obj is not None:
            o = it.rv(it.eval(obj, frame))
            if isinstance(o, Sym) and o.kind == "status":
                return 0
            if isinstance(o, PyVec) and call.get("cls", "").startswith("xt::"):
                if name == "size":
                    return len(o)
                if name == "resize":
                    n = it.rv(it.eval(args[0], frame))
                    n = n[0] if isinstance(n, list) else n
                    while len(o) > n:
                        o.pop()
                    while len(o) < n:
                        o.append(None)
                    return None
                if name in ("operator[]", "operator()", "flat"):
                    return ElemRef(o, it.rv(it.eval(args[0], frame)))
        return NOT_HANDLED


def accessor_sizes(db, chk, uname):
    fns = [f for f in db.fns(unit=uname) if f.cls in ("fastscapelib::grid", "fastscapelib::raster_grid")
           and f.name in ("neighbors_indices", "neighbors") and not f.is_lambda
           and f.params and f.params[-1].get("isref") and not f.params[-1].get("const")
           and f.type(f.d.get("rt")).endswith("&")]
    n = 0
    if not fns:
        raise AnalysisBroken("C07-G4: by-reference neighbour accessors not instantiated in %s" % uname)
    for f in fns:
        bad = []
        for k in (1, 3, 8):
            for init in (0, k - 1, k, k + 3):
                n += 1
                out = PyVec(["stale"] * init)
                it = Interp(AccessorWorld(k))
                this = Obj(f.cls, {"m_shape": PyVec([4, 5])})
                args = [7] * (len(f.params) - 1) + [out]
                try:
                    it.call_fn(f, this, args)
                except ThrowEx as ex:
                    bad.append("threw %s" % ex.text[:50])
                    continue
                if len(out) != k:
                    bad.append("output holds %d entries for a node with %d neighbours (container "
                               "had %d before the call)" % (len(out), k, init))
                elif any(x == "stale" for x in out):
                    bad.append("stale entry left in the output")
        chk.ob("C07-G4", "[%s] %s(%s): output resized to exactly the neighbour count" % (
            uname, f.name, ", ".join(p["n"] for p in f.params)), not bad, where=f.ploc, function=f.bn,
            construct="out-size(%s/%d)" % (f.name, len(f.params)), detail="; ".join(bad[:2]),
            extra={"unit": uname})
    return n


class RowColWorld(AccessorWorld):
    """like AccessorWorld, but the index helpers are the library's own and the cached neighbour list
    of node (r, c) is its queen neighbourhood on the torus (both axes looped: a valid configuration,
    and a superset of every other configuration's lists)"""

    def __init__(self, shape):
        AccessorWorld.__init__(self, 8)
        self.shape = shape

    def nb(self, flat):
        nr, nc = self.shape
        r, c = divmod(flat, nc)
        out = []
        for dr in (-1, 0, 1):
            for dc in (-1, 0, 1):
                if dr or dc:
                    f = ((r + dr) % nr) * nc + (c + dc) % nc
                    if f != flat and f not in out:
                        out.append(f)
        return out

    def before_call(self, it, fn, call, callee, frame):
        name = callee.bn.split("::")[-1]
        if name in ("ravel_idx", "unravel_idx"):
            return NOT_HANDLED
        if name in ("neighbors_count", "neighbors_count_impl"):
            return len(self.nb(it.rv(it.eval(call["a"][0], frame))))
        if name == "get_nb_indices_from_cache":
            return PyVec(self.nb(it.rv(it.eval(call["a"][0], frame))))
        return AccessorWorld.before_call(self, it, fn, call, callee, frame)


def _rowcol_of(v):
    if isinstance(v, (tuple, list)) and len(v) == 2:
        return None, v[0], v[1]
    if isinstance(v, Obj):
        f = v.fields
        if "row" in f and "col" in f:
            return f.get("flatten_idx"), f["row"], f["col"]
    return None


def accessor_rowcol(db, chk, uname):
    fns = [f for f in db.fns(unit=uname) if f.cls == "fastscapelib::raster_grid"
           and f.name in ("neighbors_indices", "neighbors") and not f.is_lambda
           and len(f.params) == 3 and f.params[-1].get("isref") and not f.params[-1].get("const")]
    n = 0
    if not fns:
        if any(f.cls == "fastscapelib::raster_grid" for f in db.fns(unit=uname)):
            raise AnalysisBroken("C07-G8: (row, col) neighbour accessors not instantiated in %s" % uname)
        return 0
    for f in fns:
        bad = []
        for shape in ((4, 5), (3, 3), (3, 4), (5, 3)):
            nr, nc = shape
            for r in range(nr):
                for c in range(nc):
                    n += 1
                    w = RowColWorld(shape)
                    it = Interp(w)
                    this = Obj(f.cls, {"m_shape": PyVec([nr, nc]), "m_size": nr * nc})
                    out = PyVec([])
                    try:
                        it.call_fn(f, this, [r, c, out])
                    except ThrowEx as ex:
                        bad.append("(%d, %d) on %dx%d threw %s" % (r, c, nr, nc, ex.text[:40]))
                        continue
                    want = w.nb(r * nc + c)
                    if len(out) != len(want):
                        bad.append("(%d, %d) on %dx%d: %d entries for %d neighbours" % (r, c, nr, nc, len(out), len(want)))
                        continue
                    for k, v in enumerate(out):
                        rc = _rowcol_of(it.rv(v) if not isinstance(v, (tuple, list, Obj)) else v)
                        if rc is None:
                            raise AnalysisBroken("C07-G8: entry %r of %s is not understood" % (v, f.bn))
                        fi, rr, cc = rc
                        exp = divmod(want[k], nc)
                        if (rr, cc) != exp or (fi is not None and fi != want[k]):
                            bad.append("node (%d, %d) on a %dx%d looped raster: neighbour %d reported at (%s, %s), "
                                       "it is at (%d, %d)" % (r, c, nr, nc, want[k], rr, cc, exp[0], exp[1]))
        chk.ob("C07-G8", "[%s] %s(%s): reported (row, col) is that of the neighbour's flat index" % (
            uname, f.name, ", ".join(p["n"] for p in f.params)), not bad, where=f.ploc, function=f.bn,
            construct="rowcol(%s)" % f.name, detail="; ".join(bad[:2]), extra={"unit": uname})
    return n


class DistWorld(GridWorld):
    """concrete element-wise model of the few xtensor expressions of the distance helper"""

    def sym_cmp(self, op, a, b):
        raise AnalysisBroken("C07-G9: comparison %r %s %r" % (a, op, b))

    def external(self, it, fn, call, frame):
        bn = call.get("bn", "") or ""
        name = bn.split("::")[-1]
        args = call.get("a", [])

        def V(i):
            v = it.rv(it.eval(args[i], frame))
            return list(v) if isinstance(v, (PyVec, list, tuple)) else v

        def ew(f, *xs):
            n = max([len(x) for x in xs if isinstance(x, list)] or [0])
            if not n:
                return f(*xs)
            return [f(*[(x[i] if isinstance(x, list) else x) for x in xs]) for i in range(n)]
        if bn in ("xt::adapt", "xt::cast", "xt::eval"):
            return V(0)
        if bn == "xt::equal":
            return ew(lambda a, b: a == b, V(0), V(1))
        if bn == "xt::not_equal":
            return ew(lambda a, b: a != b, V(0), V(1))
        if bn == "xt::where":
            return ew(lambda c, a, b: a if c else b, V(0), V(1), V(2))
        if bn in ("xt::square",):
            return ew(lambda a: a * a, V(0))
        if bn in ("xt::abs", "xt::fabs"):
            return ew(abs, V(0))
        if bn in ("xt::sqrt",):
            return ew(lambda a: a ** 0.5, V(0))
        if bn in ("xt::operator*", "xt::operator+", "xt::operator-", "xt::operator/") and len(args) == 2:
            import operator as _o
            f = {"*": _o.mul, "+": _o.add, "-": _o.sub, "/": _o.truediv}[bn[-1]]
            return ew(f, V(0), V(1))
        if bn == "xt::sum" and len(args) >= 1:
            v = V(0)
            return PyVec([sum(v)]) if isinstance(v, list) else PyVec([v])
        if bn in ("sqrt", "std::sqrt"):
            return V(0) ** 0.5
        if bn in ("hypot", "std::hypot") and len(args) == 2:
            return (V(0) ** 2 + V(1) ** 2) ** 0.5
        if bn in ("std::abs", "abs", "std::fabs", "fabs", "std::labs", "std::llabs"):
            return abs(V(0))
        return NOT_HANDLED


def distance_tables(db, chk, uname):
    if not uname.startswith("raster"):
        return 0
    rc = {"raster_queen": "queen", "raster_rook": "rook", "raster_bishop": "bishop",
          "raster_nocache": "queen"}[uname]
    bco = db.fns("fastscapelib::raster_grid::build_coded_neighbors_offsets", unit=uname)
    bcd = db.fns("fastscapelib::raster_grid::build_coded_neighbors_distances", unit=uname)
    if not bco or not bcd:
        raise AnalysisBroken("C07-G9: distance / offset table builders not instantiated in %s" % uname)
    n = 0
    dy, dx = 3.0, 4.0
    for vloop, hloop in itertools.product((False, True), (False, True)):
        for shape in ((4, 5), (3, 3)):
            nr, nc = shape
            bad = []
            this = Obj("fastscapelib::raster_grid", {"m_shape": PyVec([nr, nc]), "m_size": nr * nc,
                                                     "m_spacing": PyVec([dy, dx]),
                                                     "m_bounds_status": bounds(vloop, hloop)})
            it = Interp(DistWorld())
            try:
                table = it.rv(it.call_fn(bco[0], this, []))
                this.fields["m_neighbor_offsets"] = table
                dist = it.rv(it.call_fn(bcd[0], this, []))
            except ThrowEx as ex:
                raise AnalysisBroken("C07-G9: the table builders threw %s" % ex.text)
            for code in range(9):
                n += 1
                offs = [(it.rv(o[0]), it.rv(o[1])) for o in table[code]]
                got = [it.rv(d) for d in list(dist[code])[:len(offs)]]
                for (ro, co), d in zip(offs, got):
                    want = (((dy if ro else 0.0) ** 2) + ((dx if co else 0.0) ** 2)) ** 0.5
                    if not isinstance(d, (int, float)) or abs(d - want) > 1e-9 * want:
                        bad.append("node code %d, offset (%s, %s) on a %dx%d raster: distance %r, one step is %r"
                                   % (code, ro, co, nr, nc, d, want))
            chk.ob("C07-G9", "[%s] %s %dx%d, vertical loop %s, horizontal loop %s, spacing (3, 4)"
                   % (uname, rc, nr, nc, vloop, hloop), not bad, where=bcd[0].ploc, function=bcd[0].bn,
                   construct="distances(v%d,h%d)" % (vloop, hloop), detail="; ".join(bad[:2]),
                   extra={"unit": uname})
    return n
