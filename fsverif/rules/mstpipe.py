"""End-to-end, bounded interpretation of the spanning-tree sink resolver (shared by C01-E8 / C02-F5).

On a small concrete node graph (unit distances) with a concrete elevation assignment, the single-
direction routing state a router leaves (steepest descent, first lowest neighbour on ties) is
handed to the LIBRARY's own code, interpreted through the SIR: compute_donors,
compute_dfs_indices_bottomup, compute_basins, basin_graph::update_routes (connect_basins, Kruskal /
Boruvka, orient_edges), update_routes_sinks_basic / _carve, the recomputation of donors and
orders, and the tilt fill_sinks_sloped -- i.e. mst_sink_resolver's apply() as a whole.  Elevations
are representative doubles with exact successor semantics (the code only compares them and takes
nextafter).  The outcome is checked against the statements of C01 / C02 directly:
  * every node reaches a base level by following receivers, in fewer steps than there are nodes,
    the final elevation strictly decreasing at every step; base levels keep themselves;
  * no elevation is lowered, base levels are unchanged, every other node ends between its minimax
    spill level (brute force) and that level plus one increment per node.
The enumeration is exhaustive for the listed graphs, levels and base-level sets; nothing is claimed
beyond them.
"""
import itertools
import math

from ..interp import SeqView, out_param, Interp, World, Obj, Sym, PyVec, ThrowEx, ElemRef, NOT_HANDLED, OutOfRange
from ..sir import AnalysisBroken, walk
from .. import model
from .routers import Table
from .sinks import Elev

INF = float("inf")
MST = "fastscapelib::mst_sink_resolver"
BG = "fastscapelib::basin_graph"


def graphs(thorough):
    out = [("path-3", {0: [1], 1: [0, 2], 2: [1]}),
           ("path-4", {0: [1], 1: [0, 2], 2: [1, 3], 3: [2]})]
    if thorough:
        out.append(("cycle-4", {0: [1, 3], 1: [0, 2], 2: [1, 3], 3: [2, 0]}))
        out.append(("star-4", {0: [1, 2, 3], 1: [0], 2: [0], 3: [0]}))
        out.append(("path-5", {0: [1], 1: [0, 2], 2: [1, 3], 3: [2, 4], 4: [3]}))
        out.append(("2x3-rook", {0: [1, 3], 1: [0, 2, 4], 2: [1, 5], 3: [0, 4], 4: [1, 3, 5], 5: [2, 4]}))
    return out


def steepest(adj, elev, base, mask=frozenset()):
    n = len(adj)
    rec = {}
    for i in range(n):
        rec[i] = i
        if i in base or i in mask:
            continue
        best = None
        for nb in adj[i]:
            if nb in mask:
                continue
            if elev[nb] < elev[i] and (best is None or elev[nb] < elev[best]):
                best = nb
        if best is not None:
            rec[i] = best
    return rec


class PipeWorld(World):
    def __init__(self, adj, base, gobj, bgs, mask=frozenset()):
        self.adj = adj
        self.mask = mask
        self.base = base
        self.gobj = gobj
        self.bgs = bgs        # (record, function used for new_obj)
        self.bg = None
        self.grid = Sym("grid", "grid")

    def before_call(self, it, fn, call, callee, frame):
        nm = callee.bn.split("::")[-1]
        args = call.get("a", [])
        cls = callee.cls or ""
        if nm == "size" and (cls.endswith("flow_graph_impl") or "grid" in cls):
            return len(self.adj)
        if nm == "grid" and cls.endswith("flow_graph_impl"):
            return self.grid
        if nm == "is_masked":
            return it.rv(it.eval(args[0], frame)) in self.mask
        if nm == "is_base_level":
            return it.rv(it.eval(args[0], frame)) in self.base
        if nm == "neighbors" and "grid" in cls:
            i = it.rv(it.eval(args[0], frame))
            return out_param(it, frame, args, 1,
                             PyVec([Obj("fastscapelib::neighbor", {"idx": j, "distance": 1.0, "status": 0})
                                    for j in self.adj[i]]))
        if nm in ("nodes_status", "nodes_status_impl") and "grid" in cls:
            # the grid's own node statuses are independent of the graph's base levels: all core here
            if args:
                return 0
            return PyVec([0] * len(self.adj))
        if nm == "neighbors_indices" and "grid" in cls:
            return out_param(it, frame, args, 1, PyVec(list(self.adj[it.rv(it.eval(args[0], frame))])))
        if nm == "get_basin_graph":
            this = it.rv(frame.this)
            want = this.fields["m_op_ptr"].fields["m_basin_method"]
            if self.bg is None or self.bg.fields.get("m_mst_method") != want:
                rec, anyfn = self.bgs
                self.bg = it.new_obj(anyfn, rec)
                self.bg.fields["m_flow_graph_impl"] = self.gobj
                self.bg.fields["m_mst_method"] = want
            return self.bg
        return NOT_HANDLED

    def range_iter(self, it, fn, node, value, frame):
        v = it.rv(value)
        if isinstance(v, Obj) and v.cls.endswith("stl_container_iterator_wrapper"):
            c = v.fields.get("m_container")
            c = it.rv(c)
            if isinstance(c, list):
                return [ElemRef(c, i) for i in range(len(c))]
        return NOT_HANDLED

    def external(self, it, fn, call, frame):
        bn = call.get("bn", "") or ""
        name = bn.split("::")[-1]
        args = call.get("a", [])
        obj = call.get("obj")
        if bn == "xt::adapt":
            v = it.rv(it.eval(args[0], frame))
            shp = it.rv(it.eval(args[1], frame)) if len(args) > 1 and "layout_type" not in fn.type(args[1].get("t")) else None
            m = shp[0] if isinstance(shp, list) and shp else shp
            if not isinstance(m, int) or isinstance(m, bool):
                return PyVec(list(v))       # adapt(container): the whole container
            return PyVec(list(v)[:m])
        if bn == "xt::flatten":
            return it.eval(args[0], frame)
        if bn == "std::isnan":
            return False
        if obj is not None:
            oref = it.eval(obj, frame)
            o = it.rv(oref)
            if isinstance(o, Table):
                if name in ("operator()", "flat", "operator[]", "at", "unchecked"):
                    return ElemRef(o, tuple(it.rv(it.eval(a, frame)) for a in args))
                if name == "fill":
                    o.fill_all(it.rv(it.eval(args[0], frame)))
                    return None
            if isinstance(o, frozenset):
                if name == "count":
                    return 1 if it.rv(it.eval(args[0], frame)) in o else 0
                if name == "size":
                    return len(o)
            if isinstance(o, (Elev, PyVec)) and (call.get("cls", "") or "").startswith("xt::"):
                if name in ("operator()", "flat", "operator[]", "at", "unchecked"):
                    i = it.rv(it.eval(args[0], frame))
                    if not isinstance(i, int) or i < 0 or i >= len(o):
                        raise OutOfRange("interp: index %r out of range (size %d) at %s" % (i, len(o), fn.loc(call)))
                    return ElemRef(o, i)
                if name == "operator=" and not isinstance(o, SeqView):
                    v = it.rv(it.eval(args[0], frame))
                    o[:] = list(v)
                    return oref
                if name == "size":
                    return len(o)
        return NOT_HANDLED


def enum_values(fn, names):
    out = {}
    for n in walk(fn.body):
        if n.get("k") == "ref" and n.get("rk") == "enum" and n.get("n") in names and n.get("cv") is not None:
            out[n["n"]] = n["cv"]
    return out


_CTX = None


def _work(task):
    """all scenarios of one (graph, base-level set): list of (label, path findings, level findings)"""
    c = _CTX
    uname, thorough, levels, gfn, ap, bgrec, bgfn, route, meth = (c[k] for k in (
        "uname", "thorough", "levels", "gfn", "ap", "bgrec", "bgfn", "route", "meth"))
    gname, adj, base = task[:3]
    mask = frozenset(task[3]) if len(task) > 3 else frozenset()
    n = len(adj)
    out = []
    if True:
        bset = set(base)
        for elev in itertools.product(levels, repeat=n):
            rec0 = steepest(adj, elev, bset, mask)
            if all(rec0[i] != i or i in bset or i in mask for i in range(n)):
                continue                      # no pit: nothing for the resolver to do
            for mname, rname in (("kruskal", "basic"), ("boruvka", "carve"), ("kruskal", "carve"), ("boruvka", "basic")):
                if not thorough and (mname, rname) in (("kruskal", "carve"), ("boruvka", "basic")) and n > 3:
                    continue
                R, D, C, W_ = Table("m_receivers"), Table("m_receivers_distance"), Table("m_receivers_count"), \
                    Table("m_receivers_weight")
                for i in range(n):
                    R[(i, 0)] = rec0[i]
                    D[(i, 0)] = 0.0 if rec0[i] == i else 1.0
                    C[(i,)] = 1
                    W_[(i, 0)] = 1.0
                gobj = Obj(model.GRAPH_IMPL, {
                    "m_single_flow": True, "m_grid": Sym("grid", "grid"),
                    "m_receivers": R, "m_receivers_distance": D, "m_receivers_count": C, "m_receivers_weight": W_,
                    "m_donors": Table("m_donors"), "m_donors_count": Table("m_donors_count"),
                    "m_dfs_indices": PyVec([-1] * n), "m_bfs_indices": PyVec([-1] * n),
                    "m_bfs_levels": PyVec([-1] * (n + 1)), "m_basins": PyVec([-1] * n),
                    "m_outlets": PyVec(), "m_pits": PyVec(), "m_base_levels": frozenset(bset),
                    "m_mask_initialized": bool(mask), "m_mask": PyVec([i in mask for i in range(n)])})
                ev = Elev(list(elev))
                w = PipeWorld(adj, bset, gobj, (bgrec[0], bgfn[0]), mask)
                it = Interp(w, max_steps=2000000)
                this = Obj(ap.cls, {"m_basin_graph_ptr": None,
                                    "m_op_ptr": Obj(MST, {"m_route_method": route[rname], "m_basin_method": meth[mname]})})
                bad_p, bad_l = [], []
                try:
                    it.call_fn(gfn["compute_donors"], gobj, [])
                    it.call_fn(gfn["compute_dfs_indices_bottomup"], gobj, [])
                    it.call_fn(ap, this, [gobj, ev, Sym("pool", "pool")])
                except ThrowEx as ex:
                    bad_p.append("threw %s" % ex.text[:70])
                except OutOfRange as ex:
                    bad_p.append("out-of-bounds access: %s" % str(ex)[8:110])
                if not bad_p:
                    fin = list(ev)
                    # nodes connected to a base level through unmasked neighbours (the others are exempt)
                    reach = set(b for b in bset if b not in mask)
                    grow = True
                    while grow:
                        grow = False
                        for u in list(reach):
                            for v in adj[u]:
                                if v not in mask and v not in reach:
                                    reach.add(v)
                                    grow = True
                    for mi in sorted(mask):
                        if fin[mi] != elev[mi]:
                            bad_l.append("masked node %d changed from %r to %r" % (mi, elev[mi], fin[mi]))
                        if R.get((mi, 0)) != mi:
                            bad_p.append("masked node %d drains to %r" % (mi, R.get((mi, 0))))
                    # C01: paths
                    for i in range(n):
                        if i in mask or i not in reach:
                            continue
                        cur, steps = i, 0
                        while True:
                            nxt = R.get((cur, 0))
                            if not isinstance(nxt, int) or not (0 <= nxt < n):
                                bad_p.append("receiver of node %d is %r" % (cur, nxt))
                                break
                            if nxt in mask:
                                bad_p.append("node %d drains into the masked node %d" % (cur, nxt))
                                break
                            if nxt == cur:
                                if cur not in bset:
                                    bad_p.append("the flow path of node %d ends at node %d, which is no base level" % (i, cur))
                                break
                            if cur in bset:
                                bad_p.append("base level %d drains to %d" % (cur, nxt))
                                break
                            if not fin[nxt] < fin[cur]:
                                bad_p.append("elevation does not strictly decrease from node %d (%.17g) to its receiver "
                                             "%d (%.17g)" % (cur, fin[cur], nxt, fin[nxt]))
                                break
                            cur = nxt
                            steps += 1
                            if steps > n:
                                bad_p.append("the flow path of node %d contains a cycle" % i)
                                break
                        if bad_p:
                            break
                    # C02: levels
                    M = {b: elev[b] for b in bset if b not in mask}
                    changed = True
                    while changed:
                        changed = False
                        for u in list(M):
                            for v in adj[u]:
                                if v in bset or v in mask:
                                    continue
                                cand = max(M[u], elev[v])
                                if v not in M or cand < M[v]:
                                    M[v] = cand
                                    changed = True
                    for v in range(n):
                        if v in mask or v not in reach:
                            continue
                        if v in bset:
                            if fin[v] != elev[v]:
                                bad_l.append("base level %d changed from %r to %r" % (v, elev[v], fin[v]))
                            continue
                        hi = M[v]
                        for _ in range(n):
                            hi = math.nextafter(hi, INF)
                        if fin[v] < elev[v]:
                            bad_l.append("node %d lowered" % v)
                        elif not (M[v] <= fin[v] <= hi):
                            bad_l.append("node %d ends at %.17g, its spill level is %.17g (margin: %d increments)"
                                         % (v, fin[v], M[v], n))
                label = "[%s] %s / %s on %s, base levels %s%s, elevation %s" % (
                    uname, mname, rname, gname, base, (", masked %s" % sorted(mask)) if mask else "", list(elev))
                out.append((label, bad_p, bad_l))
    return out


def _map_tasks(ctx, tasks, parallel):
    """results per task, in task order; the thorough tier spreads the tasks over the cores (the
    workers are forked, so they share the loaded program)"""
    global _CTX
    _CTX = ctx
    if not parallel or len(tasks) < 2:
        for t in tasks:
            yield _work(t)
        return
    import multiprocessing, os
    mp = multiprocessing.get_context("fork")
    with mp.Pool(min(len(tasks), os.cpu_count() or 4)) as pool:
        for r in pool.imap(_work, tasks):
            yield r


def run_rule(db, chk, uname, rid_paths, rid_levels, deep=True):
    """returns the number of scenarios; reports under the two rule ids"""
    thorough = chk.tier == "thorough" and deep
    unit = db.units[uname]
    impls = model.operator_impls(db, uname)
    mf = {f.name: f for f in impls.get(MST, {}).get("fns", [])}
    ap = impls.get(MST, {}).get("apply")
    if ap is None:
        raise AnalysisBroken("mst pipeline: mst_sink_resolver apply() not instantiated in %s" % uname)
    gfn = {f.name: f for f in unit.fns.values() if f.cls == model.GRAPH_IMPL and not f.is_ctor and not f.params}
    for need in ("compute_donors", "compute_dfs_indices_bottomup"):
        if need not in gfn:
            raise AnalysisBroken("mst pipeline: flow_graph_impl::%s not instantiated in %s" % (need, uname))
    bgrec = [r for r in unit.records if r["bn"] == BG]
    bgfn = [f for f in unit.fns.values() if f.cls == BG and not f.is_ctor]
    if not bgrec or not bgfn:
        raise AnalysisBroken("mst pipeline: basin_graph not instantiated in %s" % uname)
    # enumerators of the two option enums, from the code that tests them
    route = enum_values(ap, ("basic", "carve"))
    meth = {}
    for f in bgfn:
        meth.update(enum_values(f, ("kruskal", "boruvka")))
    if set(route) != {"basic", "carve"} or set(meth) != {"kruskal", "boruvka"}:
        # the enumerators may only be mentioned once each; fall back on the declaration order
        route = {"basic": route.get("basic", 0), "carve": route.get("carve", 1)}
        meth = {"kruskal": meth.get("kruskal", 0), "boruvka": meth.get("boruvka", 1)}
    levels = [0.0, 1.0, 2.0]
    ctx = dict(uname=uname, thorough=thorough, levels=levels, gfn=gfn, ap=ap, bgrec=bgrec, bgfn=bgfn, route=route, meth=meth)
    tasks = []
    for gname, adj in graphs(thorough):
        n = len(adj)
        for base in [[0], [n - 1], [0, n - 1]] + ([[1]] if n > 3 else []):
            tasks.append((gname, adj, base))
            # one masked node (not a base level); quick tier: on the 4-node path only
            # (thorough: every 4-node graph, and the centre column of the 2x3 raster)
            if n == 4 and (thorough or gname == "path-4"):
                for mk in range(n):
                    if mk not in base:
                        tasks.append((gname, adj, base, [mk]))
            elif thorough and gname == "2x3-rook":
                for mk in (1, 4):
                    if mk not in base:
                        tasks.append((gname, adj, base, [mk]))
    n_sc = 0
    nbad = {rid_paths: 0, rid_levels: 0, None: 0}
    for results in _map_tasks(ctx, tasks, parallel=thorough):
        for (label, bad_p, bad_l) in results:
            n_sc += 1
            for rid, b in ((rid_paths, bad_p), (rid_levels, bad_l if not bad_p else ["(not evaluated: " + bad_p[0][:80] + ")"])):
                if rid is None:
                    continue
                if b:
                    nbad[rid] += 1
                if not b or nbad[rid] <= 6:
                    chk.ob(rid, label, not b, where=ap.ploc, function=ap.bn, construct="mst-pipeline",
                           detail="; ".join(b[:2]), sample=(n_sc % 97 == 1), extra={"unit": uname})
    return n_sc
