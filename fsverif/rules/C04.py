"""C04 — single-direction routing follows steepest descent.

C04-S1 (A5, order domain, exhaustive): single_flow_router's apply() (sequential body and the
        parallel callable, both through the real apply()) is interpreted on every abstract
        neighbourhood scenario (routers.py).  Outcome obligations per centre node:
          masked or base level            -> own receiver, distance 0
          no unmasked strictly-lower nb   -> own receiver, distance 0
          otherwise                       -> receiver in argmax of the computed slope among the
                                             unmasked strictly-lower neighbours (any on ties),
                                             stored distance = that neighbour's distance
        and receivers_count = 1, weight = 1 in all cases.
C04-S2 sibling agreement: the sequential body and the parallel callable give the same outcome on
        every scenario; donors are registered for the chosen receiver exactly once.
Not decided: that grid.neighbors() hands out the right neighbours / distances (C07), and that the
floating-point slope order equals the real-number order.
"""
from ..interp import Obj, Sym
from ..sir import AnalysisBroken
from .. import model
from .routers import scenarios, run_router, CENTRE, RouterWorld

UNITS = ["raster_queen", "profile", "trimesh"]
OP = "fastscapelib::single_flow_router"


def outcome(w):
    rec = w.tables["m_receivers"].get((CENTRE, 0))
    dist = w.tables["m_receivers_distance"].get((CENTRE, 0))
    cnt = w.tables["m_receivers_count"].get((CENTRE,))
    wgt = w.tables["m_receivers_weight"].get((CENTRE, 0))
    donors = {}
    for (row, col), v in w.tables["m_donors"].cells.items():
        donors.setdefault(row, []).append(v)
    dcount = {k[0]: v for k, v in w.tables["m_donors_count"].cells.items()}
    return {"receiver": rec, "distance": dist, "count": cnt, "weight": wgt, "donors": donors,
            "donors_count": dcount}


def check_outcome(sc, o):
    """declarative oracle (property statement); returns list of problems"""
    bad = []
    rec, dist = o["receiver"], o["distance"]
    if o["count"] != 1:
        bad.append("receivers_count = %r (expected 1)" % (o["count"],))
    if o["weight"] != 1 and o["weight"] != 1.0:
        bad.append("weight = %r (expected 1)" % (o["weight"],))
    L = sc.lower_unmasked()
    if sc.centre_masked or sc.centre_base or not L:
        if rec != CENTRE:
            bad.append("receiver = %r, expected the node itself" % (rec,))
        if not (dist == 0 or dist == 0.0):
            bad.append("distance = %r, expected 0" % (dist,))
    else:
        best = max(n.slope_rep() for n in L)
        ok_idx = {n.idx for n in L if n.slope_rep() == best}
        if rec not in ok_idx:
            if rec == CENTRE:
                bad.append("node kept as its own receiver although an unmasked neighbour is strictly lower")
            else:
                bad.append("receiver = node %r, expected one of %s (steepest unmasked lower neighbour)"
                           % (rec, sorted(ok_idx)))
        else:
            tags = {"n%d" % x.k for x in L if x.idx == rec and x.slope_rep() == best}
            if not (isinstance(dist, Sym) and dist.kind == "dist" and dist.tag in tags):
                bad.append("stored distance %r is not the distance of the chosen neighbour" % (dist,))
    return bad


def run(db, chk):
    kmax = 3 if chk.tier == "thorough" else 2
    chk.explanation = (
        "Exhaustive abstract interpretation (order / flag domain) of single_flow_router's apply() "
        "-- sequential body and parallel callable -- over every neighbourhood scenario with up to "
        "%d neighbours (masked x {higher, equal, lower with computed slope zero / tiny / ranked}) "
        "x centre flags; the interpreter aborts on any operation on elevations / slopes other "
        "than the whitelisted comparisons and monotone lemmas, so the finite scenario set covers "
        "all inputs up to order isomorphism." % kmax)
    chk.not_decided = ["grid.neighbors() returns the right neighbours and distances (C07)",
                       "floating-point slope order vs real-number order",
                       "neighbourhoods with more than %d neighbours are covered by the symmetry of "
                       "the scan loop, not enumerated" % kmax]
    chk.rule("C04-S1", "receiver / distance / count / weight chosen by the router equal the "
             "steepest-descent specification on every abstract scenario", min_instances=100)
    chk.rule("C04-S2", "sequential body and parallel callable agree on every scenario; the chosen "
             "receiver gets exactly one donor entry", min_instances=100)
    scs = scenarios(kmax)
    n_sc = 0
    for uname in UNITS:
        if uname not in db.units:
            continue
        impls = model.operator_impls(db, uname)
        ap = impls.get(OP, {}).get("apply")
        if ap is None:
            raise AnalysisBroken("single_flow_router apply() not instantiated in %s" % uname)
        fails = {"seq": 0, "par": 0, "agree": 0}
        for sc in scs:
            outs = {}
            for mode, threads in (("seq", 0), ("par", 4)):
                ws = run_router(ap, sc, Obj(OP, {"m_threads_count": threads}))
                n_sc += len(ws)
                # (a fork means the code compared a value it had not written in this call: every
                # outcome must satisfy the specification)
                bad = []
                o = None
                for w in ws:
                    if w.threw:
                        raise AnalysisBroken("C04: router threw %s" % w.threw)
                    o = outcome(w)
                    bad = check_outcome(sc, o)
                    if bad:
                        if len(ws) > 1:
                            bad.append("(on one of %d outcomes that depend on state left by a previous call)" % len(ws))
                        break
                outs[mode] = o
                if bad:
                    fails[mode] += 1
                    if fails[mode] <= 6:
                        chk.ob("C04-S1", "[%s, %s] %s" % (uname, mode, sc.label()), False, where=ap.ploc,
                               function=ap.bn + ("/apply_par" if mode == "par" else "/apply_seq"),
                               construct="receiver-choice(%s)" % mode, detail="; ".join(bad),
                               extra={"unit": uname})
                else:
                    chk.ob("C04-S1", "[%s, %s] %s -> receiver %r" % (uname, mode, sc.label(), o["receiver"]),
                           True, function=ap.bn, construct="receiver-choice", sample=(n_sc % 211 == 1),
                           extra={"unit": uname})
            a, b = outs["seq"], outs["par"]
            same = all(a[k] == b[k] for k in ("receiver", "distance", "count", "weight"))
            # donors: the chosen receiver holds the centre exactly once (self entries aside)
            don_ok = True
            for mode in ("seq", "par"):
                o = outs[mode]
                rec = o["receiver"]
                row = o["donors"].get(rec, [])
                ent = [v for v in row if v == CENTRE]
                others = [v for v in row if v != CENTRE and v != rec]      # self entries of the receiver aside
                skip = (sc.centre_masked or sc.centre_base) and mode == "seq"
                if not skip and (len(ent) != 1 or others or o["donors_count"].get(rec) != len(row)):
                    don_ok = False
            ok = same and don_ok
            if not ok:
                fails["agree"] += 1
            if ok or fails["agree"] <= 6:
                chk.ob("C04-S2", "[%s] %s" % (uname, sc.label()), ok, where=ap.ploc, function=ap.bn,
                       construct="seq-par-agreement",
                       detail="" if ok else ("sequential %s vs parallel %s" % (
                           {k: a[k] for k in ("receiver", "distance")}, {k: b[k] for k in ("receiver", "distance")})
                           if not same else "donor registration of the receiver is not exactly one entry"),
                       sample=(n_sc % 211 == 2), extra={"unit": uname})
    chk.absorb(db, "C09", {"C09-P2"}, "C04-S3", "base levels and mask in force are exactly those last set: the "
               "setters replace their state as a whole (shared with C09-P2)",
               pred=lambda o: "set_base_levels" in o["instance"] or "set_mask" in o["instance"]
               or "single_flow_router::apply" in o["instance"], min_instances=3)
    chk.absorb(db, "C10", {"C10-X1", "C10-X2"}, "C04-S4", "the parallel body of the router shares no scratch "
               "variable between workers and registers donors after the region, in node order (shared with "
               "C10-X1 / X2): otherwise receivers depend on the interleaving",
               pred=lambda o: "apply_par" in o["instance"] or "donors rebuilt" in o["instance"], min_instances=3)
    chk.absorb(db, "C08", {"C08-B8"}, "C04-S6", "the mask handed to set_mask is not read after it was forwarded away "
               "(shared with C08-B8): a flag derived from the moved-from argument says 'no node is masked'",
               pred=lambda o: "set_mask" in o["instance"], min_instances=3)
    chk.count_scenarios(n_sc, True)
