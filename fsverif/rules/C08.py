"""C08 — no public operation reads or writes outside its buffers (narrow claim, DESIGN §5 C08).

Decided clauses (each a necessary condition named by the property's own anchors):
  C08-B1  the filtered node iterator calls the user filter on an index only after that index has
          been compared against the grid size (short-circuit order matters)
  C08-B2  the donors table is at least one column wider than the grid's maximum neighbour count
          (routers register a node as its own donor), and receivers / donors tables are allocated
          from those shapes
  C08-B3  thread_pool::resize on a paused pool iterates the job flags with the new size: every
          call site must resume() the same pool first (unless resize itself stops the workers
          before changing the size)
"""
from ..flow import Walker, State, rel_fact
from ..sir import pp, strip, walk, calls, const_value, AnalysisBroken

ITER_CLS = "fastscapelib::detail::grid_node_index_iterator"
POOL = "fastscapelib::thread_pool"


class FilterGuard(Walker):
    """C08-B1: at every call of the filter callback, a bound on its index argument is a fact"""

    def __init__(self, fn):
        super().__init__(fn)
        self.sites = []
        self.size_texts = {"this->m_grid.size()"}

    def visit_decl(self, var, st):
        init = strip(var.get("init")) if var.get("init") else None
        if init is not None and init.get("k") == "call" and init.get("bn", "").endswith("::size") \
                and "m_grid" in pp(init):
            self.size_texts.add(var["n"])
        return st

    def visit(self, node, st):
        if node.get("k") == "call" and node.get("bn") == "std::function::operator()" \
                and node.get("obj") is not None and "m_filter_func" in pp(node["obj"]):
            args = node.get("a", [])
            idx = pp(strip(args[1])) if len(args) >= 2 else "?"
            ok = False
            for s in self.size_texts:
                for op in ("<", "!="):
                    l, r, o = idx, s, op
                    if l > r:
                        l, r, o = r, l, {"<": ">", "!=": "!="}[op]
                    if st.has("facts", "%s %s %s" % (l, o, r)):
                        ok = True
            self.sites.append((node, idx, ok, sorted(st.get("facts"))))
        return st


class ResumeBeforeResize(Walker):
    def __init__(self, fn):
        super().__init__(fn)
        self.sites = []

    def visit(self, node, st):
        if node.get("k") == "call" and node.get("cls") == POOL and node.get("obj") is not None:
            name = node.get("bn", "").split("::")[-1]
            obj = pp(strip(node["obj"]))
            if name == "resume":
                st = st.add("resumed", obj)
            elif name in ("pause",):
                st = st.remove("resumed", lambda x: x == obj)
            elif name == "resize":
                self.sites.append((node, obj, st.has("resumed", obj)))
        return st

    def on_write(self, lv, st, node):
        # calls of resume()/resize() are non-const member calls: they must not erase the marker
        return Walker.on_write(self, lv, st, node)


class StopBeforeSize(Walker):
    """does thread_pool::resize stop the workers before it changes m_size?"""

    def __init__(self, fn):
        super().__init__(fn)
        self.size_written_before_stop = False
        self.saw_size_write = False

    def visit(self, node, st):
        if node.get("k") == "call" and node.get("bn", "").endswith("thread_pool::stop"):
            st = st.add("stopped", "y")
        return st

    def on_write(self, lv, st, node):
        if pp(strip(lv)) == "this->m_size":
            self.saw_size_write = True
            if not st.has("stopped", "y"):
                self.size_written_before_stop = True
        return Walker.on_write(self, lv, st, node)


_WIDTH = {"bool": 32, "char": 32, "signed char": 32, "unsigned char": 32, "short": 32, "unsigned short": 32,
          "int": 32, "unsigned int": 32, "long": 64, "unsigned long": 64, "long long": 64, "unsigned long long": 64}


def _shift_verdict(fn, n, bounded):
    """(ok, reason) for one built-in shift expression"""
    from ..sir import const_value, has_const as is_const
    lt = fn.type(strip(n["lhs"]).get("t", n.get("t"))).replace("const ", "").replace("&", "").strip()
    width = _WIDTH.get(lt)
    r = strip(n["rhs"])
    if isinstance(r, dict) and is_const(r):
        v = const_value(r)
        if width is None:
            return True, "constant amount %r (operand type %s)" % (v, lt)
        return (isinstance(v, int) and 0 <= v < width), "constant amount %r, operand width %d" % (v, width)
    refs = [x.get("d") for x in walk(r) if isinstance(x, dict) and x.get("k") == "ref"]
    if refs and all(d in bounded for d in refs):
        return True, "amount compared against a bound in the function"
    return False, "unbounded amount"


def run(db, chk):
    chk.explanation = (
        "Static rules over the instantiated AST of every grid type: (B1) guard-order analysis "
        "(short-circuit aware must-facts) of the filtered node iterator, (B2) constant evaluation "
        "of the flow-graph table shapes, (B3) must-precede analysis resume() -> resize() at every "
        "call site of thread_pool::resize. Memory safety of all other index arithmetic over "
        "runtime data is NOT decided.")
    chk.not_decided = ["all index arithmetic over runtime data other than the three clauses above",
                       "use-after-free, signed overflow in general"]
    chk.rule("C08-B1", "the filter callback of grid_node_index_iterator is invoked with an index "
             "only after `index < grid.size()` (or `!=`) evaluated true since the index was last "
             "modified (constructor and operator++; operator-- relies on the bidirectional "
             "iterator precondition 'not at begin')", min_instances=2)
    chk.rule("C08-B2", "donors table width >= n_neighbors_max()+1 and tables allocated with the "
             "computed shapes", min_instances=1)
    chk.rule("C08-B3", "every call of thread_pool::resize is preceded on all paths by resume() on "
             "the same pool, unless resize() stops the workers before changing m_size",
             min_instances=2)
    chk.assume("operator-- of the filtered iterator is only applied to a position in (0, size] "
               "(bidirectional iterator precondition)")

    # ---- B1
    for fn in db.fns(pred=lambda f: f.cls == ITER_CLS):
        if fn.name == "operator--":
            continue
        has_call = any(c.get("bn") == "std::function::operator()" for c in calls(fn.body))
        if not has_call:
            continue
        w = FilterGuard(fn)
        w.run()
        for node, idx, ok, facts in w.sites:
            chk.ob("C08-B1", "%s: filter called with %s" % (fn.name if not fn.is_ctor else "<ctor>", idx),
                   ok, where=fn.loc(node), function=fn.bn, construct="filter-call(%s)" % idx,
                   detail="" if ok else "no dominating bound `%s < m_grid.size()`; facts at the "
                   "call: %s" % (idx, facts),
                   extra={"unit": fn.unit.name})

    # ---- B2
    for fn in db.fns("fastscapelib::detail::flow_graph_impl::<ctor>"):
        shapes = {}
        for n in walk(fn.body):
            if "d" in n and "k" not in n and n.get("n") in ("receivers_shape", "donors_shape"):
                shapes[n["n"]] = n
        nmax = None
        for c in calls(fn.body):
            if c.get("bn", "").endswith("::n_neighbors_max") and const_value(c) is not None:
                nmax = const_value(c)
        if "donors_shape" not in shapes or nmax is None:
            raise AnalysisBroken("C08-B2: donors_shape / n_neighbors_max not found in %s" % fn)
        init = shapes["donors_shape"].get("init")
        elems = [x for x in walk(init) if x.get("k") == "initlist" and len(x.get("a", [])) == 2]
        width = None
        if elems:
            a = elems[0]["a"]
            width = const_value(a[1]) if const_value(a[1]) is not None else const_value(strip(a[1]))
        ok = width is not None and width >= nmax + 1
        chk.ob("C08-B2", "donors table width %s for n_neighbors_max %s" % (width, nmax), ok,
               where=fn.loc(shapes["donors_shape"]), function=fn.bn, construct="donors_shape",
               detail="" if ok else "a node with n_neighbors_max donors that is also registered as "
               "its own donor overflows the row", extra={"unit": fn.unit.name})
        # tables allocated from the shapes
        uses = {"m_donors": False, "m_receivers": False}
        for n in walk(fn.body):
            if n.get("k") == "binop" and n["op"] == "=" or (n.get("k") == "call" and n.get("op") == "="):
                lhs = n.get("lhs") if n.get("k") == "binop" else n.get("obj")
                rhs = n.get("rhs") if n.get("k") == "binop" else (n.get("a") or [None])[0]
                t = pp(strip(lhs)) if lhs else ""
                if t == "this->m_donors" and "donors_shape" in pp(rhs):
                    uses["m_donors"] = True
                if t == "this->m_receivers" and "receivers_shape" in pp(rhs):
                    uses["m_receivers"] = True
        for m, okm in uses.items():
            chk.ob("C08-B2", "%s allocated with its computed shape" % m, okm, where=fn.ploc,
                   function=fn.bn, construct=m, extra={"unit": fn.unit.name})

    # ---- shared clauses
    # ---- B8: no read of a moved-from object ------------------------------------------------------
    if chk.want("C08-B8"):
        from . import movedfrom
        chk.rule("C08-B8", "no parameter or local is read after it was handed to std::move / std::forward as an argument "
                 "(its content is unspecified, in practice empty: sizes and indices derived from it are wrong)",
                 min_instances=30)
        movedfrom.rule(db, chk, "C08-B8")
    chk.absorb(db, "C20", {"C20-T1"}, "C08-B2b", "the receiver tables are single-column only when every "
               "intermediate state of the sequence is single-direction (shared with C20-T1): otherwise a "
               "multi-direction router writes beyond column 0", min_instances=399)
    chk.absorb(db, "C11", {"C11-P1"}, "C08-B4", "the block partition handed to workers never leaves the index "
               "range (shared with C11-P1)", min_instances=1)
    chk.absorb(db, "C09", {"C09-P2"}, "C08-B5", "index scratch of the basin graph is reset at every update (shared "
               "with C09-P2): positions left by a previous update index past the end of the edge list",
               pred=lambda o: "basin_graph" in o["instance"], min_instances=20)
    chk.absorb(db, "C10", {"C10-X1", "C10-X2"}, "C08-B6", "parallel regions write shared tables only at block-derived "
               "indices (shared with C10-X1 / X2): a lost donor registration leaves the traversal orders incomplete "
               "and the breadth-first pass runs past its buffers", min_instances=14)
    chk.absorb(db, "C18", {"C18-M3"}, "C08-B7", "the per-node area buffer of a mesh has one entry per node, isolated "
               "nodes included (shared with C18-M3)", min_instances=4)
    chk.absorb(db, "C01", {"C01-E8"}, "C08-B9", "the spanning-tree resolver, interpreted as a whole on small node "
               "graphs with and without a masked node (shared with C01-E8), indexes no table outside its bounds: "
               "e.g. the `no basin` sentinel of a masked neighbour is never used as an index",
               pred=lambda o: o["ok"] or "out-of-bounds" in (o.get("detail") or ""), min_instances=100, tier="quick")
    chk.absorb(db, "C13", {"C13-L4"}, "C08-B10", "no setter overload of the SPL eroder leaves a stride / size "
               "descriptor of the coefficient array stale (shared with C13-L4): erode() would index the new array "
               "with the old layout", min_instances=2)
    # ---- B11: shift amounts stay below the width of the shifted operand -----------------------------
    if chk.want("C08-B11"):
        chk.rule("C08-B11", "no shift by an amount that can reach the width of the shifted operand (undefined "
                 "behaviour): every built-in << / >> has a constant amount below the width of its promoted left "
                 "operand, or an amount the function itself compares against a bound (today the library has no "
                 "built-in shift: the rule is kept alive by a synthetic positive control evaluated on every run)",
                 min_instances=1)
        import types as _types
        ctl_fn = _types.SimpleNamespace(type=lambda t: {1: "unsigned long", 2: "int"}.get(t, "?"))
        ctl_bad = {"k": "binop", "op": "<<", "lhs": {"k": "lit", "cv": 1, "t": 1}, "rhs": {"k": "ref", "rk": "param", "d": 7, "n": "i", "t": 1}}
        ctl_good = {"k": "binop", "op": "<<", "lhs": {"k": "lit", "cv": 1, "t": 1}, "rhs": {"k": "lit", "cv": 5, "t": 2}}
        if _shift_verdict(ctl_fn, ctl_bad, set())[0] or not _shift_verdict(ctl_fn, ctl_good, set())[0]:
            raise AnalysisBroken("C08-B11: the positive control of the shift rule no longer behaves")
        chk.ob("C08-B11", "positive control: `1ul << i` (unbounded i) is reported, `1ul << 5` is not", True,
               where="(synthetic)", function="-", construct="shift-control")
        seen_loc = set()
        for fn in db.all_fns():
            if fn.body is None:
                continue
            shifts = [n for n in walk(fn.body) if n.get("k") == "binop" and n.get("op") in ("<<", ">>", "<<=", ">>=")]
            if not shifts:
                continue
            bounded = set()
            for n in walk(fn.body):
                if n.get("k") == "binop" and n.get("op") in ("<", "<=", ">", ">=", "%", "&"):
                    for side in (n.get("lhs"), n.get("rhs")):
                        r = strip(side) if side is not None else None
                        if isinstance(r, dict) and r.get("k") == "ref":
                            bounded.add(r.get("d"))
            for n in shifts:
                key = (fn.ploc, fn.loc(n))
                if key in seen_loc:
                    continue
                seen_loc.add(key)
                ok, why = _shift_verdict(fn, n, bounded)
                chk.ob("C08-B11", "%s at %s: %s" % (pp(n)[:60], fn.loc(n), why), ok, where=fn.loc(n), function=fn.bn,
                       construct="shift(%s)" % pp(strip(n["rhs"]))[:30],
                       detail="" if ok else "the amount is neither a constant below the operand's width nor compared "
                       "against a bound anywhere in the function: for an amount >= the width the shift is undefined "
                       "(in practice it wraps, aliasing two positions)")
    # ---- B3
    resize_safe = {}
    for fn in db.fns(POOL + "::resize"):
        w = StopBeforeSize(fn)
        w.run()
        if not w.saw_size_write:
            raise AnalysisBroken("C08-B3: thread_pool::resize does not write m_size any more")
        resize_safe[fn.unit.name] = not w.size_written_before_stop
    n_sites = 0
    for fn in db.all_fns():
        if not any(c.get("bn") == POOL + "::resize" for c in calls(fn.body)):
            continue
        if fn.cls == POOL:
            continue
        w = ResumeBeforeResize(fn)
        w.run()
        for node, obj, resumed in w.sites:
            n_sites += 1
            ok = resumed or resize_safe.get(fn.unit.name, False)
            chk.ob("C08-B3", "%s: %s.resize(...)" % (fn.bn.split("::")[-1], obj), ok,
                   where=fn.loc(node), function=fn.bn, construct="resize(%s)" % obj,
                   detail="" if ok else "resize() on a possibly paused pool: wait() inside stop() "
                   "iterates m_has_job with the new size (out-of-bounds read)",
                   extra={"unit": fn.unit.name})
