"""C13 — stream-power implicit equation (narrow claim): the linear-case classification.

C13-L1 (A5, interval domain): `set_slope_exp` is interpreted with the exponent ranging over
intervals; the resulting classification flag must be definitely false below one, definitely true
at one and definitely false above one.  A wrong classification sends n != 1 through the closed
form for n = 1, so the returned erosion does not satisfy the discrete equation, and it defeats the
rejection of n != 1 on multiple-direction graphs (C12).
C13-N1 (A5, interval domain): the exit test of the Newton-Raphson loop is evaluated with the
residual far below -tolerance, within the tolerance and far above it: it may stop the iteration
only in the middle case (a one-sided test accepts the overshoot of the first step when n < 1).
The size of the residual reached and the number of iterations are numerical: NOT decided.
"""
from ..interp import Interp, World, Interval, Obj, Sym, ThrowEx, explore, NOT_HANDLED
from ..sir import pp, strip, walk, AnalysisBroken

SPL = "fastscapelib::spl_eroder"
UNITS = ["raster_queen", "profile", "trimesh"]

# exponent scenarios: (label, abstract value, expected classification)
SCENARIOS = [
    ("n in [0, 0.5]", Interval(0.0, 0.5), False),
    ("n in [0.5, 0.999]", Interval(0.5, 0.999), False),
    ("n = 1", Interval(1.0, 1.0), True),
    ("n in [1.001, 1.5]", Interval(1.001, 1.5), False),
    ("n in [1.5, +inf)", Interval(1.5, float("inf")), False),
]


class SplWorld(World):
    def __init__(self, single_flow):
        self.single_flow = single_flow

    def before_call(self, it, fn, call, callee, frame):
        if callee.bn.endswith("flow_graph::single_flow"):
            return self.single_flow
        return NOT_HANDLED


def classify(fn, value, single_flow):
    """interpret set_slope_exp(value); returns the list of outcomes (linear?, threw?) over all
    decision sequences"""
    outs = []

    def run(dec):
        w = SplWorld(single_flow)
        it = Interp(w, dec)
        this = Obj(SPL, {"m_flow_graph": Sym("flow_graph", "fg"), "m_slope_exp": None,
                         "m_linear": None})
        try:
            it.call_fn(fn, this, [value])
            threw = False
        except ThrowEx:
            threw = True
        return it, (this.fields.get("m_linear"), threw, this.fields.get("m_slope_exp"))

    for made, res in explore(run):
        outs.append(res)
    return outs


def writers_of(db, unit, cls, fields):
    """functions of cls (same unit) that write one of the fields -> {field: {fn names}}"""
    out = {f: set() for f in fields}
    for fn in db.fns(unit=unit, pred=lambda f: f.cls == cls):
        for n in walk(fn.body):
            tgt = None
            if n.get("k") == "binop" and n["op"].endswith("=") and n["op"] not in ("==", "!=", "<=", ">="):
                tgt = n["lhs"]
            elif n.get("k") == "unop" and n["op"] in ("++", "--"):
                tgt = n["e"]
            if tgt is not None:
                t = pp(strip(tgt))
                for f in fields:
                    if t == "this->" + f:
                        out[f].add(fn.name)
        for ini in fn.d.get("inits", []) or []:
            if ini.get("field") in fields and ini.get("written"):
                out[ini["field"]].add(fn.name)
    return out


def convergence_tests(fn):
    """(loop, if-stmt, condition) of every `break` guarded by a comparison with m_tolerance"""
    out = []
    for loop in walk(fn.body):
        if loop.get("k") not in ("while", "do", "for"):
            continue
        for n in walk(loop.get("body")):
            if n.get("k") == "if" and "m_tolerance" in pp(n["c"]) and \
                    any(x.get("k") == "break" for x in walk(n.get("then"))):
                if not any(n is o[1] for o in out):
                    out.append((loop, n, n["c"]))
    return out


def eval_guard(fn, cond, residual):
    """evaluate the exit condition with every local variable it mentions bound to `residual`"""
    from ..interp import Frame, Cell
    outs = set()

    def run(dec):
        it = Interp(World(), dec)
        fr = Frame(fn, Obj(SPL, {"m_tolerance": 1e-3}))
        for n in walk(cond):
            if n.get("k") == "ref" and n.get("rk") in ("local", "param") and n.get("d") is not None:
                fr.vars[n["d"]] = Cell(residual, n["n"])
        return it, it.truth(it.eval(cond, fr), cond)
    for made, res in explore(run):
        outs.add(bool(res))
    return outs


def run(db, chk):
    chk.explanation = (
        "Abstract interpretation (interval domain, exhaustive over the listed exponent intervals) "
        "of spl_eroder::set_slope_exp on every instantiated grid type: the linear-case flag must "
        "be definitely false on every interval that excludes 1 and definitely true at 1. The "
        "residual of the discrete equation and the Newton iteration are numerical and NOT decided.")
    chk.not_decided = ["residual of the backward-Euler equation within rounding / tolerance",
                       "convergence of the Newton-Raphson iteration"]
    chk.rule("C13-L1", "the linear-case flag computed by set_slope_exp is true exactly for n = 1 "
             "(evaluated on intervals below, at and above one)", min_instances=len(SCENARIOS))
    chk.rule("C13-N1", "the Newton-Raphson iteration of the non-linear case stops on a two-sided "
             "test of the residual against the tolerance (|residual| <= tolerance)", min_instances=1)
    chk.rule("C13-L2", "the flag and the stored exponent are written only by set_slope_exp (so "
             "the classification cannot go stale)", min_instances=2)
    fns = db.fns(SPL + "::set_slope_exp")
    if not fns:
        raise AnalysisBroken("spl_eroder::set_slope_exp not instantiated")
    n_sc = 0
    for fn in fns:
        for label, val, expected in SCENARIOS:
            outs = classify(fn, val, True)
            n_sc += len(outs)
            flags = sorted({str(o[0]) for o in outs})
            ok = all(o[0] is expected for o in outs)
            chk.ob("C13-L1", "%s -> linear flag %s (expected %s)" % (label, "/".join(flags), expected),
                   ok, where=fn.ploc, function=fn.bn, construct="m_linear(%s)" % label,
                   detail="" if ok else "the classification expression is not two-sided: an "
                   "exponent in this interval can be treated as n = 1",
                   extra={"unit": fn.unit.name})
        wr = writers_of(db, fn.unit.name, SPL, ["m_linear", "m_slope_exp"])
        for f, ws in wr.items():
            ok = ws <= {"set_slope_exp"} and bool(ws)
            chk.ob("C13-L2", "%s written by %s" % (f, sorted(ws)), ok, where=fn.ploc,
                   function=fn.bn, construct="writers(%s)" % f, extra={"unit": fn.unit.name})
    # ---- N1: the Newton iteration may only stop on a two-sided test of the residual
    for fn in db.fns(SPL + "::erode"):
        tests = convergence_tests(fn)
        if not tests:
            raise AnalysisBroken("C13-N1: no tolerance-guarded exit found in spl_eroder::erode (%s)" % fn.unit.name)
        for loop, stmt, cond in tests:
            variables = {n["n"] for n in walk(cond) if n.get("k") == "ref" and n.get("rk") in ("local", "param")}
            if len(variables) != 1:
                raise AnalysisBroken("C13-N1: exit test %s mentions %d local variables" % (pp(cond), len(variables)))
            res = {}
            for label, iv in (("residual << -tolerance", Interval(-1e300, -1.0)),
                              ("|residual| < tolerance", Interval(-4e-4, 4e-4)),
                              ("residual >> tolerance", Interval(1.0, 1e300))):
                res[label] = eval_guard(fn, cond, iv)
                n_sc += 1
            ok = res["residual << -tolerance"] == {False} and res["|residual| < tolerance"] == {True} \
                and res["residual >> tolerance"] == {False}
            chk.ob("C13-N1", "[%s] Newton exit test `%s`: stops for %s" % (
                fn.unit.name, pp(cond), {k: sorted(v) for k, v in res.items()}), ok, where=fn.loc(stmt),
                function=fn.bn, construct="newton-exit(%s)" % sorted(variables)[0],
                detail="" if ok else "the iteration stops as soon as the residual is below +tolerance: for a "
                "concave equation (slope exponent < 1) the first Newton step overshoots to a large "
                "NEGATIVE residual and is accepted as converged", extra={"unit": fn.unit.name})
    chk.count_scenarios(n_sc, True)
