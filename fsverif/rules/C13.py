"""C13 — stream-power implicit equation (narrow claim): the linear-case classification.

C13-L1 (A5, interval domain): `set_slope_exp` is interpreted with the exponent ranging over
intervals; the resulting classification flag must be definitely false below one, definitely true
at one and definitely false above one.  A wrong classification sends n != 1 through the closed
form for n = 1, so the returned erosion does not satisfy the discrete equation, and it defeats the
rejection of n != 1 on multiple-direction graphs (C12).
C13-N1 (A5, interval domain): the exit test of the Newton-Raphson loop is evaluated with the
residual far below -tolerance, within the tolerance and far above it: it may stop the iteration
only in the middle case (a one-sided test accepts the overshoot of the first step when n < 1).
C13-Q1 / C13-Q2 (A5, exact rational-function domain with uninterpreted pow, numeric representatives
deciding the control path of a generic interior node): the closed form of the linear case and
the residual / update of the Newton iteration are, symbolically, those of the discrete equation.
The size of the residual reached, rounding and the number of iterations are numerical: NOT decided.
"""
from ..interp import Interp, World, Interval, Obj, Sym, ThrowEx, explore, NOT_HANDLED
from ..sir import pp, strip, walk, calls, AnalysisBroken

SPL = "fastscapelib::spl_eroder"
UNITS = ["raster_queen", "profile", "trimesh"]

# exponent scenarios: (label, abstract value, expected classification)
SCENARIOS = [
    ("n in [0, 0.5]", Interval(0.0, 0.5), False),
    ("n in [0.5, 0.999]", Interval(0.5, 0.999), False),
    ("n = 1", Interval(1.0, 1.0), True),
    ("n in [1.001, 1.5]", Interval(1.001, 1.5), False),
    ("n in [1.5, +inf)", Interval(1.5, float("inf")), False),
]


class SplWorld(World):
    def __init__(self, single_flow):
        self.single_flow = single_flow

    def before_call(self, it, fn, call, callee, frame):
        if callee.bn.endswith("flow_graph::single_flow"):
            return self.single_flow
        return NOT_HANDLED


def classify(fn, value, single_flow):
    """interpret set_slope_exp(value); returns the list of outcomes (linear?, threw?) over all
    decision sequences"""
    outs = []

    def run(dec):
        w = SplWorld(single_flow)
        it = Interp(w, dec)
        this = Obj(SPL, {"m_flow_graph": Sym("flow_graph", "fg"), "m_slope_exp": None})
        try:
            it.call_fn(fn, this, [value])
            threw = False
        except ThrowEx:
            threw = True
        # the classification is whatever the setter records besides the exponent itself (a bool
        # today; an enumeration or two flags would do as well): compared between scenarios only
        sig = tuple(sorted((k, repr(v)) for k, v in this.fields.items()
                           if k not in ("m_flow_graph", "m_slope_exp")))
        return it, (sig, threw, this.fields.get("m_slope_exp"))

    for made, res in explore(run):
        outs.append(res)
    return outs


def writers_of(db, unit, cls, fields):
    """functions of cls (same unit) that write one of the fields -> {field: {fn names}}"""
    out = {f: set() for f in fields}
    for fn in db.fns(unit=unit, pred=lambda f: f.cls == cls):
        for n in walk(fn.body):
            tgt = None
            if n.get("k") == "binop" and n["op"].endswith("=") and n["op"] not in ("==", "!=", "<=", ">="):
                tgt = n["lhs"]
            elif n.get("k") == "unop" and n["op"] in ("++", "--"):
                tgt = n["e"]
            if tgt is not None:
                t = pp(strip(tgt))
                for f in fields:
                    if t == "this->" + f:
                        out[f].add(fn.name)
        for ini in fn.d.get("inits", []) or []:
            if ini.get("field") in fields and ini.get("written"):
                out[ini["field"]].add(fn.name)
    return out


def is_tolerance(fn, ref):
    """does the expression denote the tolerance member (directly or through a never-reassigned local)?"""
    from ..sir import resolve_alias
    r = resolve_alias(fn, ref)
    return r.get("k") == "member" and r.get("n") == "m_tolerance"


def mentions_tolerance(fn, cond):
    for n in walk(cond):
        if n.get("k") == "member" and n.get("n") == "m_tolerance":
            return True
        if n.get("k") == "ref" and n.get("rk") in ("local", "slocal") and is_tolerance(fn, n):
            return True
    return False


def convergence_tests(fn):
    """(host function, loop, if-stmt, condition) of every loop exit (break / return) guarded by a
    comparison with the tolerance, in fn or in the helpers of the same class it calls"""
    out = []
    hosts, seen = [fn], {fn.key}
    for depth in range(2):
        for h in list(hosts):
            for c in calls(h.body):
                cal = h.callee(c)
                if cal is not None and cal.cls == fn.cls and cal.key not in seen and cal.body is not None:
                    seen.add(cal.key)
                    hosts.append(cal)
            # closures created in the host (the iteration may live in a local lambda; a generic
            # lambda is represented by its instantiated specialisations)
            for lam in walk(h.body):
                if lam.get("k") != "lambda":
                    continue
                for fid in ([lam["fid"]] if lam.get("fid") is not None else []) + list(lam.get("fids", []) or []):
                    lf = h.unit.fns.get(fid)
                    if lf is not None and lf.key not in seen and lf.body is not None:
                        seen.add(lf.key)
                        hosts.append(lf)
    for h in hosts:
        for loop in walk(h.body):
            if loop.get("k") not in ("while", "do", "for"):
                continue
            for n in walk(loop.get("body")):
                if n.get("k") == "if" and mentions_tolerance(h, n["c"]) and \
                        any(x.get("k") in ("break", "return") for x in walk(n.get("then"))):
                    if not any(n is o[2] for o in out):
                        out.append((h, loop, n, n["c"]))
    return out


def eval_guard(fn, cond, residual):
    """evaluate the exit condition with every local variable it mentions bound to `residual`
    (aliases of the tolerance are bound to the tolerance)"""
    from ..interp import Frame, Cell
    outs = set()

    def run(dec):
        it = Interp(World(), dec)
        fr = Frame(fn, Obj(SPL, {"m_tolerance": 1e-3}))
        for n in walk(cond):
            if n.get("k") == "ref" and n.get("rk") in ("local", "param") and n.get("d") is not None:
                fr.vars[n["d"]] = Cell(1e-3 if is_tolerance(fn, n) else residual, n["n"])
        return it, it.truth(it.eval(cond, fr), cond)
    for made, res in explore(run):
        outs.add(bool(res))
    return outs


def run(db, chk):
    chk.explanation = (
        "Abstract interpretation (interval domain, exhaustive over the listed exponent intervals) "
        "of spl_eroder::set_slope_exp on every instantiated grid type: the linear-case flag must "
        "be definitely false on every interval that excludes 1 and definitely true at 1. The "
        "residual of the discrete equation and the Newton iteration are numerical and NOT decided.")
    chk.not_decided = ["residual of the backward-Euler equation within rounding / tolerance",
                       "convergence of the Newton-Raphson iteration"]
    chk.rule("C13-L1", "the linear-case flag computed by set_slope_exp is true exactly for n = 1 "
             "(evaluated on intervals below, at and above one)", min_instances=len(SCENARIOS))
    chk.rule("C13-Q1", "linear case: the erosion written for a node is, as a rational-function identity "
             "in all symbols, h - (h + sum_r f_r h_r')/(1 + sum_r f_r) with f_r = K dt (A w_r)^m / d_r, "
             "i.e. the exact solution of the backward-Euler equation for n = 1 (one and two receivers)",
             min_instances=2)
    chk.rule("C13-Q2", "non-linear case: the residual the Newton loop evaluates is delta + F delta^n - "
             "delta_0 with F = K dt (A w)^m / d^n, and the second iterate is delta_0 - f/f' (symbolic "
             "identity on the first two evaluations)", min_instances=1)
    chk.rule("C13-Q3", "with zero erodibility or a zero time step the returned erosion is exactly 0 for every "
             "exponent class, including values a fast path might single out (1, 2, 0.5, 3): nothing divides by "
             "the vanishing factor", min_instances=10)
    chk.rule("C13-N1", "the Newton-Raphson iteration of the non-linear case stops on a two-sided "
             "test of the residual against the tolerance (|residual| <= tolerance)", min_instances=1)
    chk.rule("C13-L2", "the flag and the stored exponent are written only by set_slope_exp (so "
             "the classification cannot go stale)", min_instances=2)
    fns = db.fns(SPL + "::set_slope_exp")
    if not fns:
        raise AnalysisBroken("spl_eroder::set_slope_exp not instantiated")
    n_sc = 0
    for fn in fns:
        at_one = {o[0] for o in classify(fn, Interval(1.0, 1.0), True)}
        if at_one == {()}:
            # the setter records nothing but the exponent: a classification member initialised by the
            # constructor from the exponent is then stale after set_slope_exp
            stale = []
            for c in fn.unit.fns.values():
                if c.cls != SPL or not c.is_ctor:
                    continue
                exp_params = set()
                for call in calls(c.body):
                    if call.get("bn") == SPL + "::set_slope_exp":
                        exp_params |= {r.get("d") for a in call.get("a", []) for r in walk(a)
                                       if r.get("k") == "ref" and r.get("rk") == "param"}
                for ini in c.d.get("inits", []) or []:
                    if ini.get("field") == "m_slope_exp" and ini.get("init") is not None:
                        exp_params |= {r.get("d") for r in walk(ini["init"]) if r.get("k") == "ref" and r.get("rk") == "param"}
                for ini in c.d.get("inits", []) or []:
                    if ini.get("field") != "m_slope_exp" and ini.get("init") is not None and \
                            any(r.get("k") == "ref" and r.get("rk") == "param" and r.get("d") in exp_params
                                for r in walk(ini["init"])):
                        stale.append((c, ini))
            if not stale:
                raise AnalysisBroken("C13-L1: set_slope_exp records no classification and the constructor derives none "
                                     "from the exponent: the classification is made elsewhere")
            for c, ini in stale:
                chk.ob("C13-L1", "%s is derived from the exponent by the constructor only" % ini["field"], False,
                       where=fn.ploc, function=fn.bn, construct="classification(stale)",
                       detail="set_slope_exp does not update it: after the setter the classification is that of "
                       "the exponent given at construction", extra={"unit": fn.unit.name})
            continue
        if len(at_one) != 1 or not list(at_one)[0]:
            raise AnalysisBroken("C13-L1: set_slope_exp(1) records no definite classification (%r)" % (at_one,))
        at_one = list(at_one)[0]
        for label, val, expected in SCENARIOS:
            outs = classify(fn, val, True)
            n_sc += len(outs)
            flags = sorted({"linear" if o[0] == at_one else "non-linear" for o in outs})
            ok = all((o[0] == at_one) is expected for o in outs)
            chk.ob("C13-L1", "%s -> classified %s (expected %s)" % (label, "/".join(flags), "linear" if expected else "non-linear"),
                   ok, where=fn.ploc, function=fn.bn, construct="classification(%s)" % label,
                   detail="" if ok else "the classification expression is not two-sided: an "
                   "exponent in this interval can be treated as n = 1",
                   extra={"unit": fn.unit.name})
        wr = writers_of(db, fn.unit.name, SPL, [k for k, _ in at_one] + ["m_slope_exp"])
        for f, ws in wr.items():
            ok = ws <= {"set_slope_exp"} and bool(ws)
            chk.ob("C13-L2", "%s written by %s" % (f, sorted(ws)), ok, where=fn.ploc,
                   function=fn.bn, construct="writers(%s)" % f, extra={"unit": fn.unit.name})
    if chk.want("C13-L4"):
        from .persist import sibling_setters
        from ..effects import Effects
        chk.rule("C13-L4", "the overloads of a setter of the eroder agree on the state they replace: nothing that "
                 "erode() reads and one overload of set_k_coef updates (a cache, a stride, a flag) is left "
                 "describing the previous coefficient by the other overload", min_instances=2)
        sibling_setters(db, Effects(db), chk, "C13-L4", SPL)
    # ---- N1: the Newton iteration may only stop on a two-sided test of the residual
    for fn in db.fns(SPL + "::erode"):
        tests = convergence_tests(fn)
        if not tests:
            raise AnalysisBroken("C13-N1: no tolerance-guarded exit found in spl_eroder::erode (%s)" % fn.unit.name)
        for host, loop, stmt, cond in tests:
            variables = {n["n"] for n in walk(cond) if n.get("k") == "ref" and n.get("rk") in ("local", "param")
                         and not is_tolerance(host, n)}
            if len(variables) != 1:
                raise AnalysisBroken("C13-N1: exit test %s mentions %d local variables" % (pp(cond), len(variables)))
            res = {}
            for label, iv in (("residual << -tolerance", Interval(-1e300, -1.0)),
                              ("|residual| < tolerance", Interval(-4e-4, 4e-4)),
                              ("residual >> tolerance", Interval(1.0, 1e300))):
                res[label] = eval_guard(host, cond, iv)
                n_sc += 1
            ok = res["residual << -tolerance"] == {False} and res["|residual| < tolerance"] == {True} \
                and res["residual >> tolerance"] == {False}
            chk.ob("C13-N1", "[%s] Newton exit test `%s`: stops for %s" % (
                fn.unit.name, pp(cond), {k: sorted(v) for k, v in res.items()}), ok, where=host.loc(stmt),
                function=fn.bn, construct="newton-exit(%s)" % sorted(variables)[0],
                detail="" if ok else "the iteration stops as soon as the residual is below +tolerance: for a "
                "concave equation (slope exponent < 1) the first Newton step overshoots to a large "
                "NEGATIVE residual and is accepted as converged", extra={"unit": fn.unit.name})
    n_sc += equation_rules(db, chk)
    chk.absorb(db, "C12", {"C12-V2"}, "C13-L3", "the erosion array and the correction counter are reset at every "
               "step (shared with C12-V2): a lake node, which writes nothing, must read zero erosion",
               min_instances=3)
    chk.count_scenarios(n_sc, True)


# ------------------------------------------------------------------------------------ Q1 / Q2
# symbolic check of the discrete equation (rational functions with uninterpreted pow)

from .. import ratfun                     # noqa: E402
from ..ratfun import Dual                 # noqa: E402
from ..interp import LoopBound, PyVec, ElemRef, NOT_HANDLED, Ref, Poly   # noqa: E402
from .routers import Table               # noqa: E402

QNODE = 7


class EqWorld(World):
    loop_bound = 2

    def __init__(self, recs, vals):
        self.recs = recs
        self.v = vals
        self.written = []
        self.tol_tests = []

    def sym_binop(self, op, a, b):
        return ratfun.binop(op, a, b)

    def sym_unop(self, op, a):
        if op == "-":
            return Dual.of(a).neg()
        if op in ("abs", "fabs"):
            return ratfun.ufun("fabs", a)
        raise AnalysisBroken("equation model: unary %s" % op)

    def sym_cmp(self, op, a, b):
        for x, y in ((a, b), (b, a)):
            if isinstance(y, Dual) and y is self.v["tol"] and isinstance(x, Dual):
                self.tol_tests.append(x)
        return ratfun.compare(op, a, b)

    def before_call(self, it, fn, call, callee, frame):
        name = callee.bn.split("::")[-1]
        if name == "impl":
            return Sym("impl", "i")
        if name in ("receivers", "receivers_count", "receivers_distance", "receivers_weight"):
            return self.tables[name]
        if name == "nodes_indices_bottomup":
            return PyVec([QNODE])
        if name == "single_flow":
            return len(self.recs) == 1
        return NOT_HANDLED

    def external(self, it, fn, call, frame):
        bn = call.get("bn", "")
        name = bn.split("::")[-1]
        args = call.get("a", [])
        if bn == "std::numeric_limits::epsilon":
            return 2.220446049250313e-16
        if bn in ("std::sqrt", "sqrt"):
            x = Dual.of(it.rv(it.eval(args[0], frame)))
            import math as _m
            return Dual(_m.sqrt(max(x.rep, 0.0)), Poly.sym("sqrt[%s]" % x.key()))
        obj = call.get("obj")
        if bn in ("std::pow", "pow"):
            return ratfun.upow(it.rv(it.eval(args[0], frame)), it.rv(it.eval(args[1], frame)))
        if bn in ("std::fabs", "std::abs", "fabs", "abs"):
            return ratfun.ufun("fabs", it.rv(it.eval(args[0], frame)))
        if obj is not None:
            o = it.rv(it.eval(obj, frame))
            if isinstance(o, Table) and name in ("operator()", "flat", "operator[]", "at"):
                return ElemRef(o, tuple(it.rv(it.eval(a, frame)) for a in args))
            if isinstance(o, Table) and name == "shape":
                # (nodes, columns): one column for a graph whose operators are all single-direction, the
                # maximum neighbour count for a graph that is multi-direction at some stage
                sh = [100] if o.name == "c" else [100, getattr(self, "ncols", None) or max(1, len(self.recs))]
                if args:
                    return sh[it.rv(it.eval(args[0], frame))]
                return PyVec(sh)
            if isinstance(o, Sym) and o.kind == "elevarray":
                i = it.rv(it.eval(args[0], frame))
                return self.v["h"] if i == QNODE else self.v["e%d" % i]
            if isinstance(o, Sym) and o.kind == "area":
                return self.v["A"]
            if isinstance(o, Sym) and o.kind == "kcoef":
                return self.v["K"]
            if isinstance(o, Sym) and o.kind == "erosion":
                if name == "fill":
                    return None
                if name in ("begin", "end", "cbegin", "cend"):
                    from ..interp import WholeRange

                    class _Ero:
                        def fill_all(self_inner, v):
                            return None
                    if not hasattr(self, "_ero_range"):
                        self._ero_range = _Ero()
                    return WholeRange(self._ero_range, name in ("end", "cend"))
                i = it.rv(it.eval(args[0], frame))
                w = self

                class R(Ref):
                    def get(self_inner):
                        return 0.0 if i == QNODE else w.v["ero%d" % i]

                    def set(self_inner, val):
                        if i != QNODE:
                            raise AnalysisBroken("equation model: erosion of node %r written" % (i,))
                        w.written.append(val)
                return R()
        return NOT_HANDLED


def eq_values(recs, n_rep):
    v = {"h": Dual.sym("h", 10.0), "A": Dual.sym("A", 4.0), "K": Dual.sym("K", 0.01),
         "dt": Dual.sym("dt", 10.0), "m": Dual.sym("m", 0.5), "n": Dual.sym("n", n_rep),
         "tol": Dual.sym("tol", 1e-12)}
    reps = {20: (8.0, 1.0, 0.5, 2.0), 21: (9.0, 0.5, 0.5, 3.0)}
    for r in recs:
        eo, er, w, d = reps[r]
        v["e%d" % r] = Dual.sym("e%d" % r, eo)
        v["ero%d" % r] = Dual.sym("ero%d" % r, er)
        v["w%d" % r] = Dual.sym("w%d" % r, w if len(recs) > 1 else 1.0)
        v["d%d" % r] = Dual.sym("d%d" % r, d)
    return v


def run_equation(er, recs, linear, n_value=None, zero=None, ncols=None):
    """zero: None | "K" | "dt" -- that factor is exactly 0 (no erodibility / no time)"""
    v = eq_values(recs, 1.0 if linear else 1.7)
    if n_value is not None:
        v["n"] = Dual.of(n_value)
    if zero == "K":
        v["K"] = Dual.of(0)
    if zero == "dt":
        v["dt"] = Dual.of(0)
    w = EqWorld(recs, v)
    w.ncols = ncols
    R, C, D, Wt = (Table(x) for x in ("r", "c", "d", "w"))
    C[(QNODE,)] = len(recs)
    for j, r in enumerate(recs):
        R[(QNODE, j)] = r
        D[(QNODE, j)] = v["d%d" % r]
        Wt[(QNODE, j)] = v["w%d" % r]
    w.tables = {"receivers": R, "receivers_count": C, "receivers_distance": D, "receivers_weight": Wt}
    it = Interp(w)
    this = Obj(SPL, {"m_flow_graph": Sym("flow_graph", "fg"), "m_erosion": Sym("erosion", "e"),
                     "m_n_corr": 0, "m_k_coef": Sym("kcoef", "k"), "m_area_exp": v["m"],
                     "m_slope_exp": v["n"], "m_tolerance": v["tol"], "m_linear": linear})
    status = "ok"
    try:
        # the classification flags (linear case and whatever else the setter derives from the
        # exponent) are computed by the library's own setter
        sse = [f for f in er.unit.fns.values() if f.cls == SPL and f.name == "set_slope_exp"]
        if sse:
            it.call_fn(sse[0], this, [v["n"]])
            if bool(this.fields.get("m_linear")) != bool(linear):
                raise AnalysisBroken("C13: set_slope_exp classifies the representative exponent %r as %s"
                                     % (v["n"], "linear" if this.fields.get("m_linear") else "non-linear"))
        it.call_fn(er, this, [Sym("elevarray", "elev"), Sym("area", "A"), v["dt"]])
    except LoopBound:
        status = "loop-bound"
    except ThrowEx as ex:
        status = "threw " + ex.text
    return w, v, status


def equation_rules(db, chk):
    n = 0
    for er in db.fns(SPL + "::erode"):
        uname = er.unit.name
        # ---- Q1: closed form for n = 1, one and two receivers
        for recs in ([20], [20, 21]):
            n += 1
            w, v, status = run_equation(er, recs, True)
            bad = []
            if status != "ok":
                bad.append(status)
            elif len(w.written) != 1:
                bad.append("%d erosion writes" % len(w.written))
            else:
                num, den = v["h"], Dual.of(1)
                for r in recs:
                    f = ratfun.binop("/", ratfun.binop("*", ratfun.binop("*", v["K"], v["dt"]),
                                                       ratfun.upow(ratfun.binop("*", v["A"], v["w%d" % r]), v["m"])),
                                     v["d%d" % r])
                    nxt = ratfun.binop("-", v["e%d" % r], v["ero%d" % r])
                    num = ratfun.binop("+", num, ratfun.binop("*", f, nxt))
                    den = ratfun.binop("+", den, f)
                want = ratfun.binop("-", v["h"], ratfun.binop("/", num, den))
                got = w.written[0]
                if not (isinstance(got, Dual) and got.same(want)):
                    bad.append("erosion is not h - (h + sum f_r*h_r')/(1 + sum f_r) with "
                               "f_r = K*dt*(A*w_r)^m/d_r: got %r" % (got,))
            chk.ob("C13-Q1", "[%s] linear case, %d receiver(s): returned erosion solves the backward-Euler "
                   "equation (symbolic identity)" % (uname, len(recs)), not bad, where=er.ploc,
                   function=er.bn, construct="closed-form(%d)" % len(recs), detail="; ".join(bad)[:400],
                   extra={"unit": uname})
        # ---- Q2: Newton residual of the non-linear case (single receiver)
        # (a single-direction final state may live in multi-column tables -- a multi router earlier in the
        # sequence --: the equation solved must not depend on the table width)
        for ncols in (1, 8):
            n += 1
            w, v, status = run_equation(er, [20], False, ncols=ncols)
            bad = []
            if status.startswith("threw"):
                bad.append(status)
            F = ratfun.binop("/", ratfun.binop("*", ratfun.binop("*", v["K"], v["dt"]),
                                               ratfun.upow(ratfun.binop("*", v["A"], v["w20"]), v["m"])),
                             ratfun.upow(v["d20"], v["n"]))
            d0 = ratfun.binop("-", v["h"], ratfun.binop("-", v["e20"], v["ero20"]))

            def resid(d):
                return ratfun.binop("-", ratfun.binop("+", d, ratfun.binop("*", F, ratfun.upow(d, v["n"]))), d0)
            f1 = resid(d0)
            deriv1 = ratfun.binop("+", Dual.of(1), ratfun.binop("/", ratfun.binop("*", v["n"], ratfun.binop(
                "*", F, ratfun.upow(d0, v["n"]))), d0))
            d1 = ratfun.binop("-", d0, ratfun.binop("/", f1, deriv1))
            f2 = resid(d1)
            obs = w.tol_tests
            if len(obs) < 2 and not bad:
                bad.append("fewer than two residual evaluations observed (%d)" % len(obs))
            for k, (o, want) in enumerate(zip(obs, (f1, f2))):
                if not (o.same(want) or o.same(want.neg())):
                    bad.append("residual #%d is not delta + F*delta^n - delta_0 with F = K*dt*(A*w)^m/d^n "
                               "(delta_1 = delta_0 - f/f'): got %r" % (k + 1, o))
                    break
            chk.ob("C13-Q2", "[%s] non-linear case, single direction in %d-column tables: the first two Newton "
                   "residuals are those of the discrete equation (symbolic identity)" % (uname, ncols), not bad,
                   where=er.ploc, function=er.bn, construct="newton-residual(%d)" % ncols, detail="; ".join(bad)[:400],
                   extra={"unit": uname})
        # ---- Q3: zero erodibility / zero time step, for ordinary and "special" exponents
        for n_val, lin in ((1.0, True), (1.7, False), (2.0, False), (0.5, False), (3.0, False)):
            for zero in ("K", "dt"):
                n += 1
                bad3 = []
                try:
                    w3, v3, st3 = run_equation(er, [20], lin, n_value=n_val, zero=zero)
                    if st3.startswith("threw"):
                        bad3.append(st3)
                    elif st3 == "loop-bound":
                        bad3.append("the iteration does not stop although the residual is exactly 0")
                    elif len(w3.written) != 1 or not Dual.of(w3.written[0]).same(0):
                        bad3.append("erosion written: %r (expected exactly 0)" % (w3.written[:1],))
                except AnalysisBroken as ex:
                    if "representative is 0" in str(ex):
                        bad3.append("divides by the factor K*dt*(A*w)^m/d^n, which is 0 here: 0/0 = NaN erosion")
                    else:
                        raise
                chk.ob("C13-Q3", "[%s] slope exponent %g, %s = 0: zero erosion, no division by the vanishing factor"
                       % (uname, n_val, zero), not bad3, where=er.ploc, function=er.bn, construct="zero-factor",
                       detail="; ".join(bad3)[:300], extra={"unit": uname})
    return n
