"""C17 — node status rules and status-filtered iteration.

C17-N1 (A5) status composition: raster_grid::set_nodes_status / profile_grid::set_nodes_status are
        interpreted over an abstract status array (ordered region assignments through the xt::view
        helpers, symbolic first / middle / last index classes) for ALL 4^4 (raster) and 4^2
        (profile) border-status combinations; the resulting status of each of the 9 (3) node
        classes must equal the documented composition, corners taking the higher-precedence
        status (fixed value > fixed gradient > looped > core).
C17-N2 (A5) looped borders are accepted only symmetrically: the boundary-status constructors throw
        exactly when left/right (or top/bottom) disagree on being looped (all combinations).
C17-N3 (A5) per-node overrides: a looped override, an override of a looped node and an
        out-of-range index are rejected with an error; a valid override replaces the status.
C17-N4 the flow-graph constructor seeds base levels from the fixed-value nodes, and the status
        filter keeps exactly the nodes whose status equals the requested one.
C17-N5 filtered iteration: guard order (shared with C08-B1), advance by exactly one per step, and
        a bounded exhaustive interpretation of the iterator over all filter patterns of <= 5 nodes.
Not decided: the behaviour of the xtensor view library itself.
"""
import itertools

from ..interp import Interp, World, Obj, Sym, PyVec, ThrowEx, Ref, Closure, NOT_HANDLED, Opaque
from ..sir import pp, strip, walk, calls, const_value, AnalysisBroken
from . import C08

STATUS = {"core": 0, "fixed_value": 1, "fixed_gradient": 2, "looped": 3}
SNAME = {v: k for k, v in STATUS.items()}
PRECEDENCE = ["core", "looped", "fixed_gradient", "fixed_value"]   # documented, low -> high
UNITS = ["raster_queen", "raster_rook", "raster_bishop", "profile", "trimesh"]


def higher(a, b):
    return a if PRECEDENCE.index(SNAME[a]) >= PRECEDENCE.index(SNAME[b]) else b


# representative concrete shape: the code touches indices only through comparisons with 0 / size
# and through linearisation, so each axis is represented by first (0), a middle and last (n-1)
# positions and the out-of-range position n
SHAPE = {2: (4, 6), 1: (5,)}
MID = {0: 1, 1: 2}


class OobAccess(Exception):
    """the interpreted code performed an UNCHECKED element access outside the array"""


def idx(tag, axis=0, ndim=2):
    n = SHAPE[ndim][axis]
    return {"0": 0, "mid": MID[axis], "last": n - 1, "n": n}[tag]


class RegionRef(Ref):
    def __init__(self, arr, region):
        self.arr = arr
        self.region = region

    def get(self):
        return self.arr.value_at(self.region)

    def set(self, v):
        self.arr.assign(self.region, v)


class ViewObj:
    """value of an xt::view expression (returned by value by the get_*_view helpers)"""

    def __init__(self, arr, region):
        self.arr = arr
        self.region = region

    def __deepcopy__(self, memo):
        return self


class ArrayModel:
    """abstract status array: base fill + ordered region assignments; a region is a tuple of
    selectors per axis: 'all' | '0' | 'mid' | 'last'"""

    def __init__(self, ndim, fill):
        self.ndim = ndim
        self.fill = fill
        self.log = []

    def __deepcopy__(self, memo):
        a = ArrayModel(self.ndim, self.fill)
        a.log = list(self.log)
        return a

    def assign(self, region, v):
        if isinstance(v, ArrayModel):
            self.fill, self.log = v.fill, list(v.log)
            return
        self.log.append((region, v))

    def value_at(self, cell):
        """cell: tuple of concrete coordinates"""
        cur = self.fill
        for region, v in self.log:
            if region is None:
                continue
            ok = True
            for axis, (r, c) in enumerate(zip(region, cell)):
                n = SHAPE[self.ndim][axis]
                if r == "all":
                    continue
                if r == "last":
                    r = n - 1
                if r != c:
                    ok = False
            if ok:
                cur = v
        return cur


def sel_of(v, axis, ndim, checked=False):
    if isinstance(v, Sym) and v.kind == "sel":
        return v.tag
    if isinstance(v, int) and not isinstance(v, bool):
        n = SHAPE[ndim][axis]
        if 0 <= v < n:
            return v
        raise OobAccess("index %d on an axis of length %d" % (v, n))
    raise AnalysisBroken("C17: unmodelled index selector %r" % (v,))


class StatusWorld(World):
    def __init__(self, ndim):
        self.ndim = ndim
        self.arrays = []

    # library model -------------------------------------------------------------------------------
    def external(self, it, fn, call, frame):
        bn = call.get("bn", "")
        name = bn.split("::")[-1]
        args = call.get("a", [])
        if call.get("k") == "construct":
            ts = fn.type(call.get("t"))
            if ts.startswith("xt::xtensor_container<") or ts.startswith("xt::xarray_container<"):
                if len(args) in (2, 3):   # (shape, value[, layout])
                    a = ArrayModel(self.ndim, it.rv(it.eval(args[1], frame)))
                    self.arrays.append(a)
                    return a
            return NOT_HANDLED
        if bn == "xt::all":
            return Sym("sel", "all")
        if bn == "xt::keep":
            v = it.rv(it.eval(args[0], frame))
            if v == -1:
                return Sym("sel", "last")
            raise AnalysisBroken("C17: xt::keep(%r)" % (v,))
        if bn == "xt::view":
            arr = it.rv(it.eval(args[0], frame))
            if not isinstance(arr, ArrayModel):
                raise AnalysisBroken("C17: xt::view on %r" % (arr,))
            sels = tuple(sel_of(it.rv(it.eval(a, frame)), ax, arr.ndim) for ax, a in enumerate(args[1:]))
            return ViewObj(arr, sels)
        obj = call.get("obj")
        if obj is not None:
            oref = it.eval(obj, frame)
            o = it.rv(oref)
            if name == "operator=" and isinstance(oref, Ref) and (o is None or isinstance(o, Opaque)) \
                    and len(args) == 1:
                v = it.rv(it.eval(args[0], frame))
                if isinstance(v, ArrayModel):
                    oref.set(v)
                    return oref
            if isinstance(o, ViewObj) and name == "operator=":
                o.arr.assign(o.region, it.rv(it.eval(args[0], frame)))
                return o
            if isinstance(o, ArrayModel):
                if name in ("operator()", "at", "operator[]", "flat"):
                    vals = [it.rv(it.eval(a, frame)) for a in args]
                    try:
                        sels = tuple(sel_of(v, ax, o.ndim) for ax, v in enumerate(vals))
                    except OobAccess as ex:
                        if name == "at":
                            # xt::xcontainer::at() is bounds-checked
                            raise ThrowEx(call, "std::out_of_range (xt at())", fn.loc(call))
                        raise
                    return RegionRef(o, sels)
                if name == "shape":
                    if args:
                        ax = it.rv(it.eval(args[0], frame))
                        return SHAPE[o.ndim][ax]
                if name == "size":
                    sz = 1
                    for d in SHAPE[o.ndim]:
                        sz *= d
                    return sz
                if name == "operator=":
                    o.assign(None, it.rv(it.eval(args[0], frame)))
                    return o
            if isinstance(o, PyVec) and name == "operator[]":
                return NOT_HANDLED
        return NOT_HANDLED

    def range_iter(self, it, fn, node, value, frame):
        v = it.rv(value)
        if isinstance(v, dict):
            return [(k, v[k]) for k in v]
        return NOT_HANDLED


def run_set_status(fn, ndim, bounds, overrides):
    """interpret <grid>::set_nodes_status; returns (array model | None | "oob", exception text)"""
    w = StatusWorld(ndim)
    it = Interp(w)
    if ndim == 2:
        bs = Obj("fastscapelib::raster_boundary_status",
                 {"left": bounds[0], "right": bounds[1], "top": bounds[2], "bottom": bounds[3]})
        this = Obj(fn.cls, {"m_shape": PyVec(list(SHAPE[2])), "m_size": SHAPE[2][0] * SHAPE[2][1],
                            "m_bounds_status": bs, "m_nodes_status": None})
    else:
        bs = Obj("fastscapelib::profile_boundary_status", {"left": bounds[0], "right": bounds[1]})
        this = Obj(fn.cls, {"m_shape": PyVec(list(SHAPE[1])), "m_size": SHAPE[1][0], "m_bounds_status": bs,
                            "m_nodes_status": None})
    try:
        it.call_fn(fn, this, [dict(overrides)])
    except ThrowEx as ex:
        return None, ex.text
    except OobAccess as ex:
        return "oob", str(ex)
    res = this.fields.get("m_nodes_status")
    if not isinstance(res, ArrayModel):
        raise AnalysisBroken("C17: m_nodes_status was not assigned from the composed array")
    return res, None


def expected_status(ndim, bounds, cell):
    if ndim == 1:
        n = SHAPE[1][0]
        return bounds[0] if cell[0] == 0 else bounds[1] if cell[0] == n - 1 else STATUS["core"]
    left, right, top, bottom = bounds
    r, c = cell
    nr, nc = SHAPE[2]
    rb = top if r == 0 else bottom if r == nr - 1 else None
    cb = left if c == 0 else right if c == nc - 1 else None
    if rb is None and cb is None:
        return STATUS["core"]
    if rb is None:
        return cb
    if cb is None:
        return rb
    return higher(rb, cb)


def cells(ndim):
    import itertools as _it
    axes = []
    for ax, n in enumerate(SHAPE[ndim]):
        axes.append([0, MID[ax], n - 1])
    return list(_it.product(*axes))


def is_looped(s):
    return s == STATUS["looped"]


def run(db, chk):
    chk.explanation = (
        "Abstract interpretation of the status composition code (set_nodes_status of raster and "
        "profile grids, boundary-status constructors, override loop) over an abstract array of "
        "first/middle/last index classes for every border-status combination (exhaustive: 4^4 + "
        "4^2), against the documented composition; plus the default base-level seeding and the "
        "status filter; plus structural rules on the filtered iterator and a bounded exhaustive "
        "interpretation of it.")
    chk.not_decided = ["behaviour of the xtensor view library itself (xt::view selectors are modelled)",
                       "trimesh status assignment from boundary detection (geometric, see C18)"]
    chk.rule("C17-N1", "the composed status array equals the documented composition for every "
             "combination of border statuses (corners: fixed value > fixed gradient > looped > core)",
             min_instances=110)
    chk.rule("C17-N2", "boundary-status constructors throw exactly for asymmetric looped borders",
             min_instances=256 + 16 + 4)
    chk.rule("C17-N3", "override loop: looped override, override of a looped node and "
             "out-of-range index are rejected; a valid override wins", min_instances=8)
    chk.rule("C17-N4", "default base levels are the fixed-value nodes; the status filter is an "
             "equality test on the node status", min_instances=2)
    chk.rule("C17-N5", "filtered iteration yields exactly the matching indices in increasing "
             "order: guard order, single increment per step, bounded exhaustive interpretation",
             min_instances=3)
    n_sc = 0
    S = [0, 1, 2, 3]

    # ------------------------------------------------------------------ N1 / N3 raster
    units = [u for u in UNITS if u in db.units]
    raster_units = [u for u in units if u.startswith("raster")]
    first = True
    for uname in raster_units:
        fns = db.fns("fastscapelib::raster_grid::set_nodes_status", unit=uname)
        if not fns:
            raise AnalysisBroken("raster_grid::set_nodes_status not instantiated in %s" % uname)
        fn = fns[0]
        combos = list(itertools.product(S, repeat=4)) if (first or chk.tier == "thorough") else \
            [(1, 1, 1, 1), (3, 3, 1, 2), (2, 1, 3, 3)]
        for b in combos:
            if (is_looped(b[0]) != is_looped(b[1])) or (is_looped(b[2]) != is_looped(b[3])):
                continue   # rejected by the boundary-status constructor (N2)
            arr, exc = run_set_status(fn, 2, b, {})
            n_sc += 1
            bad = []
            if arr is None:
                bad.append("threw %s" % exc)
            else:
                for cell in cells(2):
                    got, want = arr.value_at(cell), expected_status(2, b, cell)
                    if got != want:
                        bad.append("%s: %s, documented %s" % (cell, SNAME.get(got, got), SNAME[want]))
            chk.ob("C17-N1", "[%s] borders L/R/T/B = %s" % (uname, "/".join(SNAME[x] for x in b)),
                   not bad, where=fn.ploc, function=fn.bn, construct="compose(raster)",
                   detail="; ".join(bad[:3]), sample=(n_sc % 37 == 1), extra={"unit": uname})
        # overrides
        if first:
            R0, RM, RL, RN = (idx(t, 0) for t in ("0", "mid", "last", "n"))
            C0, CM, CL, CN = (idx(t, 1) for t in ("0", "mid", "last", "n"))
            sc = [
                ("looped override", (1, 1, 1, 1), {(RM, CM): 3}, "throw"),
                ("override of a looped border node", (3, 3, 1, 1), {(RM, C0): 1}, "throw"),
                ("row index out of range", (1, 1, 1, 1), {(RN, CM): 1}, "throw"),
                ("column index out of range", (1, 1, 1, 1), {(RM, CN): 1}, "throw"),
                ("column index out of range in the first row (flat index still inside the array)",
                 (1, 1, 1, 1), {(R0, CN + 2): 2}, "throw"),
                ("both indices far out of range", (1, 1, 1, 1), {(RN + 9, CN + 9): 1}, "throw"),
                ("valid inner override", (1, 1, 1, 1), {(RM, CM): 1}, (RM, CM, 1)),
                ("valid border override", (2, 2, 1, 1), {(RM, CL): 0}, (RM, CL, 0)),
                ("valid corner override", (2, 2, 1, 1), {(R0, C0): 2}, (R0, C0, 2)),
            ]
            for label, b, ov, want in sc:
                arr, exc = run_set_status(fn, 2, b, ov)
                n_sc += 1
                if want == "throw":
                    ok = arr is None
                    det = "" if ok else ("accepted: unchecked access outside the array (%s)" % exc
                                         if arr == "oob" else "accepted silently")
                else:
                    ok = arr is not None and arr != "oob" and arr.value_at((want[0], want[1])) == want[2]
                    det = "" if ok else ("threw %s" % exc if arr is None else "override lost")
                chk.ob("C17-N3", "[%s] raster: %s" % (uname, label), ok, where=fn.ploc,
                       function=fn.bn, construct="override(%s)" % label.split(" (")[0], detail=det)
            # systematic: every admissible border combination x every node class x every override
            # status: rejected exactly when the override is `looped` or the COMPOSED status of the
            # node is looped (a corner where a looped axis meets a higher-precedence border is not)
            nbad3 = 0
            for b in combos:
                if (is_looped(b[0]) != is_looped(b[1])) or (is_looped(b[2]) != is_looped(b[3])):
                    continue
                for cell in cells(2):
                    for st_new in S:
                        n_sc += 1
                        want_throw = st_new == 3 or expected_status(2, b, cell) == 3
                        arr, exc = run_set_status(fn, 2, b, {cell: st_new})
                        if want_throw:
                            ok = arr is None
                            det = "" if ok else "accepted although %s" % (
                                "the override is looped" if st_new == 3 else "the node is a looped boundary node")
                        else:
                            ok = arr is not None and arr != "oob" and arr.value_at(cell) == st_new
                            det = "" if ok else ("rejected (%s) although the composed status of the node is %s"
                                                 % (exc, SNAME[expected_status(2, b, cell)]) if arr is None
                                                 else "override lost")
                        if not ok:
                            nbad3 += 1
                        if ok or nbad3 <= 6:
                            chk.ob("C17-N3", "[%s] raster borders %s, node %s := %s" % (
                                uname, "/".join(SNAME[x] for x in b), cell, SNAME[st_new]), ok, where=fn.ploc,
                                function=fn.bn, construct="override-grid", detail=det, sample=(n_sc % 211 == 1))
        first = False

    # ------------------------------------------------------------------ N1 / N3 profile
    if "profile" in db.units:
        fns = db.fns("fastscapelib::profile_grid::set_nodes_status", unit="profile")
        if not fns:
            raise AnalysisBroken("profile_grid::set_nodes_status not instantiated")
        fn = fns[0]
        for b in itertools.product(S, repeat=2):
            if is_looped(b[0]) != is_looped(b[1]):
                continue
            arr, exc = run_set_status(fn, 1, b, {})
            n_sc += 1
            bad = []
            if arr is None:
                bad.append("threw %s" % exc)
            else:
                for cell in cells(1):
                    got, want = arr.value_at(cell), expected_status(1, b, cell)
                    if got != want:
                        bad.append("%s: %s, documented %s" % (cell, SNAME.get(got, got), SNAME[want]))
            chk.ob("C17-N1", "[profile] borders L/R = %s" % "/".join(SNAME[x] for x in b), not bad,
                   where=fn.ploc, function=fn.bn, construct="compose(profile)", detail="; ".join(bad[:3]))
        P0, PM, PL, PN = (idx(t, 0, 1) for t in ("0", "mid", "last", "n"))
        sc = [("looped override", (1, 1), {PM: 3}, "throw"),
              ("override of a looped border node", (3, 3), {P0: 1}, "throw"),
              ("index out of range", (1, 1), {PN: 1}, "throw"),
              ("index far out of range", (1, 1), {PN + 7: 1}, "throw"),
              ("valid override", (1, 1), {PM: 2}, (PM, 2))]
        for label, b, ov, want in sc:
            arr, exc = run_set_status(fn, 1, b, ov)
            n_sc += 1
            if want == "throw":
                ok = arr is None
                det = "" if ok else ("accepted: unchecked access outside the array (%s)" % exc
                                     if arr == "oob" else "accepted silently")
            else:
                ok = arr is not None and arr != "oob" and arr.value_at((want[0],)) == want[1]
                det = "" if ok else "override lost"
            chk.ob("C17-N3", "[profile] %s" % label, ok, where=fn.ploc, function=fn.bn,
                   construct="override(%s)" % label, detail=det)

    # ------------------------------------------------------------------ N2
    u0 = raster_units[0] if raster_units else None
    if u0:
        unit = db.units[u0]
        ctors = [f for f in unit.fns.values() if f.bn == "fastscapelib::raster_boundary_status::<ctor>"]
        arr_ctor = [f for f in ctors if "std::array" in f.type(f.params[0]["t"])]
        one_ctor = [f for f in ctors if "std::array" not in f.type(f.params[0]["t"])]
        if not arr_ctor or not one_ctor:
            raise AnalysisBroken("raster_boundary_status constructors not instantiated")
        rec = [r for r in unit.records if r["bn"] == "fastscapelib::raster_boundary_status"][0]

        def build(ctor, args):
            it = Interp(World())
            o = it.new_obj(ctor, rec)
            try:
                it.call_fn(ctor, o, args)
                return o, None
            except ThrowEx as ex:
                return None, ex.text
        for b in itertools.product(S, repeat=4):
            o, exc = build(arr_ctor[0], [PyVec(list(b))])
            n_sc += 1
            want_throw = (is_looped(b[0]) != is_looped(b[1])) or (is_looped(b[2]) != is_looped(b[3]))
            ok = (o is None) == want_throw
            if ok and o is not None:
                ok = [o.fields[k] for k in ("left", "right", "top", "bottom")] == list(b)
            chk.ob("C17-N2", "raster_boundary_status{%s}: %s" % ("/".join(SNAME[x] for x in b),
                   "rejected" if o is None else "accepted"), ok, where=arr_ctor[0].ploc,
                   function=arr_ctor[0].bn, construct="symmetry(raster)",
                   detail="" if ok else "expected %s" % ("an error" if want_throw else "acceptance"),
                   sample=(n_sc % 41 == 1))
        for s in S:
            o, exc = build(one_ctor[0], [s])
            n_sc += 1
            ok = o is not None and all(o.fields[k] == s for k in ("left", "right", "top", "bottom"))
            chk.ob("C17-N2", "raster_boundary_status(%s) accepted, all borders set" % SNAME[s], ok,
                   where=one_ctor[0].ploc, function=one_ctor[0].bn, construct="uniform(raster)")
    if "profile" in db.units:
        unit = db.units["profile"]
        ctors = [f for f in unit.fns.values() if f.bn == "fastscapelib::profile_boundary_status::<ctor>"]
        rec = [r for r in unit.records if r["bn"] == "fastscapelib::profile_boundary_status"][0]
        for ctor in ctors:
            kind = "array" if "std::array" in ctor.type(ctor.params[0]["t"]) else \
                "pair" if len(ctor.params) == 2 else "uniform"
            combos = [(s, s) for s in S] if kind == "uniform" else list(itertools.product(S, repeat=2))
            for b in combos:
                it = Interp(World())
                o = it.new_obj(ctor, rec)
                args = [PyVec(list(b))] if kind == "array" else list(b) if kind == "pair" else [b[0]]
                try:
                    it.call_fn(ctor, o, args)
                    threw = False
                except ThrowEx:
                    threw = True
                n_sc += 1
                want_throw = is_looped(b[0]) != is_looped(b[1])
                ok = threw == want_throw and (threw or (o.fields["left"], o.fields["right"]) == b)
                chk.ob("C17-N2", "profile_boundary_status[%s]{%s}: %s" % (kind, "/".join(SNAME[x] for x in b),
                       "rejected" if threw else "accepted"), ok, where=ctor.ploc, function=ctor.bn,
                       construct="symmetry(profile,%s)" % kind, sample=(n_sc % 11 == 1))

    # ------------------------------------------------------------------ N4
    for uname in units:
        for fn in db.fns(unit=uname, pred=lambda f: f.cls == "fastscapelib::flow_graph" and f.is_ctor
                         and len(f.params) == 2 and "flow_operator_sequence" in f.type(f.params[1]["t"])):
            found = []
            for c in calls(fn.body):
                if c.get("bn", "").endswith("flow_graph_impl::set_base_levels"):
                    a = c.get("a", [])
                    inner = [x for x in walk(a[0])] if a else []
                    ni = [x for x in inner if x.get("k") == "call" and x.get("bn", "").endswith("::nodes_indices")]
                    ok = bool(ni) and len(ni[0].get("a", [])) == 1 and \
                        ni[0]["a"][0].get("cen") == "fixed_value"
                    found.append((c, ok))
            if not found:
                raise AnalysisBroken("C17-N4: flow_graph constructor does not seed base levels (%s)" % uname)
            for c, ok in found:
                chk.ob("C17-N4", "[%s] flow_graph(): %s" % (uname, pp(c)[:90]), ok, where=fn.loc(c),
                       function=fn.bn, construct="default-base-levels", extra={"unit": uname})
        # the filter of nodes_indices(status): equality on the status of the node
        for fn in db.fns(unit=uname, pred=lambda f: f.is_lambda and f.bn.startswith("fastscapelib::grid::nodes_indices")):
            res = []
            for want in S:
                for have in S:
                    class FW(World):
                        def before_call(self, it, f2, call, callee, frame):
                            if callee.bn.endswith("::nodes_status"):
                                return Sym("statusarray", "a")
                            return NOT_HANDLED

                        def external(self, it, f2, call, frame):
                            if call.get("obj") is not None and call.get("bn", "").split("::")[-1] in ("flat", "operator()", "operator[]"):
                                return have
                            return NOT_HANDLED
                    it = Interp(FW())
                    capd = None
                    caps = {}
                    # the enclosing function captured `status` by copy
                    encl = fn.unit.fns.get(fn.d.get("encl"))
                    for p in (encl.params if encl else []):
                        caps[p["d"]] = __import__("fsverif.interp", fromlist=["Cell"]).Cell(want, p["n"])
                    clo = Closure(fn, caps, None)
                    r = it.rv(it.call_closure(clo, [Sym("grid", "g"), 3]))
                    res.append((want, have, bool(r)))
            ok = all(r == (w == h) for (w, h, r) in res)
            chk.ob("C17-N4", "[%s] status filter keeps a node iff its status equals the requested one "
                   "(16 combinations)" % uname, ok, where=fn.ploc, function=fn.bn,
                   construct="status-filter", extra={"unit": uname})

    # ------------------------------------------------------------------ N5
    u0 = units[0]
    for fn in db.fns(unit=u0, pred=lambda f: f.cls == C08.ITER_CLS):
        if fn.name == "operator--":
            continue
        if not any(c.get("bn") == "std::function::operator()" for c in calls(fn.body)):
            continue
        w = C08.FilterGuard(fn)
        w.run()
        for node, ix, ok, facts in w.sites:
            chk.ob("C17-N5", "%s: filter called with %s only after the bounds test"
                   % (fn.name if not fn.is_ctor else "<ctor>", ix), ok, where=fn.loc(node),
                   function=fn.bn, construct="filter-call(%s)" % ix)
    # bounded exhaustive interpretation through the container's own begin/end/rbegin/rend
    it_fns = {("<ctor>" if f.is_ctor else f.name): f for f in db.fns(unit=u0, pred=lambda f: f.cls == C08.ITER_CLS)}
    cont = {f.name: f for f in db.fns(unit=u0, pred=lambda f: f.cls == "fastscapelib::grid_nodes_indices"
                                      and not f.is_ctor)}
    for need in ("operator++", "operator--", "operator*"):
        if need not in it_fns:
            raise AnalysisBroken("C17-N5: iterator %s not instantiated" % need)
    for need in ("begin", "end", "rbegin", "rend"):
        if need not in cont:
            raise AnalysisBroken("C17-N5: grid_nodes_indices::%s not instantiated" % need)
    import copy as _copy
    bad = []
    n_it = 0
    for n in range(0, 6):
        for pattern in itertools.product([False, True], repeat=n):
            n_it += 1

            class GW2(World):
                def before_call(self, it, f2, call, callee, frame):
                    if callee.bn.endswith("::size"):
                        return n
                    return NOT_HANDLED

                def external(self, it, f2, call, frame):
                    if call.get("bn") == "std::function::operator()":
                        i = it.rv(it.eval(call["a"][1], frame))
                        if not isinstance(i, int) or i < 0 or i >= n:
                            raise ThrowEx(call, "filter called out of bounds with %r (size %d)" % (i, n), f2.loc(call))
                        return pattern[i]
                    if call.get("k") == "construct" and call.get("cls") == "std::reverse_iterator":
                        base = it.rv(it.eval(call["a"][0], frame))
                        return Obj("std::reverse_iterator", {"base": _copy.deepcopy(base)})
                    return NOT_HANDLED
            itp = Interp(GW2())
            want = [i for i in range(n) if pattern[i]]
            container = Obj("fastscapelib::grid_nodes_indices", {"m_grid": Sym("grid", "g"),
                                                                "m_filter_func": Sym("filter", "f")})
            try:
                cur = itp.rv(itp.call_fn(cont["begin"], container, []))
                end = itp.rv(itp.call_fn(cont["end"], container, []))
                got, steps = [], 0
                while cur.fields["m_idx"] != end.fields["m_idx"] and steps <= n + 2:
                    got.append(itp.rv(itp.call_fn(it_fns["operator*"], cur, [])))
                    itp.call_fn(it_fns["operator++"], cur, [])
                    steps += 1
                rcur = itp.rv(itp.call_fn(cont["rbegin"], container, []))
                rend = itp.rv(itp.call_fn(cont["rend"], container, []))
                rgot, steps = [], 0
                while rcur.fields["base"].fields["m_idx"] != rend.fields["base"].fields["m_idx"] and steps <= n + 2:
                    tmp = _copy.deepcopy(rcur.fields["base"])       # *rit  ==  *--copy(base)
                    itp.call_fn(it_fns["operator--"], tmp, [])
                    rgot.append(itp.rv(itp.call_fn(it_fns["operator*"], tmp, [])))
                    itp.call_fn(it_fns["operator--"], rcur.fields["base"], [])   # ++rit == --base
                    steps += 1
                if got != want or rgot != list(reversed(want)):
                    bad.append((n, pattern, got, rgot))
            except ThrowEx as ex:
                bad.append((n, pattern, ex.text, None))
    n_sc += n_it
    chk.ob("C17-N5", "bounded interpretation of nodes_indices() iteration through begin/end/rbegin/rend: "
           "%d (size, filter pattern) cases with size <= 5, forward and reverse" % n_it, not bad,
           where=it_fns["operator++"].ploc, function=it_fns["operator++"].bn,
           construct="bounded-iteration", detail="" if not bad else
           "first failing case: size %r filter %r: forward %r, reverse %r" % bad[0])
    chk.count_scenarios(n_sc, True)
