"""C01 — sink-resolved flow paths reach a base level (partial claim).

Decided: the CONTRACT between resolvers and routers, the place where the property depends on code
shape rather than on graph values.
C01-E1 (A5) both resolvers guarantee only a strict drop of one floating-point increment, so every
        router must treat any unmasked strictly-lower neighbour as eligible: on every abstract
        scenario with such a neighbour the node is NOT its own receiver (single router: both
        bodies; multi router).  Base-level and masked nodes never drain.
C01-E2 (A5) MST resolver tilt: after fill_sinks_sloped every non-outlet node is strictly above its
        receiver, outlets are untouched, for every order class of (node, receiver) elevations.
C01-E3 (A5) priority-flood: on star / chain neighbourhoods around a base level, every unmasked
        node reached ends strictly above the node it was reached from (>= its successor), base
        levels and masked nodes are never written.
C01-E4 (A2/A3) after re-routing, the MST resolver rebuilds donors and both traversal orders before
        tilting along them (shared with C06-F1).
Not decided: termination, acyclicity and reachability of a base level on arbitrary graphs
(priority-flood and MST correctness are graph-level facts about runtime values).
"""
import math

from ..interp import Obj, Sym
from ..sir import AnalysisBroken
from .. import model
from .routers import scenarios, run_router, CENTRE
from . import sinks, C06, mstpipe
from ..effects import Effects

UNITS = ["raster_queen", "profile", "trimesh"]
SINGLE = "fastscapelib::single_flow_router"
MULTI = "fastscapelib::multi_flow_router"
MST = "fastscapelib::mst_sink_resolver"
INF = float("inf")


def run(db, chk):
    kmax = 3 if chk.tier == "thorough" else 2
    chk.explanation = (
        "Abstract interpretation (order domain with exact successor semantics) of the routers' "
        "eligibility logic, of the MST resolver's tilt and of the priority-flood fill on abstract "
        "neighbourhoods, exhaustive over the order classes of the elevations involved; plus the "
        "must-precede rule on the MST resolver's recomputation of donors / orders.")
    chk.not_decided = ["termination, acyclicity and reachability of a base level on arbitrary "
                       "graphs (priority-flood / spanning-tree correctness over runtime values)"]
    chk.rule("C01-E1", "a node with an unmasked strictly-lower neighbour is never its own receiver; "
             "base-level and masked nodes always are", min_instances=100)
    chk.rule("C01-E2", "MST tilt: every non-outlet node ends strictly above its receiver, no "
             "elevation is lowered, outlets are untouched", min_instances=20)
    chk.rule("C01-E3", "priority-flood: every reached unmasked node ends >= the successor of the "
             "node it was reached from; base levels and masked nodes are never written; no "
             "elevation is lowered", min_instances=50)
    chk.rule("C01-E5", "MST re-routing (basic and carve): every node between the pit and the pass "
             "inflow ends up draining through the pass outflow, for every aliasing of pit / pass "
             "inflow and every order of the pass elevations", min_instances=18)
    chk.rule("C01-E7", "MST resolver: whenever an outlet is not a base level (a pit exists) the basin graph is "
             "updated and the sinks re-routed -- the early exit is taken only without pits; for every "
             "combination of base / non-base outlets and base levels that are not outlets (masked)",
             min_instances=20)
    chk.rule("C01-E8", "bounded, end to end: mst_sink_resolver's apply() (basins, basin graph, Kruskal / Boruvka, "
             "orientation, basic / carve re-routing, recomputed orders, tilt) interpreted on every elevation "
             "assignment (3 levels) of small node graphs with several base-level sets: every node reaches a base "
             "level by following receivers, the returned elevation strictly decreasing at every step, no cycle, "
             "base levels keep themselves", min_instances=300)
    chk.rule("C01-E4", "MST resolver: donors, bottom-up and breadth-first orders are rebuilt after "
             "re-routing and before the tilt reads them", min_instances=1)
    n_sc = 0
    scs = scenarios(kmax)
    for uname in UNITS:
        if uname not in db.units:
            continue
        impls = model.operator_impls(db, uname)
        # ---------------------------------------------------------------- E1
        for op, mode, opobj in ((SINGLE, "seq", Obj(SINGLE, {"m_threads_count": 0})),
                                (SINGLE, "par", Obj(SINGLE, {"m_threads_count": 4})),
                                (MULTI, "multi", Obj(MULTI, {"m_slope_exp": Sym("exp", "p")}))):
            ap = impls.get(op, {}).get("apply")
            if ap is None:
                raise AnalysisBroken("%s apply() not instantiated in %s" % (op, uname))
            nbad = 0
            for sc in (scs if chk.want("C01-E1") else ()):
                for w in run_router(ap, sc, opobj):
                    n_sc += 1
                    rec0 = w.tables["m_receivers"].get((CENTRE, 0))
                    cnt = w.tables["m_receivers_count"].get((CENTRE,))
                    L = sc.lower_unmasked()
                    drains = not (cnt == 1 and rec0 == CENTRE)
                    if sc.centre_masked or sc.centre_base:
                        ok = not drains
                        det = "a masked / base-level node drains to node %r" % (rec0,)
                    elif L:
                        ok = drains
                        det = "strictly lower unmasked neighbour ignored: the node stays a pit " \
                              "although the resolvers guarantee only a one-increment drop"
                    else:
                        ok = not drains
                        det = "node drains although no unmasked neighbour is strictly lower " \
                              "(flat or uphill step: cycles become possible)"
                    if not ok:
                        nbad += 1
                    if ok or nbad <= 5:
                        chk.ob("C01-E1", "[%s, %s] %s" % (uname, mode, sc.label()), ok, where=ap.ploc,
                               function=ap.bn + "/apply_" + mode if mode != "multi" else ap.bn,
                               construct="eligibility(%s)" % mode, detail="" if ok else det,
                               sample=(n_sc % 251 == 1), extra={"unit": uname})
        # ---------------------------------------------------------------- E2
        tilt = [f for f in impls.get(MST, {}).get("fns", []) if f.name == "fill_sinks_sloped"]
        if not tilt:
            raise AnalysisBroken("mst fill_sinks_sloped not instantiated in %s" % uname)
        tilt = tilt[0]
        for E in (1.0, 0.0, -2.5):
            for ca in sinks.CLASSES:
                for cb in sinks.CLASSES:
                    # chain r(0) <- a(1) <- b(2); b's class is relative to a's ORIGINAL elevation
                    ea = sinks.rep(ca, E)
                    eb = sinks.rep(cb, ea)
                    orig = [E, ea, eb]
                    rec = sinks.Table("m_receivers")
                    for i, r in ((0, 0), (1, 0), (2, 1)):
                        rec[(i, 0)] = r
                    w = sinks.SinkWorld(orig, {}, [False] * 3, [0], dfs=[0, 1, 2], receivers=rec)
                    exc = sinks.run_fn(tilt, w, Obj(tilt.cls, {}), [w.graph, w.elev])
                    n_sc += 1
                    fin = list(w.elev)
                    bad = []
                    if exc:
                        bad.append("threw %s" % exc)
                    if fin[0] != E:
                        bad.append("outlet elevation changed")
                    if not fin[1] > fin[0]:
                        bad.append("node not above its receiver: %r vs %r" % (fin[1], fin[0]))
                    if not fin[2] > fin[1]:
                        bad.append("node not above its (tilted) receiver: %r vs %r" % (fin[2], fin[1]))
                    if any(new < old for (_, old, new) in w.elev.writes):
                        bad.append("an elevation was lowered")
                    chk.ob("C01-E2", "[%s] outlet E=%g, node %s, upstream node %s" % (uname, E, ca, cb),
                           not bad, where=tilt.ploc, function=tilt.bn, construct="tilt",
                           detail="; ".join(bad), sample=(n_sc % 17 == 1), extra={"unit": uname})
        # ---------------------------------------------------------------- E3
        pf = [f for f in db.fns("fastscapelib::detail::fill_sinks_sloped", unit=uname)]
        if not pf:
            raise AnalysisBroken("detail::fill_sinks_sloped not instantiated in %s" % uname)
        pf = pf[0]
        nbad = 0
        for sc in sinks.pflood_scenarios(2 if chk.tier == "thorough" else 1 if uname != UNITS[0] else 2):
            w, orig, adj = sinks.build_pflood_world(sc)
            exc = sinks.run_fn(pf, w, None, [w.graph, w.elev])
            n_sc += 1
            fin = list(w.elev)
            bad = [b for b in check_pflood(w, orig, fin, adj, exc) if "spill level" not in b]
            if bad:
                nbad += 1
            if not bad or nbad <= 5:
                chk.ob("C01-E3", "[%s] base E=%g, neighbours %s, chain %s" % (
                    uname, sc[0], ["%s%s" % ("masked " if m else "", c) for m, c in sc[1]],
                    None if sc[2] is None else "%s%s" % ("masked " if sc[2][0] else "", sc[2][1])),
                    not bad, where=pf.ploc, function=pf.bn, construct="pflood-step",
                    detail="; ".join(bad[:3]), sample=(n_sc % 97 == 1), extra={"unit": uname})
        # ---------------------------------------------------------------- E5
        n_sc += reroute_rule(db, chk, uname, impls)
        n_sc += pits_trigger_rule(db, chk, uname, impls)
        if (uname == UNITS[0] or chk.tier == "thorough") and chk.want("C01-E8"):
            n_sc += mstpipe.run_rule(db, chk, uname, "C01-E8", None, deep=(uname == UNITS[0]))
        # ---------------------------------------------------------------- E4
        C06.order_rule(db, Effects(db), chk, uname, "C01-E4", only_op=MST)
    chk.absorb(db, "C09", {"C09-P2"}, "C01-E6", "the basin graph / resolver scratch state is reset at every "
               "update (shared with C09-P2): stale edges of a previous call leave pits unresolved",
               pred=lambda o: "basin_graph" in o["instance"] or "mst_sink_resolver" in o["instance"]
               or "set_base_levels" in o["instance"] or "set_mask" in o["instance"],
               min_instances=20)
    chk.count_scenarios(n_sc, True)


class _Resolved(Exception):
    pass


def pits_trigger_rule(db, chk, uname, impls):
    """C01-E7: interpret mst_sink_resolver's apply() up to the point where it decides whether there
    is anything to resolve; compute_basins is summarised by the scenario (its own behaviour is
    C19), pits() / is_base_level are the repository's code over the scenario's tables"""
    import itertools
    from ..interp import Interp, World, PyVec, NOT_HANDLED, ThrowEx
    fns = {f.name: f for f in impls.get(MST, {}).get("fns", [])}
    fn = fns.get("apply")
    if fn is None:
        raise AnalysisBroken("C01-E7: mst_sink_resolver apply not instantiated in %s" % uname)
    n = 0
    # outlets: up to 3, each a base level or not; plus 0..2 base levels that are no outlets
    for k in range(0, 4):
        for kinds in itertools.product((True, False), repeat=k):
            for extra in range(0, 3):
                n += 1
                outlets = list(range(k))
                base = set(i for i, b in enumerate(kinds) if b) | set(range(10, 10 + extra))
                state = {"resolved": False}

                class PW(World):
                    def before_call(self, it, f2, call, callee, frame):
                        nm = callee.bn.split("::")[-1]
                        if nm == "compute_basins":
                            return None
                        if nm == "size" and ("grid" in (callee.cls or "") or (callee.cls or "").endswith("flow_graph_impl")):
                            return 12
                        if nm == "is_base_level":
                            return it.rv(it.eval(call["a"][0], frame)) in base
                        if nm == "get_basin_graph":
                            return Sym("basin_graph", "bg")
                        if callee.bn.endswith("basin_graph::update_routes") or nm.startswith("update_routes_sinks"):
                            state["resolved"] = True
                            raise _Resolved()
                        return NOT_HANDLED

                    def external(self, it, f2, call, frame):
                        nm = (call.get("bn") or "").split("::")[-1]
                        obj = call.get("obj")
                        if obj is not None:
                            o = it.rv(it.eval(obj, frame))
                            if isinstance(o, frozenset):
                                if nm == "size":
                                    return len(o)
                                if nm == "empty":
                                    return len(o) == 0
                                if nm == "count":
                                    return 1 if it.rv(it.eval(call["a"][0], frame)) in o else 0
                        return NOT_HANDLED
                g = None
                for r in fn.unit.records:
                    if r["bn"] == model.GRAPH_IMPL:
                        g = r
                        break
                gobj = Obj(model.GRAPH_IMPL, {"m_outlets": PyVec(outlets), "m_pits": PyVec([99]),
                                              "m_base_levels": frozenset(base), "m_mask_initialized": False,
                                              "m_basins": PyVec(), "m_grid": Sym("grid", "grid")})
                it = Interp(PW(), max_steps=20000)
                this = Obj(fn.cls, {"m_basin_graph_ptr": None, "m_op_ptr": Obj(MST, {"m_route_method": 0, "m_basin_method": 0})})
                bad = []
                try:
                    it.call_fn(fn, this, [gobj, sinks.Elev([0.0] * 12), Sym("pool", "p")])
                except _Resolved:
                    pass
                except ThrowEx as ex:
                    bad.append("threw %s" % ex.text[:60])
                has_pit = any(not b for b in kinds)
                if has_pit and not state["resolved"] and not bad:
                    bad.append("returns without resolving although outlet(s) %r are not base levels"
                               % [i for i, b in enumerate(kinds) if not b])
                chk.ob("C01-E7", "[%s] outlets %s, %d base level(s) that are no outlets" % (
                    uname, "[" + ", ".join("base" if b else "pit" for b in kinds) + "]", extra), not bad,
                    where=fn.ploc, function=fn.bn, construct="mst-trigger", detail="; ".join(bad),
                    extra={"unit": uname}, sample=k > 1)
    return n


def reroute_rule(db, chk, uname, impls):
    """C01-E5: after re-routing an inner basin through its pass, every node of the old path pit ..
    pass-inflow reaches the pass-outflow node (hence the outer basin), for every aliasing of
    (pit, pass inflow) and every order of the two pass elevations"""
    from ..interp import Interp, World, PyVec, NOT_HANDLED, ElemRef, ThrowEx
    from .routers import Table
    fns = {f.name: f for f in impls.get(MST, {}).get("fns", [])}
    n = 0
    BASE, B = 0, 1          # outer basin: base level 0, pass-outflow node 1 (drains to 0)
    for method in ("update_routes_sinks_basic", "update_routes_sinks_carve"):
        fn = fns.get(method)
        if fn is None:
            raise AnalysisBroken("C01-E5: %s not instantiated in %s" % (method, uname))
        for chain_len in (0, 1, 2):          # number of nodes between pass inflow and the pit
            for rel in ("<", "==", ">"):      # elevation(pass inflow) rel elevation(pass outflow)
                n += 1
                nodes = list(range(2, 3 + chain_len))     # pass inflow a = nodes[0] ... pit p = nodes[-1]
                a, p = nodes[0], nodes[-1]
                R, D = Table("m_receivers"), Table("m_receivers_distance")
                R[(BASE, 0)] = BASE
                R[(B, 0)] = BASE
                D[(BASE, 0)] = 0.0
                D[(B, 0)] = 1.0
                for i, nd in enumerate(nodes):
                    R[(nd, 0)] = nodes[i + 1] if i + 1 < len(nodes) else nd
                    D[(nd, 0)] = 1.0 + i if i + 1 < len(nodes) else 0.0
                ea = {"<": 1.0, "==": 2.0, ">": 3.0}[rel]
                elev = sinks.Elev([0.0, 2.0] + [ea] + [ea - 0.5 * (k + 1) for k in range(chain_len)])
                edge = Obj("fastscapelib::basin_graph::edge", {"link": PyVec([0, 1]), "pass": PyVec([B, a]),
                                                              "pass_elevation": max(ea, 2.0), "pass_length": 1.5})

                class RW(World):
                    def before_call(self, it, f2, call, callee, frame):
                        nm = callee.bn.split("::")[-1]
                        if nm == "get_basin_graph":
                            return Sym("basin_graph", "bg")
                        if callee.bn.endswith("basin_graph::outlets"):
                            return PyVec([BASE, p])
                        if callee.bn.endswith("basin_graph::tree"):
                            return PyVec([0])
                        if callee.bn.endswith("basin_graph::edges"):
                            return PyVec([edge])
                        return NOT_HANDLED

                    def member(self, it, f2, node, base, frame):
                        if isinstance(base, Sym) and base.kind == "graph_impl":
                            return {"m_receivers": R, "m_receivers_distance": D}.get(node["n"], NOT_HANDLED)
                        return NOT_HANDLED

                    def external(self, it, f2, call, frame):
                        nm = call.get("bn", "").split("::")[-1]
                        obj = call.get("obj")
                        if obj is not None:
                            o = it.rv(it.eval(obj, frame))
                            if isinstance(o, Table) and nm in ("operator()", "flat", "operator[]"):
                                return ElemRef(o, tuple(it.rv(it.eval(x, frame)) for x in call.get("a", [])))
                            if isinstance(o, sinks.Elev) and nm in ("flat", "operator()", "operator[]"):
                                return ElemRef(o, it.rv(it.eval(call["a"][0], frame)))
                        return NOT_HANDLED
                it = Interp(RW(), max_steps=20000)
                this = Obj(fn.cls, {"m_basin_graph_ptr": Sym("basin_graph", "bg"), "m_op_ptr": Obj(MST, {})})
                bad = []
                try:
                    args = [Sym("graph_impl", "g")] + ([elev] if len(fn.params) == 2 else [])
                    it.call_fn(fn, this, args)
                except ThrowEx as ex:
                    bad.append("threw %s" % ex.text[:60])
                except Exception as ex:
                    if "StepLimit" in type(ex).__name__:
                        bad.append("re-routing does not terminate")
                    else:
                        raise
                if not bad:
                    for start in nodes:
                        cur, steps = start, 0
                        while cur != B and steps < 8:
                            nxt = R.get((cur, 0))
                            if nxt == cur:
                                break
                            cur, steps = nxt, steps + 1
                        if cur != B:
                            bad.append("node %d of the depression does not reach the pass outflow "
                                       "(path stops at node %r)" % (start, cur))
                            break
                    if R.get((B, 0)) != BASE:
                        bad.append("receiver of the pass outflow node changed")
                chk.ob("C01-E5", "[%s] %s: pit %s pass inflow, %d node(s) in between, elevation(pass in) %s "
                       "elevation(pass out)" % (uname, method.split("_")[-1], "is the" if p == a else "below the",
                                                max(chain_len - 1, 0), rel), not bad, where=fn.ploc,
                       function=fn.bn, construct="reroute(%s)" % method.split("_")[-1],
                       detail="; ".join(bad), extra={"unit": uname})
    return n


def check_pflood(w, orig, fin, adj, exc):
    bad = []
    if exc:
        return ["threw %s" % exc]
    n = len(orig)
    for (i, old, new) in w.elev.writes:
        if new < old:
            bad.append("elevation of node %d lowered (%r -> %r)" % (i, old, new))
        if w.masked[i]:
            bad.append("masked node %d written" % i)
        if i in w.base:
            bad.append("base-level node %d written" % i)
    # reachability through unmasked nodes from the base level, parent = BFS predecessor on the star/chain
    parent = {0: None}
    order = [0]
    for u in order:
        for v in adj.get(u, []):
            if v not in parent and not w.masked[v]:
                parent[v] = u
                order.append(v)
    for v in range(n):
        if w.masked[v] or v not in parent:
            if fin[v] != orig[v]:
                bad.append("unreached / masked node %d changed" % v)
            continue
        p = parent[v]
        if p is None:
            continue
        if not fin[v] >= math.nextafter(fin[p], INF):
            bad.append("node %d (%.17g) is not above its flood parent %d (%.17g) by an increment"
                       % (v, fin[v], p, fin[p]))
        if fin[v] != max(orig[v], math.nextafter(fin[p], INF)):
            bad.append("node %d raised to %.17g, spill level + one increment is %.17g"
                       % (v, fin[v], max(orig[v], math.nextafter(fin[p], INF))))
    return bad
