"""C15 — basin graph tree is a minimum spanning tree over the lowest passes (bounded claim).

The basin-graph algorithms look at (i) the shape of the graph of basins and (ii) pass elevations,
which they only COMPARE.  Both spaces are finite for a bounded number of basins, so the library's
own code is interpreted exhaustively on them (A5, order representatives):
C15-K1 compute_tree_kruskal / compute_tree_boruvka on every connected simple graph of up to 4
        basins with every assignment of weights from a small ordered set (ties included): the
        tree has basins-1 edges, spans all basins, and its weight equals the minimum spanning tree
        weight; both methods agree on the weight.  Run twice on the same object (scratch reuse).
C15-K2 orient_edges after either method: every tree edge points from the basin nearer the root to
        the farther one, link and pass swapped together.
C15-K3 connect_basins on small single-direction flow graphs (paths and small rasters with every
        elevation assignment from a small ordered set): one edge per adjacent (inner, neighbour)
        basin pair, whose pass is a pair of neighbouring nodes with the lowest max elevation;
        outer basins are linked to a common root.
Not decided: more than 4 basins (no inductive argument); Boruvka's large-degree clean-up path
(needs a basin of degree > 16, outside the bound).
"""
import itertools

from ..interp import out_param, Interp, World, Obj, PyVec, ThrowEx, NOT_HANDLED, ElemRef, Sym, OutOfRange
from ..sir import AnalysisBroken
from .routers import Table

UNITS = ["raster_queen", "profile", "trimesh"]
BG = "fastscapelib::basin_graph"
LOWEST = -1.7976931348623157e308


def connected_graphs(n):
    nodes = list(range(n))
    pairs = list(itertools.combinations(nodes, 2))
    for k in range(n - 1, len(pairs) + 1):
        for es in itertools.combinations(pairs, k):
            adj = {i: set() for i in nodes}
            for a, b in es:
                adj[a].add(b)
                adj[b].add(a)
            seen, st = {0}, [0]
            while st:
                u = st.pop()
                for v in adj[u]:
                    if v not in seen:
                        seen.add(v)
                        st.append(v)
            if len(seen) == n:
                yield es


def mst_weight(n, edges):
    par = list(range(n))

    def find(x):
        while par[x] != x:
            x = par[x]
        return x
    w = 0.0
    for (a, b, wt) in sorted(edges, key=lambda e: e[2]):
        ra, rb = find(a), find(b)
        if ra != rb:
            par[ra] = rb
            w += wt
    return w


class BGWorld(World):
    def __init__(self, nb):
        self.nb = nb

    def before_call(self, it, fn, call, callee, frame):
        nm = callee.bn.split("::")[-1]
        if nm == "basins_count":
            return self.nb
        return NOT_HANDLED


def new_bg(it, fn, rec, edges, root):
    o = it.new_obj(fn, rec)
    ev = PyVec()
    for (a, b, w) in edges:
        ev.append(Obj(BG + "::edge", {"link": PyVec([a, b]), "pass": PyVec([100 * a + 1, 100 * b + 1]),
                                      "pass_elevation": float(w), "pass_length": 1.0}))
    o.fields["m_edges"] = ev
    o.fields["m_root"] = root
    o.fields["m_flow_graph_impl"] = Sym("graph_impl", "g")
    return o


def check_tree(nb, edges, o, method):
    bad = []
    tree = list(o.fields["m_tree"])
    ev = o.fields["m_edges"]
    if len(tree) != nb - 1:
        bad.append("%s: tree has %d edges for %d basins" % (method, len(tree), nb))
        return bad, None
    if len(set(tree)) != len(tree) or any(not isinstance(t, int) or t < 0 or t >= len(ev) for t in tree):
        bad.append("%s: invalid / repeated edge indices %r" % (method, tree))
        return bad, None
    par = list(range(nb))

    def find(x):
        while par[x] != x:
            x = par[x]
        return x
    w = 0.0
    for t in tree:
        a, b = ev[t].fields["link"]
        ra, rb = find(a), find(b)
        if ra == rb:
            bad.append("%s: tree contains a cycle" % method)
            return bad, None
        par[ra] = rb
        w += ev[t].fields["pass_elevation"]
    want = mst_weight(nb, edges)
    if w != want:
        bad.append("%s: tree weight %g, minimum spanning tree weight %g" % (method, w, want))
    return bad, w


def check_orientation(nb, o, root):
    bad = []
    ev = o.fields["m_edges"]
    tree = list(o.fields["m_tree"])
    adj = {i: [] for i in range(nb)}
    for t in tree:
        a, b = ev[t].fields["link"]
        adj[a].append(b)
        adj[b].append(a)
    depth = {root: 0}
    st = [root]
    while st:
        u = st.pop()
        for v in adj[u]:
            if v not in depth:
                depth[v] = depth[u] + 1
                st.append(v)
    for t in tree:
        a, b = ev[t].fields["link"]
        pa, pb = ev[t].fields["pass"]
        if not depth.get(a, 99) < depth.get(b, 99):
            bad.append("edge %d-%d points away from the root (depths %s, %s)" % (a, b, depth.get(a), depth.get(b)))
        if pa // 100 != a or pb // 100 != b:
            bad.append("pass nodes of edge %d-%d were not swapped with its basins" % (a, b))
    return bad


def run(db, chk):
    nmax = 4
    wset = (1.0, 2.0, 3.0) if chk.tier == "thorough" else (1.0, 2.0)
    chk.explanation = (
        "Bounded exhaustive abstract interpretation of the basin-graph algorithms (Kruskal with "
        "union-find, Boruvka, edge orientation, basin connection) on every connected graph of up to "
        "%d basins with every weight assignment from %d ordered values (ties included), run twice on "
        "the same object; the algorithms only compare pass elevations, so order representatives "
        "cover every elevation field over these shapes." % (nmax, len(wset)))
    chk.not_decided = ["basin graphs with more than %d basins" % nmax,
                       "Boruvka's large-degree clean-up path (degree > 16)",
                       "the geometric meaning of pass_length"]
    chk.rule("C15-K1", "Kruskal and Boruvka return a spanning tree with basins-1 edges whose weight is the "
             "minimum spanning tree weight, also when the same object is reused", min_instances=50)
    chk.rule("C15-K4", "Boruvka with the degree threshold lowered to 2 (all graphs but K4) and 3 (all graphs), "
             "which exercises the duplicate-edge clean-up of large-degree nodes: spanning tree of minimum weight, "
             "run twice on the same object", min_instances=500)
    chk.rule("C15-K2", "after orientation every tree edge points from the basin nearer the root to the "
             "farther one, pass nodes swapped with the basins", min_instances=50)
    chk.rule("C15-K3", "connect_basins creates one edge per adjacent (inner basin, neighbour basin) pair "
             "through a pair of neighbouring nodes of lowest max elevation; outer basins hang off a "
             "common root", min_instances=20)
    n_sc = 0
    units = UNITS if chk.tier == "thorough" else UNITS[:1]
    for uname in units:
        if uname not in db.units:
            continue
        unit = db.units[uname]
        fns = {f.name: f for f in unit.fns.values() if f.cls == BG and not f.is_ctor}
        for need in ("compute_tree_kruskal", "compute_tree_boruvka", "orient_edges", "connect_basins"):
            if need not in fns:
                raise AnalysisBroken("C15: basin_graph::%s not instantiated in %s" % (need, uname))
        rec = [r for r in unit.records if r["bn"] == BG]
        if not rec:
            raise AnalysisBroken("C15: basin_graph record missing in %s" % uname)
        rec = rec[0]
        nbad = {"K1": 0, "K2": 0}
        for nb in (range(2, nmax + 1) if chk.want("C15-K1", "C15-K2") else ()):
            for es in connected_graphs(nb):
                for ws in itertools.product(wset, repeat=len(es)):
                    edges = [(a, b, w) for (a, b), w in zip(es, ws)]
                    n_sc += 1
                    weights = {}
                    for method in ("compute_tree_kruskal", "compute_tree_boruvka"):
                        it = Interp(BGWorld(nb), max_steps=400000)
                        o = new_bg(it, fns[method], rec, edges, 0)
                        bad1, bad2 = [], []
                        try:
                            # first a run on ANOTHER graph of the same size (scratch reuse), then the real one
                            it.call_fn(fns[method], o, [])
                            it.call_fn(fns["orient_edges"], o, [])
                            o.fields["m_edges"] = new_bg(it, fns[method], rec, edges, 0).fields["m_edges"]
                            it.call_fn(fns[method], o, [])
                            bad1, w = check_tree(nb, edges, o, method.split("_")[-1])
                            weights[method] = w
                            if not bad1:
                                it.call_fn(fns["orient_edges"], o, [])
                                bad2 = check_orientation(nb, o, 0)
                        except ThrowEx as ex:
                            bad1.append("%s threw %s" % (method, ex.text[:60]))
                        except OutOfRange as ex:
                            bad1.append("%s: out-of-bounds access: %s" % (method, str(ex)[8:120]))
                        label = "[%s] %s on basins graph %s weights %s" % (uname, method.split("_")[-1], list(es), list(ws))
                        for rid, b, key in (("C15-K1", bad1, "K1"), ("C15-K2", bad2, "K2")):
                            if b:
                                nbad[key] += 1
                            if not b or nbad[key] <= 5:
                                chk.ob(rid, label, not b, where=fns[method].ploc, function=fns[method].bn,
                                       construct=method.split("_")[-1], detail="; ".join(b[:2]),
                                       sample=(n_sc % 199 == 1), extra={"unit": uname})
                    if None not in weights.values() and len(set(weights.values())) > 1:
                        chk.ob("C15-K1", "[%s] Kruskal and Boruvka weights agree on %s %s" % (uname, list(es), list(ws)),
                               False, where=fns["compute_tree_boruvka"].ploc, function=BG, construct="agreement",
                               detail=str(weights), extra={"unit": uname})
        # ---- K4: the large-degree clean-up of Boruvka, reached by lowering the degree threshold ----
        # (the shipped threshold 16 cannot be exceeded with <= 4 basins; the threshold is a tuning
        #  member of the class and the algorithm needs only that some node of degree <= threshold
        #  exists in every contraction: degeneracy <= 3 for all graphs of <= 4 nodes, <= 2 unless K4)
        if not any(f["n"] == "m_max_low_degree" for f in rec["fields"]):
            raise AnalysisBroken("C15-K4: basin_graph::m_max_low_degree not found (the large-degree path cannot "
                                 "be reached within the bound any more)")
        nbad4 = 0
        for thr in (((2, 3) if chk.tier == "thorough" else (2,)) if chk.want("C15-K4") else ()):
            for nb in range(2, nmax + 1):
                for es in connected_graphs(nb):
                    if thr == 2 and nb == 4 and len(es) == 6:
                        continue        # K4: no node of degree <= 2, the threshold would be inadmissible
                    for ws in itertools.product(wset, repeat=len(es)):
                        edges = [(a, b, w) for (a, b), w in zip(es, ws)]
                        n_sc += 1
                        it = Interp(BGWorld(nb), max_steps=400000)
                        o = new_bg(it, fns["compute_tree_boruvka"], rec, edges, 0)
                        o.fields["m_max_low_degree"] = thr
                        bad = []
                        try:
                            it.call_fn(fns["compute_tree_boruvka"], o, [])
                            o.fields["m_edges"] = new_bg(it, fns["compute_tree_boruvka"], rec, edges, 0).fields["m_edges"]
                            it.call_fn(fns["compute_tree_boruvka"], o, [])
                            bad, w = check_tree(nb, edges, o, "boruvka")
                        except ThrowEx as ex:
                            bad.append("threw %s" % ex.text[:60])
                        except OutOfRange as ex:
                            bad.append("out-of-bounds access: %s" % str(ex)[8:120])
                        if bad:
                            nbad4 += 1
                        if not bad or nbad4 <= 5:
                            chk.ob("C15-K4", "[%s] boruvka, degree threshold %d, basins graph %s weights %s"
                                   % (uname, thr, list(es), list(ws)), not bad, where=fns["compute_tree_boruvka"].ploc,
                                   function=fns["compute_tree_boruvka"].bn, construct="boruvka-large-degree",
                                   detail="; ".join(bad[:2]), sample=(n_sc % 199 == 1), extra={"unit": uname})
        if chk.want("C15-K3"):
            n_sc += connect_rule(db, chk, uname, fns, rec)
    chk.absorb(db, "C09", {"C09-P2"}, "C15-K5", "every member of the basin graph that persists between updates is "
               "reset before it is read (shared with C09-P2): root, edges, tree and scratch of a previous update "
               "cannot leak into the next one", pred=lambda o: "basin_graph" in o["instance"], min_instances=20)
    chk.count_scenarios(n_sc, True)


# ------------------------------------------------------------------------------------ K3

def node_graphs():
    """small node graphs (adjacency lists in neighbour order) with candidate base-level sets"""
    out = []
    out.append(("path-4", {0: [1], 1: [0, 2], 2: [1, 3], 3: [2]}, [[0], [0, 3]]))
    out.append(("path-5", {0: [1], 1: [0, 2], 2: [1, 3], 3: [2, 4], 4: [3]}, [[0], [0, 4]]))
    out.append(("2x3-rook", {0: [1, 3], 1: [0, 2, 4], 2: [1, 5], 3: [0, 4], 4: [1, 3, 5], 5: [2, 4]},
                [[0], [0, 5]]))
    return out


def flow_state(adj, elev, base):
    """single-direction receivers by steepest descent (unit distances, first lowest on ties),
    bottom-up order and basin labels as the library defines them"""
    n = len(adj)
    rec = {}
    for i in range(n):
        rec[i] = i
        if i in base:
            continue
        best = None
        for nb in adj[i]:
            if elev[nb] < elev[i] and (best is None or elev[nb] < elev[best]):
                best = nb
        if best is not None:
            rec[i] = best
    donors = {i: [] for i in range(n)}
    for i in range(n):
        if rec[i] != i:
            donors[rec[i]].append(i)
    order = []
    for i in range(n):
        if rec[i] == i:
            order.append(i)
            st = [i]
            while st:
                u = st.pop()
                for d in donors[u]:
                    order.append(d)
                    st.append(d)
    basins, outlets, cur = {}, [], -1
    for i in order:
        if rec[i] == i:
            outlets.append(i)
            cur += 1
        basins[i] = cur
    return rec, order, basins, outlets


def connect_rule(db, chk, uname, fns, rec):
    fn = fns["connect_basins"]
    n_sc = 0
    nbad = 0
    for gname, adj, base_sets in node_graphs():
        n = len(adj)
        levels = (0.0, 1.0, 2.0)
        for base in base_sets:
            for elev in itertools.product(levels, repeat=n):
                frec, order, basins, outlets = flow_state(adj, elev, set(base))
                inner = [b for b, o in enumerate(outlets) if o not in base]
                if not inner:
                    continue
                n_sc += 1
                R = Table("m_receivers")
                for i in range(n):
                    R[(i, 0)] = frec[i]
                B = Table("m_basins")
                for i in range(n):
                    B[(i,)] = basins[i]

                class CW(World):
                    def before_call(self, it, f2, call, callee, frame):
                        nm = callee.bn.split("::")[-1]
                        args = call.get("a", [])
                        if nm == "basins_count":
                            return len(outlets)
                        if callee.bn.endswith("basin_graph::outlets") or (nm == "outlets"):
                            return PyVec(list(outlets))
                        if nm == "basins":
                            return B
                        if nm == "receivers":
                            return R
                        if nm == "dfs_indices":
                            return PyVec(list(order))
                        if nm == "grid":
                            return Sym("grid", "g")
                        if nm in ("nodes_status", "nodes_status_impl"):
                            return 0 if args else PyVec([0] * n)      # grid statuses: all core
                        if nm == "is_masked":
                            return False
                        if nm == "is_base_level":
                            return it.rv(it.eval(args[0], frame)) in base
                        if nm == "neighbors":
                            i = it.rv(it.eval(args[0], frame))
                            return out_param(it, frame, args, 1,
                                             PyVec([Obj("fastscapelib::neighbor", {"idx": j, "distance": 1.0, "status": 0})
                                                    for j in adj[i]]))
                        return NOT_HANDLED

                    def external(self, it, f2, call, frame):
                        nm = call.get("bn", "").split("::")[-1]
                        obj = call.get("obj")
                        if obj is not None:
                            o = it.rv(it.eval(obj, frame))
                            if isinstance(o, Table) and nm in ("operator()", "flat", "operator[]"):
                                return ElemRef(o, tuple(it.rv(it.eval(x, frame)) for x in call.get("a", [])))
                            if isinstance(o, PyVec) and call.get("cls", "").startswith("xt::") and \
                                    nm in ("flat", "operator()", "operator[]"):
                                return ElemRef(o, it.rv(it.eval(call["a"][0], frame)))
                        return NOT_HANDLED
                it = Interp(CW(), max_steps=400000)
                o = it.new_obj(fn, rec)
                o.fields["m_flow_graph_impl"] = Sym("graph_impl", "g")
                bad = []
                try:
                    it.call_fn(fn, o, [PyVec(list(elev))])
                    it.call_fn(fn, o, [PyVec(list(elev))])      # twice: scratch reuse
                except ThrowEx as ex:
                    bad.append("threw %s" % ex.text[:60])
                except OutOfRange as ex:
                    bad.append("out-of-bounds access on the second update: %s" % str(ex)[8:120])
                if not bad:
                    got = {}
                    root = o.fields["m_root"]
                    outer = [b for b, ot in enumerate(outlets) if ot in base]
                    for e in o.fields["m_edges"]:
                        a, b = e.fields["link"]
                        pa, pb = e.fields["pass"]
                        key = (a, b)
                        if key in got:
                            bad.append("two edges for the basin pair %r" % (key,))
                        got[key] = (pa, pb, e.fields["pass_elevation"])
                    # outer basins: a star around the root
                    if root not in outer:
                        bad.append("root %r is not an outer basin" % (root,))
                    for ob in outer:
                        if ob != root and (root, ob) not in got:
                            bad.append("outer basin %d is not linked to the root" % ob)
                    # inner basins: lowest pass to every adjacent basin
                    want = {}
                    for i in range(n):
                        bi = basins[i]
                        if bi not in inner:
                            continue
                        for j in adj[i]:
                            bj = basins[j]
                            if bj == bi:
                                continue
                            if bj in inner and bi >= bj:
                                continue
                            pe = max(elev[i], elev[j])
                            k = (bi, bj)
                            if k not in want or pe < want[k][0]:
                                want[k] = (pe, {(i, j)})
                            elif pe == want[k][0]:
                                want[k][1].add((i, j))
                    for k, (pe, pairs) in want.items():
                        g = got.get(k)
                        if g is None:
                            bad.append("no edge between inner basin %d and adjacent basin %d" % k)
                        elif g[2] != pe or (g[0], g[1]) not in pairs:
                            bad.append("edge %r goes through pass %r at %g; the lowest pass is at %g through one "
                                       "of %r" % (k, (g[0], g[1]), g[2], pe, sorted(pairs)))
                    for k in got:
                        if k not in want and not (k[0] == root and k[1] in outer):
                            bad.append("unexpected edge %r" % (k,))
                if bad:
                    nbad += 1
                if not bad or nbad <= 5:
                    chk.ob("C15-K3", "[%s] %s, base levels %s, elevation %s" % (uname, gname, base, list(elev)),
                           not bad, where=fn.ploc, function=fn.bn, construct="connect_basins",
                           detail="; ".join(bad[:2]), sample=(n_sc % 149 == 1), extra={"unit": uname})
    return n_sc
