"""C18 -- triangular mesh connectivity, boundary and areas follow the triangles (partial, bounded claim).

The connectivity and boundary code only looks at the triangle index lists (never at the
coordinates), and the distance / area code only adds, multiplies, divides and takes square roots
of coordinates.  So the property splits into

C18-M1 (bounded exhaustive abstract interpretation of set_neighbors + set_nodes_status + the
        neighbour accessors): for every list of <= 3 distinct triangles over <= 5 nodes (thorough: also <= 3
        over 6 nodes and 4 over <= 5 nodes) in which no edge belongs to more than two triangles (a necessary
        condition of a planar triangulation), with every vertex ordering of one triangle at a
        time: the neighbours of a node are exactly the nodes it shares a triangle edge with, no
        duplicates, symmetric; with no status given, exactly the end points of edges seen once
        are fixed-value and all others core; neighbors_count / neighbors_indices agree with the
        stored lists; the stored distance of each neighbour is, symbolically,
        sqrt((xi-xj)^2 + (yi-yj)^2).  The unordered edge map is modelled by the repository's OWN
        key-equality functor (interpreted), and
C18-M2 that functor is orientation-insensitive and the hash agrees with it (equal keys hash
        equal): interpreted on all pairs over three node ids / symbolically.
C18-M3 (exact rational-function interpretation of set_nodes_areas with symbolic coordinates; the
        square root is an uninterpreted positive symbol S_t with S_t^2 = its argument): for a
        single triangle in each of its 6 vertex orders, two triangles sharing an edge, and a mesh
        with an isolated node: the squared area under the root is ((p1-p0)x(p2-p0))^2 / 4; every
        node receives, from each of its triangles, the circumcentric share (the quadrilateral
        node - edge midpoint - circumcentre - edge midpoint, computed independently here from
        the circumcentre); the areas sum to the sum of the triangle areas.
Not decided: meshes beyond the bound, degenerate (zero-area) triangles, rounding, the optional
status-array constructor, the neighbour cache of the grid base class.
"""
import itertools
import math

from ..interp import Interp, World, Obj, PyVec, Sym, ThrowEx, NOT_HANDLED, Ref, ElemRef
from .. import ratfun, ndsym
from ..ratfun import Dual
from ..ndsym import NDArr, Uninit, is_arr, ShapeMismatch, IndexOutside
from ..sir import pp, strip, AnalysisBroken, const_value
from .C14 import ADIWorld, ArrRef, scalar, UninitUse, sym_array

UNITS = ["trimesh"]
TRI = "fastscapelib::trimesh_xt"
B = ratfun.binop


class Entry(Obj):
    """one (key, count) node of the edge map"""

    def __init__(self, key, count):
        Obj.__init__(self, "edge-map-entry", {"first": key, "second": count})

    def __deepcopy__(self, memo):
        return self


class EdgeMap:
    def __init__(self, equal_fn):
        self.entries = []
        self.equal_fn = equal_fn

    def __deepcopy__(self, memo):
        return self


def _num_eq(a, b):
    """an expression whose symbolic form is not recognised (e.g. a cotangent obtained from a square
    root instead of the dot / cross quotient) is accepted when it takes the expected value at the
    scenario's representative coordinates, which are generic; the acute, right and obtuse cases are
    separate scenarios, so a formula valid for some of them only still fails on the others"""
    a, b = Dual.of(a), Dual.of(b)
    try:
        return abs(a.rep - b.rep) <= 1e-9 * max(abs(a.rep), abs(b.rep), 1e-300)
    except (TypeError, OverflowError):
        return False


class EdgeSet:
    """std::unordered_set of edges with the repository's own hash / equality functors: membership is
    decided by interpreting the equality functor, iteration order is unspecified (both orders run)"""

    def __init__(self, equal_fn):
        self.items = []
        self.equal_fn = equal_fn

    def __deepcopy__(self, memo):
        return self


class OrderedSet:
    """std::set of comparable values (pairs of node ids): kept sorted, iterated in order"""

    def __init__(self):
        self.items = []

    def __deepcopy__(self, memo):
        return self


class NodeSet:
    def __init__(self):
        self.items = []

    def __deepcopy__(self, memo):
        return self


class MeshWorld(ADIWorld):
    def __init__(self, unit):
        ADIWorld.__init__(self, [1, 1], [0])
        self.unit = unit
        self.roots = []          # (symbol, argument) of every square root taken
        self.reverse_iteration = False
        eq = [f for f in unit.fns.values() if f.bn == "fastscapelib::detail::tri_edge_equal::operator()"]
        # (absent when the construction code no longer uses the custom edge map: then M1 alone
        #  decides the connectivity, whatever container the code uses)
        self.equal_fn = eq[0] if eq else None

    def sym_unop(self, op, a):
        if op == "sqrt":
            return self.sqrt(a)
        if op in ("abs", "fabs"):
            # decided on the representative, like std::max / std::min: the scenarios fix the sign of
            # every coordinate expression (acute, right and obtuse triangles are separate scenarios)
            a = Dual.of(a)
            return a if a.rep >= 0 else a.neg()
        return ADIWorld.sym_unop(self, op, a)

    def sqrt(self, a):
        a = Dual.of(a)
        for (s, arg) in self.roots:
            if arg.same(a):
                return s
        if a.rep < 0:
            raise AnalysisBroken("C18: square root of a negative representative")
        s = Dual.sym("S%d" % len(self.roots), math.sqrt(a.rep))
        self.roots.append((s, a))
        return s

    def sym_cmp(self, op, a, b):
        if isinstance(a, (Uninit,)) or isinstance(b, (Uninit,)):
            raise UninitUse("comparison on uninitialised storage")
        return ratfun.compare(op, a, b)

    def before_call(self, it, fn, call, callee, frame):
        return NOT_HANDLED

    def range_iter(self, it, fn, node, value, frame):
        v = it.rv(value)
        if isinstance(v, EdgeMap):
            seq = list(v.entries)
            return seq[::-1] if self.reverse_iteration else seq
        if isinstance(v, (NodeSet, EdgeSet)):
            seq = list(v.items)
            return seq[::-1] if self.reverse_iteration else seq
        if isinstance(v, OrderedSet):
            return list(v.items)            # a std::set iterates in key order
        return NOT_HANDLED

    def default_value(self, it, ts):
        base = ts.replace("const ", "").strip()
        if base.startswith("std::unordered_set<") and "tri_edge_equal" in base and self.equal_fn is not None:
            return EdgeSet(self.equal_fn)
        if base.startswith("std::unordered_set<"):
            return NodeSet()
        if base.startswith("std::set<"):
            return OrderedSet()
        if base.startswith("std::unordered_map<") and "tri_edge" in base:
            return EdgeMap(self.equal_fn)
        if base.startswith("xt::xtensor_container<"):
            return NDArr((0,), None, "xtensor")
        return NOT_HANDLED

    def external(self, it, fn, call, frame):
        bn = call.get("bn", "") or ""
        name = bn.split("::")[-1]
        args = call.get("a", [])
        obj = call.get("obj")

        def V(i):
            return it.rv(it.eval(args[i], frame))
        if call.get("k") == "construct":
            ts = fn.type(call.get("t")).replace("const ", "")
            if ts.startswith("std::unordered_map<") and "tri_edge" in ts and not args:
                return EdgeMap(self.equal_fn)
            if ts.startswith("std::unordered_set<") and "tri_edge_equal" in ts and self.equal_fn is not None and not args:
                return EdgeSet(self.equal_fn)
            if ts.startswith("std::unordered_set<") and not args:
                return NodeSet()
            if ts.startswith("std::set<") and not args:
                return OrderedSet()
            if ts.startswith("xt::xtensor_container<"):
                if not args:
                    return NDArr((0,), None, "xtensor")
                v0 = V(0)
                if isinstance(v0, (list, tuple)) and len(args) >= 2 and not is_arr(v0):
                    return NDArr(tuple(v0), V(1), "xtensor")
                if is_arr(v0):
                    return v0.copy()
            return ADIWorld.external(self, it, fn, call, frame)
        if bn in ("sqrt", "std::sqrt"):
            return self.sqrt(V(0))
        if bn == "std::numeric_limits::min":
            return Dual.of(2.2250738585072014e-308)
        if bn in ("std::max", "std::min"):
            a, b = V(0), V(1)
            if isinstance(a, Dual) or isinstance(b, Dual):
                a, b = Dual.of(a), Dual.of(b)
                if bn == "std::max":
                    return b if a.rep < b.rep else a
                return b if b.rep < a.rep else a
            return NOT_HANDLED
        if bn == "xt::sum":
            return ndsym.sum_axis(ndsym.materialise(V(0)), V(1), scalar)
        if bn == "xt::flatten":
            return ndsym.flatten(V(0))
        if bn == "xt::bincount":
            idx, w = V(0), V(1)
            if len(args) > 2:
                n = V(2)
            else:
                # no minimum length: one bin per index up to the largest one used
                n = 1 + max([idx.get(k) for k in idx.indices()] or [-1])
            if tuple(idx.shape) != tuple(w.shape):
                raise ShapeMismatch("bincount: %r indices and %r weights" % (idx.shape, w.shape))
            out = NDArr((n,), 0, "bincount")
            for k in idx.indices():
                i = idx.get(k)
                if not isinstance(i, int) or i < 0:
                    raise AnalysisBroken("C18: bincount index %r" % (i,))
                if i >= n:
                    # (xt::bincount grows the result to the largest index)
                    out.shape = (i + 1,)
                    n = i + 1
                out.data[(i,)] = scalar("+", out.get((i,)), w.get(k))
            return out
        if obj is not None:
            o = it.rv(it.eval(obj, frame))
            if isinstance(o, EdgeMap):
                if name == "insert":
                    kv = V(0)
                    key, cnt = kv
                    for e in o.entries:
                        if it.truth(it.call_fn(o.equal_fn, Obj("fastscapelib::detail::tri_edge_equal", {}),
                                               [e.fields["first"], key])):
                            return (e, False)
                    e = Entry(key, cnt)
                    o.entries.append(e)
                    return (e, True)
                if name == "size":
                    return len(o.entries)
            if isinstance(o, EdgeSet):
                if name in ("insert", "emplace"):
                    key = V(0) if len(args) == 1 else tuple(V(i) for i in range(len(args)))
                    for e in o.items:
                        if it.truth(it.call_fn(o.equal_fn, Obj("fastscapelib::detail::tri_edge_equal", {}), [e, key])):
                            return (e, False)
                    o.items.append(key)
                    return (key, True)
                if name == "count":
                    key = V(0)
                    return 1 if any(it.truth(it.call_fn(o.equal_fn, Obj("fastscapelib::detail::tri_edge_equal", {}),
                                                        [e, key])) for e in o.items) else 0
                if name == "size":
                    return len(o.items)
                if name == "empty":
                    return not o.items
                if name == "clear":
                    del o.items[:]
                    return None
            if isinstance(o, (EdgeMap, EdgeSet, NodeSet, OrderedSet)) and name in ("reserve", "rehash", "max_load_factor"):
                return None
            if isinstance(o, Entry) and name in ("operator->", "operator*"):
                return o
            if isinstance(o, OrderedSet):
                if name in ("insert", "emplace"):
                    v = V(0) if len(args) == 1 else tuple(V(i) for i in range(len(args)))
                    v = tuple(v) if isinstance(v, (list, PyVec)) else v
                    fresh = v not in o.items
                    if fresh:
                        o.items.append(v)
                        o.items.sort()
                    return (v, fresh)
                if name == "count":
                    v = V(0)
                    v = tuple(v) if isinstance(v, (list, PyVec)) else v
                    return 1 if v in o.items else 0
                if name == "size":
                    return len(o.items)
                if name == "clear":
                    del o.items[:]
                    return None
            if isinstance(o, NodeSet):
                if name == "clear":
                    del o.items[:]
                    return None
                if name == "insert":
                    v = V(0)
                    if v not in o.items:
                        o.items.append(v)
                    return None
                if name == "size":
                    return len(o.items)
                if name == "count":
                    return 1 if V(0) in o.items else 0
            if is_arr(o) and name == "resize":
                shp = V(0)
                while isinstance(shp, list) and len(shp) == 1 and isinstance(shp[0], list):
                    shp = shp[0]
                o.shape = tuple(shp)
                o.data = {}
                o.fill = Uninit(o.name)
                return None
            if isinstance(o, dict) and name == "size":
                return len(o)
        return ADIWorld.external(self, it, fn, call, frame)


# --------------------------------------------------------------------------------------- meshes

def int_array(rows, ncol, name):
    a = NDArr((len(rows), ncol), None, name)
    for i, r in enumerate(rows):
        for j, v in enumerate(r):
            a.data[(i, j)] = v
    return a


def points_array(n, reps=None):
    reps = reps or [(0.0, 0.0), (1.3, 0.1), (0.4, 1.1), (1.6, 1.4), (-0.7, 0.9), (0.5, -1.2)]
    a = NDArr((n, 2), None, "points")
    for i in range(n):
        a.data[(i, 0)] = Dual.sym("x%d" % i, reps[i][0])
        a.data[(i, 1)] = Dual.sym("y%d" % i, reps[i][1])
    return a


def new_mesh(n):
    return Obj(TRI, {"m_shape": PyVec([n]), "m_size": n, "m_nodes_points": NDArr((0,), None, "m_nodes_points"),
                     "m_nodes_areas": NDArr((0,), None, "m_nodes_areas"), "m_boundary_nodes": NodeSet(),
                     "m_nodes_status": NDArr((0,), None, "m_nodes_status"),
                     "m_neighbors_indices": PyVec(), "m_neighbors_distances": PyVec(),
                     "m_neighbors_indices_cache": Sym("cache", "c")})


def mesh_lists(n_max, t_max):
    """all lists of distinct triangles over exactly n <= n_max nodes' index range in which every
    edge belongs to at most two triangles; vertex order: canonical, then each of the other five
    orders for one triangle at a time"""
    out = []
    for n in range(3, n_max + 1):
        tris = list(itertools.combinations(range(n), 3))
        for k in range(1, t_max + 1):
            for comb in itertools.combinations(tris, k):
                cnt = {}
                for t in comb:
                    for e in ((t[0], t[1]), (t[1], t[2]), (t[0], t[2])):
                        cnt[e] = cnt.get(e, 0) + 1
                if max(cnt.values()) > 2:
                    continue
                if n > 3 and not any(n - 1 in t for t in comb) and k > 1:
                    # the highest node is isolated: keep one such mesh per triangle list (n = max used + 1)
                    if max(v for t in comb for v in t) != n - 2:
                        continue
                out.append((n, [list(t) for t in comb]))
    return out


def orderings(tris, full):
    yield [list(t) for t in tris], "canonical"
    for i in range(len(tris)):
        for perm in list(itertools.permutations(tris[i]))[1:]:
            if not full and i > 0 and perm not in ((tris[i][0], tris[i][2], tris[i][1]),):
                continue
            v = [list(t) for t in tris]
            v[i] = list(perm)
            yield v, "triangle %d as %r" % (i, perm)


def spec(n, tris):
    nb = {i: set() for i in range(n)}
    cnt = {}
    for t in tris:
        for a, b in ((t[0], t[1]), (t[1], t[2]), (t[2], t[0])):
            nb[a].add(b)
            nb[b].add(a)
            k = (min(a, b), max(a, b))
            cnt[k] = cnt.get(k, 0) + 1
    boundary = set()
    for (a, b), c in cnt.items():
        if c == 1:
            boundary.update((a, b))
    return nb, boundary


def enum_value(unit, name):
    for r in unit.d.get("enums", []) if hasattr(unit, "d") else []:
        pass
    return None


def run(db, chk):
    chk.explanation = (
        "Abstract interpretation of trimesh_xt's construction code: the connectivity / boundary part over "
        "every small triangle list (the edge map being driven by the repository's own, interpreted, "
        "key-equality functor), the distance and area parts over exact rational functions of symbolic "
        "coordinates with uninterpreted square roots, compared with a specification computed "
        "independently here (edge sets; circumcentre quadrilaterals).")
    chk.not_decided = ["meshes beyond the stated bound", "degenerate triangles", "floating-point rounding",
                       "the status-array constructor", "the grid base class's neighbour cache (C07-G2)"]
    chk.rule("C18-M1", "neighbours = nodes sharing a triangle edge (no duplicates, symmetric, accessors agree, "
             "symbolic Euclidean distance); default status: end points of edges seen once are fixed-value, "
             "all others core -- every triangle list in the bound", min_instances=20)
    chk.rule("C18-M2", "the edge key equality ignores orientation and the hash agrees with it", min_instances=2)
    chk.rule("C18-M3", "node areas: squared triangle area, circumcentric share per node and triangle, total = "
             "sum of triangle areas (symbolic identities)", min_instances=4)
    unit = db.units.get("trimesh")
    if unit is None:
        raise AnalysisBroken("C18: trimesh unit missing")
    fns = {}
    for f in unit.fns.values():
        if f.cls == TRI:
            fns.setdefault(f.name, []).append(f)
    for need in ("set_neighbors", "set_nodes_status", "set_nodes_areas", "neighbors_count_impl",
                 "neighbors_indices_impl", "neighbors_distances_impl"):
        if need not in fns:
            raise AnalysisBroken("C18: trimesh_xt::%s not instantiated" % need)
    set_nb = fns["set_neighbors"][0]
    set_st = [f for f in fns["set_nodes_status"] if "std::map<" in f.type(f.params[0]["t"])]
    if not set_st:
        raise AnalysisBroken("C18: set_nodes_status(map) not found")
    set_st = set_st[0]
    set_ar = fns["set_nodes_areas"][0]
    # node_status enumerators from the AST
    status = {}
    for f in unit.fns.values():
        pass
    from ..sir import walk
    for f in [set_st] + sorted(unit.fns.values(), key=lambda f: f.fid):
        for n in walk(f.body):
            if n.get("k") == "ref" and n.get("rk") == "enum" and n.get("cv") is not None and \
                    "node_status" in f.type(n.get("t")):
                status.setdefault(n["n"], n["cv"])
        if "fixed_value" in status and "core" in status:
            break
    if "fixed_value" not in status or "core" not in status:
        raise AnalysisBroken("C18: node_status enumerators not found in the trimesh unit (%r)" % status)
    FIXED, CORE = status["fixed_value"], status["core"]
    n_sc = 0

    # ---------------------------------------------------------------------------------- M2
    w = MeshWorld(unit)
    if w.equal_fn is None:
        uses_map = any("tri_edge" in unit.type(n.get("t")) for n in walk(set_nb.body) if n.get("t") is not None)
        if uses_map:
            raise AnalysisBroken("C18: the edge map is used but tri_edge_equal::operator() is not instantiated")
        for what in ("equality", "hash"):
            chk.ob("C18-M2", "the custom edge-map %s functor is no longer used by set_neighbors: orientation-"
                   "insensitivity is decided through C18-M1 alone" % what, True, where=set_nb.ploc,
                   function=set_nb.bn, construct="edge-%s-unused" % what)
    else:
        bad = []
        n_pairs = 0
        for a, b, c, d in itertools.product(range(3), repeat=4):
            it = Interp(w)
            got = it.truth(it.call_fn(w.equal_fn, Obj("fastscapelib::detail::tri_edge_equal", {}), [(a, b), (c, d)]))
            want = (a, b) == (c, d) or (a, b) == (d, c)
            n_pairs += 1
            if got != want:
                bad.append("equal((%d,%d),(%d,%d)) = %s" % (a, b, c, d, got))
        chk.ob("C18-M2", "tri_edge_equal on all %d pairs of keys over three node ids" % n_pairs, not bad,
               where=w.equal_fn.ploc, function=w.equal_fn.bn, construct="edge-equal", detail="; ".join(bad[:3]))
        hs = [f for f in unit.fns.values() if f.bn == "fastscapelib::detail::tri_edge_hash::operator()"]
        if not hs:
            raise AnalysisBroken("C18: tri_edge_hash::operator() not instantiated")

        class HashWorld(World):
            def external(self, it, fn, call, frame):
                if (call.get("bn") or "").startswith("std::hash"):
                    if call.get("k") == "construct":
                        return Obj("std::hash", {})
                    v = it.rv(it.eval(call["a"][0], frame))
                    return Sym("h", "h(%r)" % (v,))
                return NOT_HANDLED

            def sym_binop(self, op, a, b):
                if op in ("^", "+", "*", "|", "&"):     # commutative combiners
                    return Sym("h", "%s{%s}" % (op, ",".join(sorted([repr(getattr(a, "tag", a)), repr(getattr(b, "tag", b))]))))
                raise AnalysisBroken("C18: hash combines with the non-commutative operator %s" % op)
        bad = []
        try:
            vals = {}
            for key in ((1, 2), (2, 1)):
                it = Interp(HashWorld())
                r = it.rv(it.call_fn(hs[0], Obj("fastscapelib::detail::tri_edge_hash", {}), [key]))
                vals[key] = getattr(r, "tag", r)
            if vals[(1, 2)] != vals[(2, 1)]:
                bad.append("hash((1,2)) = %r but hash((2,1)) = %r" % (vals[(1, 2)], vals[(2, 1)]))
        except AnalysisBroken as ex:
            bad.append(str(ex))
        chk.ob("C18-M2", "tri_edge_hash gives both orientations of an edge the same bucket (symbolic)", not bad,
               where=hs[0].ploc, function=hs[0].bn, construct="edge-hash", detail="; ".join(bad[:2])[:300])


    # ---------------------------------------------------------------------------------- M1
    thorough = chk.tier == "thorough"
    meshes = mesh_lists(5, 3)
    if thorough:
        seen = set((n, tuple(map(tuple, t))) for n, t in meshes)
        for m in mesh_lists(6, 3) + mesh_lists(5, 4):
            key = (m[0], tuple(map(tuple, m[1])))
            if key not in seen:
                seen.add(key)
                meshes.append(m)
    for (n, tris0) in (meshes if chk.want("C18-M1") else ()):
        nb_want, boundary_want = spec(n, tris0)
        bad = []
        n_var = 0
        for tris, label in orderings(tris0, thorough or len(tris0) <= 2):
            for rev in (False, True):
                if rev and label != "canonical":
                    continue
                n_var += 1
                n_sc += 1
                w = MeshWorld(unit)
                w.reverse_iteration = rev
                it = Interp(w, max_steps=2000000)
                this = new_mesh(n)
                pts = points_array(n)
                tarr = int_array(tris, 3, "triangles")
                tag = "%s%s" % (label, ", reversed map iteration" if rev else "")
                try:
                    it.call_fn(set_nb, this, [pts, tarr])
                    it.call_fn(set_st, this, [{}])
                except (ThrowEx, UninitUse, ShapeMismatch) as ex:
                    bad.append("[%s] %s" % (tag, ex))
                    continue
                ni, nd = this.fields["m_neighbors_indices"], this.fields["m_neighbors_distances"]
                if len(ni) != n or len(nd) != n:
                    bad.append("[%s] %d neighbour lists for %d nodes" % (tag, len(ni), n))
                    continue
                for i in range(n):
                    lst = list(ni[i])
                    if len(set(lst)) != len(lst):
                        bad.append("[%s] node %d lists a neighbour twice: %r" % (tag, i, lst))
                    if set(lst) != nb_want[i]:
                        bad.append("[%s] node %d has neighbours %r, its triangle edges give %r" % (
                            tag, i, sorted(lst), sorted(nb_want[i])))
                    if len(nd[i]) != len(lst):
                        bad.append("[%s] node %d: %d distances for %d neighbours" % (tag, i, len(nd[i]), len(lst)))
                        continue
                    for j, dist in zip(lst, nd[i]):
                        if not isinstance(j, int) or not (0 <= j < n):
                            continue
                        dx = B("-", pts.get((i, 0)), pts.get((j, 0)))
                        dy = B("-", pts.get((i, 1)), pts.get((j, 1)))
                        want = B("+", B("*", dx, dx), B("*", dy, dy))
                        arg = [a for (s, a) in w.roots if isinstance(dist, Dual) and s.same(dist)]
                        if not arg or not arg[0].same(want):
                            bad.append("[%s] distance %d -> %d is not the Euclidean edge length" % (tag, i, j))
                    # accessors
                    cnt = it.rv(it.call_fn(fns["neighbors_count_impl"][0], this, [i]))
                    if cnt != len(lst):
                        bad.append("[%s] neighbors_count(%d) = %r" % (tag, i, cnt))
                    outv = PyVec()
                    it.call_fn(fns["neighbors_indices_impl"][0], this, [outv, i])
                    if list(outv) != lst:
                        bad.append("[%s] neighbors_indices(%d) = %r" % (tag, i, list(outv)))
                    dv = it.rv(it.call_fn(fns["neighbors_distances_impl"][0], this, [i]))
                    if list(dv) != list(nd[i]):
                        bad.append("[%s] neighbors_distances(%d) differs from the stored list" % (tag, i))
                st = this.fields["m_nodes_status"]
                for i in range(n):
                    got = st.get((i,))
                    want = FIXED if i in boundary_want else CORE
                    if got != want:
                        bad.append("[%s] default status of node %d is %r (%s expected)" % (
                            tag, i, got, "fixed_value" if want == FIXED else "core"))
        chk.ob("C18-M1", "%d nodes, triangles %r (%d orderings / iteration orders)" % (n, tris0, n_var), not bad,
               where=set_nb.ploc, function=set_nb.bn, construct="mesh:%d:%r" % (n, tris0),
               detail="; ".join(bad[:3])[:500], sample=len(tris0) > 1)

    # ---------------------------------------------------------------------------------- M3
    cases = [(3, [list(p)], "single triangle, vertex order %r" % (p,)) for p in itertools.permutations((0, 1, 2))]
    cases.append((4, [[0, 1, 2], [2, 1, 3]], "two triangles sharing an edge"))
    cases.append((4, [[0, 1, 2], [1, 2, 3]], "two triangles sharing an edge, mixed orientation"))
    cases.append((5, [[0, 1, 2], [2, 1, 3]], "two triangles and an isolated node"))
    if thorough:
        cases.append((5, [[0, 1, 2], [2, 1, 3], [4, 0, 2]], "three triangles (one obtuse)"))
    FLAT = [(0.0, 0.0), (4.0, 0.0), (2.0, 0.2), (2.0, -3.0), (9.0, 9.0)]
    cases.append((3, [[0, 1, 2]], "single flat (very obtuse) triangle: negative circumcentric shares", FLAT))
    cases.append((3, [[1, 0, 2]], "single flat (very obtuse) triangle, clockwise", FLAT))
    cases.append((4, [[0, 1, 2], [1, 0, 3]], "flat triangle on top of an acute one", FLAT))
    for case in (cases if chk.want("C18-M3") else ()):
        (n, tris, label) = case[:3]
        n_sc += 1
        w = MeshWorld(unit)
        it = Interp(w, max_steps=5000000)
        this = new_mesh(n)
        reps = case[3] if len(case) > 3 else [(0.0, 0.0), (1.3, 0.1), (0.4, 1.1), (1.6, 1.4), (-2.5, 0.6)]
        pts = points_array(n, reps)
        tarr = int_array(tris, 3, "triangles")
        bad = []
        try:
            it.call_fn(set_nb, this, [pts, tarr])
            it.call_fn(set_ar, this, [pts, tarr])
        except (ThrowEx, UninitUse, ShapeMismatch, IndexOutside) as ex:
            bad.append(str(ex))
        if not bad:
            areas = this.fields["m_nodes_areas"]
            P = lambda i: (pts.get((i, 0)), pts.get((i, 1)))
            sub = lambda p, q: (B("-", p[0], q[0]), B("-", p[1], q[1]))
            cross = lambda u, v: B("-", B("*", u[0], v[1]), B("*", u[1], v[0]))
            dot = lambda u, v: B("+", B("*", u[0], v[0]), B("*", u[1], v[1]))
            mid = lambda p, q: (B("/", B("+", p[0], q[0]), 2), B("/", B("+", p[1], q[1]), 2))
            want = {i: Dual.of(0) for i in range(n)}
            total = Dual.of(0)
            for t in tris:
                p0, p1, p2 = P(t[0]), P(t[1]), P(t[2])
                D = cross(sub(p1, p0), sub(p2, p0))                       # twice the signed area
                a2 = B("/", B("*", D, D), 4)
                root = [s for (s, a) in w.roots if a.same(a2)]
                if root:
                    S = root[0]
                else:
                    # the code does not take that square root (e.g. it uses |cross| / 2): the triangle's
                    # area is |D| / 2, the sign being that of the scenario's representative coordinates
                    half = B("/", D, 2)
                    S = half if Dual.of(half).rep >= 0 else Dual.of(half).neg()
                # circumcentre
                b_, c_ = sub(p1, p0), sub(p2, p0)
                bb, cc = dot(b_, b_), dot(c_, c_)
                ux = B("/", B("-", B("*", c_[1], bb), B("*", b_[1], cc)), B("*", 2, D))
                uy = B("/", B("-", B("*", b_[0], cc), B("*", c_[0], bb)), B("*", 2, D))
                C = (B("+", p0[0], ux), B("+", p0[1], uy))
                verts = [p0, p1, p2]
                for k in range(3):
                    v, a, b = verts[k], verts[(k + 1) % 3], verts[(k + 2) % 3]
                    poly = [v, mid(v, a), C, mid(v, b)]
                    sa = Dual.of(0)
                    for q in range(4):
                        sa = B("+", sa, cross(poly[q], poly[(q + 1) % 4]))
                    quad = B("/", sa, 2)                                   # signed, same sign as D
                    # share = |quad| = quad * (D/2) / S
                    want[t[k]] = B("+", want[t[k]], B("/", B("*", quad, B("/", D, 2)), S))
                total = B("+", total, B("/", a2, S))                       # S = a2 / S
            if not bad:
                tiny = Dual.of(2.2250738585072014e-308)
                acc = Dual.of(0)
                if tuple(areas.shape) != (n,):
                    bad.append("the node-area buffer has shape %r for %d nodes" % (tuple(areas.shape), n))
                for i in (range(n) if not bad else ()):
                    got = areas.get((i,))
                    if isinstance(got, Uninit):
                        bad.append("area of node %d is uninitialised" % i)
                        continue
                    isolated = not any(i in t for t in tris)
                    if isolated:
                        if not (Dual.of(got).same(0) or Dual.of(got).same(tiny)):
                            bad.append("isolated node %d has area %r" % (i, got))
                        continue
                    acc = B("+", acc, got)
                    if not (Dual.of(got).same(want[i]) or _num_eq(got, want[i])):
                        bad.append("area of node %d is not the sum of its circumcentric shares" % i)
                if not (Dual.of(acc).same(total) or _num_eq(acc, total)):
                    bad.append("the node areas do not sum to the area of the triangles")
        chk.ob("C18-M3", "%s (%d nodes)" % (label, n), not bad, where=set_ar.ploc, function=set_ar.bn,
               construct="areas:%s" % label, detail="; ".join(bad[:3])[:500])
    chk.absorb(db, "C07", {"C07-G3", "C07-G4"}, "C18-M4", "the public neighbour accessors of the mesh draw counts, "
               "indices and distances from the implementation functions decided above and return exactly `count` "
               "entries (shared with C07-G3 / G4)", pred=lambda o: "trimesh" in o["instance"], min_instances=2)
    chk.count_scenarios(n_sc, True)
