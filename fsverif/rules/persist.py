"""A4 — must-kill-before-read audit of state that persists between calls (DESIGN §3.3, C09-P2).

`KillWalk` interprets an entry function in execution order with library callees inlined
(depth <= 8), paths resolved through the alias analysis of effects.FnAnalysis.  For every tracked
object (a data member that survives the call, or a by-reference output parameter) it reports the
first access that is a READ (or an update that depends on the old content: push_back, ++, +=)
on a path on which the object has not been KILLED (whole-object assignment, clear(), fill(v),
std::fill / std::iota over [begin, end), ...).  Branch join = intersection; a loop body may run
zero times, so kills inside loops do not count after the loop.  reserve()/resize(n) are neutral.

Rule instances are the (entry, member) pairs; members that need a different argument are listed
in the tables below with a one-line reason each (confirmed by reading the code).
"""
from ..effects import Effects, FnAnalysis, _leaf_effects, obj_key, path_str, fields_of, first_index
from ..sir import pp, strip, walk, resolve_alias, AnalysisBroken
from .. import model

MAX_DEPTH = 8

# ---- count-guarded tables: rows are valid only below a count array (flow_graph_impl) ------------
COUNT_GUARDED = {
    "m_receivers": "m_receivers_count", "m_receivers_distance": "m_receivers_count",
    "m_receivers_weight": "m_receivers_count", "m_donors": "m_donors_count",
}
# ---- reasoned exceptions (confirmed by reading) ---------------------------------------------------
EXCEPTIONS = {
    # flow_graph_impl
    "m_dfs_indices": "filled through a permutation of all nodes before it is read (C06 order rules)",
    "m_bfs_indices": "filled level by level; only already written entries (index < nstack) are read",
    "m_basins": "every unmasked node is labelled along the bottom-up permutation before use (C19)",
    # basin_graph (Boruvka / orientation scratch)
    "m_adjacency_list": "resized, `next` rewritten for all slots, every link_id slot written by "
                        "the fill pass that follows the degree count",
    "m_nodes_adjacency": "resized; every slot written once by the adjacency fill pass",
    "m_nodes_connects_ptr": "resized; slot 0 and slots 1..n-1 are all assigned by the prefix-sum loop "
                            "before the first read",
    "m_link_basins": "resized to the edge count; every slot assigned by the copy loop before use",
    "m_low_degrees": "empty on exit of compute_tree_boruvka (loop condition), hence empty on entry",
    "m_large_degrees": "drained to the low-degree list by the clean-up pass; planar degree bound",
    "m_edge_in_bucket": "cleared at the start of every clean-up pass before it is appended to",
    "m_basins_uf.rank": "union-by-rank heuristic only: find() results are compared for equality, so the "
                        "tree edges do not depend on the ranks (parent is re-initialised by resize())",
    "m_perf_boruvka": "diagnostic counter, reset before the main loop; does not influence results",
    "m_parent_basins": "only touched when m_keep_order is set (never: constant false)",
    "m_pass_stack": "only touched when m_keep_order is set (never: constant false)",
    "m_reorder_stack": "reserve() then clear() then push_back: killed before its first read",
}


def declare(chk):
    chk.rule("C09-P2", "every data member that persists between update_routes calls and is read "
             "during a call is configuration, killed before its first read on every path, "
             "count-guarded by a killed count array, or a reasoned exception", min_instances=30)
    chk.rule("C09-P5", "an operator parameter is read on every application, never captured under "
             "a first-call-only guard (a cached helper must not freeze a parameter)",
             min_instances=1)


class KillWalk:
    def __init__(self, eff, tracked):
        """tracked(key) -> bool for entry-level object keys"""
        self.eff = eff
        self.tracked = tracked
        self.findings = {}      # key -> (where, fn name, what)
        self.touched = {}       # key -> set of kinds seen: r / kill / elemw / grow
        self.depth = 0
        self.stack = []
        self.analyses = {}

    # ------------------------------------------------------------ frames
    def analysis(self, fn):
        an = self.analyses.get(fn.key)
        if an is None:
            an = FnAnalysis(self.eff, fn)
            an.direct_only = True
            an.run()            # builds the alias environment
            self.analyses[fn.key] = an
        return an

    def translate(self, rootmap, p):
        bases = rootmap.get(p[0])
        if not bases:
            return set()
        return {b + p[1:] for b in bases}

    # ------------------------------------------------------------ events
    def on_read(self, key, killed, fn, where, what):
        if not self.tracked(key):
            return
        self.touched.setdefault(key, set()).add("r")
        if key not in killed and key not in self.findings:
            self.findings[key] = (where, fn.bn, what)

    def process_leaf(self, fn, an, rootmap, stmt, killed):
        an.call_log = []
        eff = _leaf_effects(an, stmt)
        log = list(an.call_log)
        # 1. inlined library calls, in evaluation order
        for (node, callee, this_paths, args, capmap) in log:
            if callee.body is None:
                continue
            if capmap == "lambda":
                rm = dict(rootmap)   # a local lambda sees the frame's objects through its captures
                rm2 = {}
                for k, v in rm.items():
                    rm2[k] = v
                # captures are rooted ("cap", declid, name): map through the creating frame's env
                for d, ps in an.env.items():
                    tr = set()
                    for p in ps:
                        tr |= self.translate(rootmap, p)
                    if tr:
                        rm2[("cap", d, None)] = tr
                sub = CapMap(rm2)
            else:
                sub = {}
                tr = set()
                for p in this_paths:
                    tr |= self.translate(rootmap, p)
                if tr:
                    sub[("this",)] = tr
                for i, (a, ps) in enumerate(args):
                    tr = set()
                    for p in ps:
                        tr |= self.translate(rootmap, p)
                    if tr:
                        sub[("p", i)] = tr
            if callee.key in self.stack or self.depth >= MAX_DEPTH:
                # recursion / depth bound: fall back on the flow-insensitive summary (reads first)
                s = self.eff.summary(callee)
                for (k, p, h) in s.effects:
                    for q in self.translate(sub, p):
                        if k == "r" or h in ("grow", "rmw"):
                            self.on_read(obj_key(q), killed, callee, fn.loc(node), "via " + callee.name)
                continue
            self.stack.append(callee.key)
            self.depth += 1
            out = self.run_fn(callee, sub, killed)
            self.depth -= 1
            self.stack.pop()
            if out is not None:
                killed = out
        # 2. direct reads, then direct writes
        for (k, p, h) in sorted(eff.effects, key=lambda x: (x[0] != "r")):
            for q in self.translate(rootmap, p):
                key = obj_key(q)
                where = eff.locs.get((k, p, h), fn.loc(stmt))
                if k == "r":
                    self.on_read(key, killed, fn, where, "read " + path_str(p))
                else:
                    if not self.tracked(key):
                        continue
                    whole_obj = (first_index(q) is None and q == key)
                    if h == "whole" and whole_obj:
                        self.touched.setdefault(key, set()).add("kill")
                        killed = killed | {key}
                    elif h in ("grow", "rmw"):
                        self.on_read(key, killed, fn, where, "%s of %s" % (h, path_str(p)))
                        self.touched.setdefault(key, set()).add("grow")
                    elif h in ("reserve", "resize", "shrink_to_fit"):
                        self.touched.setdefault(key, set()).add("size")
                    else:
                        self.touched.setdefault(key, set()).add("elemw")
        return killed

    # ------------------------------------------------------------ statements
    def run_fn(self, fn, rootmap, killed):
        an = self.analysis(fn)
        saved = getattr(self, "returns", None)
        self.returns = []
        end = self.exec_list([fn.body] if fn.body else [], fn, an, rootmap, killed)
        outs = list(self.returns) + ([end] if end is not None else [])
        self.returns = saved
        if not outs:
            return None
        res = outs[0]
        for o in outs[1:]:
            res = res & o
        return res

    def exec_list(self, stmts, fn, an, rootmap, killed):
        """returns killed set at the normal end (None if every path left early)"""
        for i, s in enumerate(stmts):
            if killed is None:
                return None
            if s is None:
                continue
            k = s.get("k")
            if k == "compound":
                killed = self.exec_list(s["b"], fn, an, rootmap, killed)
            elif k == "if":
                if s.get("init") is not None:
                    killed = self.process_leaf(fn, an, rootmap, s["init"], killed)
                killed = self.process_leaf(fn, an, rootmap, {"k": "expr", "e": s["c"], "l": s.get("l")}, killed)
                cv = strip(s["c"]).get("cv")
                a = self.exec_list([s.get("then")], fn, an, rootmap, killed) if cv is not False else None
                if s.get("else") is not None:
                    b = self.exec_list([s["else"]], fn, an, rootmap, killed) if cv is not True else None
                else:
                    b = killed if cv is not True else None
                if a is None:
                    killed = b
                elif b is None:
                    killed = a
                else:
                    killed = a & b
            elif k in ("for", "while", "do", "rangefor"):
                if k == "for" and s.get("init") is not None:
                    killed = self.process_leaf(fn, an, rootmap, s["init"], killed)
                if k == "rangefor":
                    killed = self.process_leaf(fn, an, rootmap, {"k": "expr", "e": s["range"], "l": s.get("l")}, killed)
                    # declare the loop variable for alias purposes (already done by an.run())
                if s.get("c") is not None and k != "do":
                    killed = self.process_leaf(fn, an, rootmap, {"k": "expr", "e": s["c"], "l": s.get("l")}, killed)
                inner = self.exec_list([s.get("body")], fn, an, rootmap, killed)
                if inner is not None:
                    if k == "for" and s.get("inc") is not None:
                        self.process_leaf(fn, an, rootmap, {"k": "expr", "e": s["inc"], "l": s.get("l")}, inner)
                    if k == "do" and s.get("c") is not None:
                        self.process_leaf(fn, an, rootmap, {"k": "expr", "e": s["c"], "l": s.get("l")}, inner)
                if k == "do" and inner is not None:
                    killed = inner
            elif k in ("return",):
                killed = self.process_leaf(fn, an, rootmap, s, killed)
                if self.returns is not None:
                    self.returns.append(killed)
                return None
            elif k in ("break", "continue"):
                return None
            elif k == "switch":
                killed = self.process_leaf(fn, an, rootmap, {"k": "expr", "e": s["c"], "l": s.get("l")}, killed)
                self.exec_list([s.get("body")], fn, an, rootmap, killed)
            elif k in ("case", "default"):
                killed = self.exec_list([s.get("body")], fn, an, rootmap, killed)
            elif k == "try":
                killed = self.exec_list([s.get("body")], fn, an, rootmap, killed)
            elif k == "expr" and strip(s["e"]).get("k") == "throw":
                self.process_leaf(fn, an, rootmap, s, killed)
                return None
            else:
                killed = self.process_leaf(fn, an, rootmap, s, killed)
        return killed


class CapMap(dict):
    """root map that also resolves ("cap", declid, name) roots by declid"""

    def get(self, root, default=None):
        if root in self:
            return dict.get(self, root)
        if root and root[0] == "cap":
            return dict.get(self, ("cap", root[1], None), default)
        return default


def iteration_must_writes(an, stmts):
    """object keys (with index classes of the first index) written on every path through one
    loop iteration (paths end at the end of the body, `continue`, `break` or `return`)"""
    if not stmts:
        return None   # neutral element: no constraint
    s = stmts[0]
    rest = stmts[1:]
    if s is None:
        return iteration_must_writes(an, rest)
    k = s.get("k")
    if k in ("continue", "break", "return"):
        return set()
    if k == "compound":
        return iteration_must_writes(an, list(s["b"]) + rest)
    if k == "if":
        a = iteration_must_writes(an, [s.get("then")] + rest)
        b = iteration_must_writes(an, ([s["else"]] if s.get("else") is not None else []) + rest)
        a = a if a is not None else set()
        b = b if b is not None else set()
        return a & b
    eff = _leaf_effects(an, s)
    mine = set()
    if k not in ("for", "while", "do", "rangefor", "switch"):
        for (kind, p, how) in eff.effects:
            if kind == "w":
                mine.add((obj_key(p), first_index(p)[0] if first_index(p) else None))
    r = iteration_must_writes(an, rest)
    return mine | (r or set())


def full_range_loops(fn):
    """range-for loops over all grid nodes / for loops from 0 to size()"""
    out = []
    for n in walk(fn.body):
        if n.get("k") == "rangefor":
            r = pp(strip(n["range"]))
            if r.endswith("nodes_indices()"):
                out.append((n, n["var"]["d"], n["var"]["n"]))
        if n.get("k") == "for" and n.get("c") is not None:
            c = strip(n["c"])
            if c.get("k") == "binop" and c["op"] == "<" and pp(resolve_alias(fn, c["rhs"])).endswith("size()"):
                l = strip(c["lhs"])
                if l.get("k") == "ref":
                    out.append((n, l.get("d"), l.get("n")))
    return out


# members of an operator implementation object that are configuration, not state
IMPL_CONFIG = {
    "m_op_ptr": "pointer to the user's operator object (its parameters are inputs of update_routes)",
    "m_basin_graph_ptr": "owning pointer re-created when the operator's method changes (C09-P5); the "
                         "basin graph's own members are audited separately",
}


def audit(db, eff, chk, uname):
    unit = db.units[uname]
    ops = model.operator_classes(unit)
    impls = model.operator_impls(db, uname)
    # members of flow_graph_impl written by any operator (everything else is configuration)
    W = set()
    for op, d in impls.items():
        if d["apply"] is None:
            continue
        for (k, p, h) in eff.summary(d["apply"]).effects:
            if k == "w" and p[0] == ("p", 0):
                f = fields_of(p)
                if f:
                    W.add(f[0])
    router_tables = set(model.RECEIVERS + model.DONORS + model.DFS + model.BFS)

    def report(entry, label, member, status, where, detail=""):
        chk.ob("C09-P2", "%s: %s is %s [%s]" % (label, member, status.split(":")[0], uname),
               not status.startswith("READ-BEFORE-KILL"), where=where, function=entry.bn,
               construct="state(%s)" % member, detail=detail, extra={"unit": uname})

    # ---------------------------------------------------------------- operators on the graph impl
    for op, d in sorted(impls.items()):
        ap = d["apply"]
        if ap is None:
            continue
        assumed = set()
        if ops[op]["in_flowdir"] != "undefined":
            assumed = set(router_tables)     # produced by the preceding router in the same call

        # configuration members of the implementation object, recognised by TYPE: the shared pointer
        # to the user's operator and owning pointers to helper objects audited separately
        impl_config = set(IMPL_CONFIG)
        seen_recs = set()

        def collect(tid):
            rec = unit.rec_by_type.get(tid)
            if rec is None or tid in seen_recs:
                return
            seen_recs.add(tid)
            for fld in rec["fields"]:
                ts = unit.type(fld["t"]).replace("const ", "")
                if ts.startswith("std::shared_ptr<") or ts.startswith("std::unique_ptr<"):
                    impl_config.add(fld["n"])
            for b in rec.get("bases", []):
                collect(b["t"])
        collect(ap.d.get("clst"))

        def tracked(key, assumed=assumed, impl_config=impl_config):
            if len(key) != 2 or key[1][0] != "f":
                return False
            m = key[1][1]
            if key[0] == ("this",):
                # members of the operator implementation object persist between calls as well
                return m not in impl_config
            if key[0] != ("p", 0):
                return False
            return m in W and m not in assumed
        kw = KillWalk(eff, tracked)
        kw.stack.append(ap.key)
        kw.run_fn(ap, {("p", 0): {(("p", 0),)}, ("p", 1): {(("p", 1),)}, ("this",): {(("this",),)}},
                  frozenset())
        an = FnAnalysis(eff, ap)
        an.run()
        for key, kinds in sorted(kw.touched.items(), key=lambda x: path_str(x[0])):
            m = key[1][1]
            label = "%s::apply" % op.split("::")[-1]
            if key[0] == ("this",):
                m = "impl." + m
            f = kw.findings.get(key)
            if f is None:
                report(ap, label, m, "killed-before-read" if "kill" in kinds else "written-only", ap.ploc)
                continue
            if m in COUNT_GUARDED:
                cnt = COUNT_GUARDED[m]
                ckey = (("p", 0), ("f", cnt))
                c_ok = ckey not in kw.findings and "kill" in kw.touched.get(ckey, set())
                if not c_ok:
                    c_ok = count_assigned_in_full_loop(eff, ap, cnt, db)
                report(ap, label, m, "count-guarded by %s" % cnt if c_ok else
                       "READ-BEFORE-KILL: count array %s is not reset" % cnt, f[0],
                       "" if c_ok else "rows of %s beyond a stale %s are read" % (m, cnt))
                continue
            if m in COUNT_GUARDED.values() and count_assigned_in_full_loop(eff, ap, m, db):
                report(ap, label, m, "assigned on every path of a full-range loop", f[0])
                continue
            if m in EXCEPTIONS:
                report(ap, label, m, "exception: " + EXCEPTIONS[m], f[0])
                continue
            report(ap, label, m, "READ-BEFORE-KILL", f[0],
                   "%s (in %s): a value left by a previous update_routes call is used" % (f[2], f[1].split("::")[-1]))

    # ---------------------------------------------------------------- configuration setters
    for fn in db.fns(unit=uname, pred=lambda f: f.cls == model.GRAPH_IMPL and
                     f.name in ("set_mask", "set_base_levels")):
        kw = KillWalk(eff, lambda key: key[0] == ("this",) and len(key) == 2 and key[1][0] == "f")
        kw.stack.append(fn.key)
        rm = {("this",): {(("this",),)}}
        for i in range(len(fn.params)):
            rm[("p", i)] = {(("p", i),)}
        kw.run_fn(fn, rm, frozenset())
        if not kw.touched:
            raise AnalysisBroken("C09-P2: %s touches no member in %s" % (fn.name, uname))
        for key, kinds in sorted(kw.touched.items(), key=lambda x: path_str(x[0])):
            m = key[1][1]
            partial = bool(kinds & {"elemw", "grow", "size"}) and "kill" not in kinds
            stale = key in kw.findings
            ok = not partial and not stale
            report(fn, "flow_graph_impl::%s" % fn.name, m,
                   "replaced as a whole" if ok else
                   "READ-BEFORE-KILL: updated incrementally without being reset",
                   (kw.findings.get(key) or (fn.ploc,))[0],
                   "" if ok else "entries set by a previous %s call survive: the state depends on "
                   "the history of calls, not only on the current argument" % fn.name)

    # ---------------------------------------------------------------- basin graph
    for fn in db.fns(unit=uname, pred=lambda f: f.bn == "fastscapelib::basin_graph::update_routes"):
        rec = [r for (u2, r) in db.records("fastscapelib::basin_graph") if u2.name == uname]
        if not rec:
            raise AnalysisBroken("basin_graph record missing in %s" % uname)
        fields = {f["n"]: f for f in rec[0]["fields"]}
        # configuration: written only by constructors
        cfg = set(fields)
        for f in db.fns(unit=uname, pred=lambda f: f.cls == "fastscapelib::basin_graph" and not f.is_ctor):
            for (k, p, h) in eff.summary(f).effects:
                if k == "w" and p[0] == ("this",) and fields_of(p):
                    cfg.discard(fields_of(p)[0])

        def tracked(key, cfg=cfg, fields=fields):
            return key[0] == ("this",) and len(key) >= 2 and all(e[0] == "f" for e in key[1:]) \
                and key[1][1] in fields and key[1][1] not in cfg and not fields[key[1][1]].get("isref")
        kw = KillWalk(eff, tracked)
        kw.stack.append(fn.key)
        kw.run_fn(fn, {("this",): {(("this",),)}, ("p", 0): {(("p", 0),)}}, frozenset())
        if len(kw.touched) < 10:
            raise AnalysisBroken("basin_graph audit: only %d members seen" % len(kw.touched))
        for key, kinds in sorted(kw.touched.items(), key=lambda x: path_str(x[0])):
            m = ".".join(e[1] for e in key[1:])
            f = kw.findings.get(key)
            label = "basin_graph::update_routes"
            if f is None:
                report(fn, label, m, "killed-before-read" if "kill" in kinds else "written-only", fn.ploc)
            elif m in EXCEPTIONS:
                report(fn, label, m, "exception: " + EXCEPTIONS[m], f[0])
            else:
                report(fn, label, m, "READ-BEFORE-KILL", f[0],
                       "%s (in %s): scratch left by a previous call is used" % (f[2], f[1].split("::")[-1]))
        for m in sorted(cfg):
            if not fields[m].get("isref"):
                report(fn, "basin_graph", m, "config (written only by the constructor)", fn.ploc)

    # ---------------------------------------------------------------- P5 parameter capture
    from ..flow import Walker

    for op, d in sorted(impls.items()):
        for fn in d["fns"]:
            if fn.is_ctor:
                # a parameter read while the implementation is constructed is frozen for the
                # lifetime of the graph (operators are shared with the caller, who may change them)
                nodes = []
                for ini in fn.d.get("inits", []) or []:
                    if ini.get("init") is not None:
                        nodes.extend(walk(ini["init"]))
                nodes.extend(walk(fn.body))
                for n in nodes:
                    if n.get("k") == "member" and n.get("mk") == "field" and n.get("cls") == op:
                        chk.ob("C09-P5", "%s implementation constructor reads parameter %s [%s]"
                               % (op.split("::")[-1], n["n"], uname), False, where=fn.loc(n),
                               function=fn.bn, construct="ctor-param(%s)" % n["n"],
                               detail="the value in force at construction is used for every later "
                               "update: a later change of the parameter is ignored",
                               extra={"unit": uname})
                continue
            sites = []

            class W5(Walker):
                def visit(self, node, st):
                    if node.get("k") == "member" and node.get("mk") == "field" and \
                            "m_op_ptr" in pp(node["b"]) and node["n"] != "m_op_ptr":
                        guards = [f for f in st.get("facts") if "this->m_" in f and "m_op_ptr" not in f]
                        sites.append((node, guards))
                        st = st.add("read", node["n"])
                    return st
            w5 = W5(fn)
            w5.run()
            guarded = {node["n"] for node, guards in sites if guards}
            for node, guards in sites:
                ok = True
                if guards:
                    # the persistent state may only decide WHERE the parameter is read, not WHETHER
                    ok = all(st.has("read", node["n"]) for (kind, ex, st) in w5.exits if kind != "throw")
                chk.ob("C09-P5", "%s reads parameter %s in %s%s [%s]"
                       % (op.split("::")[-1], node["n"], fn.name,
                          "" if not guards else " under guard %s" % guards, uname), ok, where=fn.loc(node),
                       function=fn.bn, construct="param(%s)" % node["n"],
                       detail="" if ok else "the parameter is read only while a member that "
                       "persists across calls is in a particular state, and not at all otherwise: "
                       "a later change of the parameter is ignored (stale cached helper)",
                       extra={"unit": uname})


def count_assigned_in_full_loop(eff, fn, count_member, db):
    """is count_member(i) assigned on every path of a loop over all nodes in fn (callees of the
    same class included)?"""
    cands = [fn]
    for c in walk(fn.body):
        if c.get("k") == "call" and c.get("fid") is not None:
            cal = fn.callee(c)
            if cal is not None and cal.cls == fn.cls:
                cands.append(cal)
    for f in cands:
        an = FnAnalysis(eff, f)
        an.run()
        for (loop, d, name) in full_range_loops(f):
            mw = iteration_must_writes(an, [loop.get("body")]) or set()
            for (key, c0) in mw:
                fl = fields_of(key)
                if fl and fl[-1] == count_member and c0 is not None and c0[0] == "var" and c0[1] == d:
                    return True
    return False


def sibling_setters(db, eff, chk, rid, cls, reader="erode"):
    """overloads of one setter must agree on the state they replace: a member that one overload of
    set_x writes, that a sibling overload (writing a strict subset of it) leaves alone, and that the
    reader method reads, is stale after the sibling was called (a stride, a flag or a cache describing
    the previous value).  Decided on the effect summaries (callees included)."""
    n = 0
    for uname in sorted(db.units):
        groups = {}
        rd = None
        for f in db.fns(unit=uname, pred=lambda f: f.cls == cls and not f.is_lambda and not f.is_ctor):
            if f.name.startswith("set_"):
                groups.setdefault(f.name, []).append(f)
            elif f.name == reader and f.body is not None:
                rd = f
        if rd is None:
            continue

        def fields(fn, kind):
            out = set()
            for (k, p, h) in eff.summary(fn).effects:
                if k == kind and p and p[0] == ("this",):
                    fl = fields_of(p)
                    if fl:
                        out.add(fl[0])
            return out
        R = fields(rd, "r") | fields(rd, "w")
        for name, fs in sorted(groups.items()):
            if len(fs) < 2:
                continue
            W = [(f, fields(f, "w")) for f in fs]
            for f, wf in W:
                for g, wg in W:
                    if f is g:
                        continue
                    n += 1
                    stale = sorted((wf - wg) & R) if (wg and wg < wf) else []
                    chk.ob(rid, "[%s] %s(%s) against %s(%s)" % (
                        uname, name, ", ".join(fn_t(g, p) for p in g.params), name, ", ".join(fn_t(f, p) for p in f.params)),
                        not stale, where=g.ploc, function=g.bn, construct="sibling-setter(%s)" % ",".join(stale or ["-"]),
                        detail="" if not stale else "this overload replaces %s but not %s, which its sibling "
                        "overload also updates and %s() reads: after this overload %s still describes the previous "
                        "value" % (sorted(wg), stale, reader, stale), extra={"unit": uname})
    return n


def fn_t(fn, p):
    return fn.type(p.get("t")).replace("const ", "").replace("fastscapelib::", "")[:40]
