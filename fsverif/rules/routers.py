"""Abstract model of one node and its neighbourhood for the A5 interpretation of the routers
(shared by C01, C04, C05).

A *scenario* fixes, for a centre node c and k neighbours: masked / base-level flags, the order
relation of each neighbour's elevation to the centre's (higher / equal / lower) and, for lower
neighbours, the class of the COMPUTED slope: `zero` (the positive drop underflowed to 0 when
divided by the distance), `tiny` (0 < slope <= DBL_MIN) or a normal positive rank.  Elevations,
distances and slopes are opaque symbols: the only operations the interpreted code may apply to
them are the ones whitelisted in RouterWorld (comparisons; elev - elev -> drop; drop / dist ->
slope; slope / slope; pow(slope, p); sums and quotients of weights), anything else aborts the
analysis (exit 2).  Because the code only compares these values, every concrete input is
order-isomorphic to one scenario: the finite enumeration covers all inputs.
"""
import itertools
import math

from ..interp import out_param, Interp, World, Obj, Sym, PyVec, ThrowEx, Ref, ElemRef, Closure, NOT_HANDLED, \
    Opaque, Cell
from ..sir import pp, strip, AnalysisBroken

DBL_MIN = 2.2250738585072014e-308
CENTRE = 5
# a second, steeper node visited BEFORE the centre in the same sweep (flat index 4, one lower
# neighbour 9): whatever a router carries over from one node to the next reaches the centre
PREV, PREV_NB = 4, 9
PREV_SLOPE = 1.0e6
GRID_SIZE = 16
INF = float("inf")


def nb_index(k):
    return 10 + k


class Neighbour:
    def __init__(self, k, masked, rel, slope_class):
        self.k = k
        self.idx = nb_index(k)
        self.masked = masked
        self.rel = rel                  # "higher" | "equal" | "lower"
        self.slope_class = slope_class  # for lower: "zero" | "tiny" | int rank >= 1 ; else None

    def slope_rep(self):
        """representative of the computed slope (only its order matters)"""
        if self.rel == "higher":
            return -1.0 - (self.idx - 10)
        if self.rel == "equal":
            return 0.0
        if self.slope_class == "zero":
            return 0.0
        if self.slope_class == "tiny":
            return 1e-310
        return float(self.slope_class)

    def elev_rep(self):
        if self.rel == "higher":
            return 1.0 + (self.idx - 10)
        if self.rel == "equal":
            return 0.0
        return -1.0 - (self.idx - 10)

    def label(self):
        s = "%s%s" % ("masked " if self.masked else "", self.rel)
        if self.rel == "lower":
            s += "(slope %s)" % self.slope_class
        return s


class Scenario:
    def __init__(self, centre_masked, centre_base, nbs):
        self.centre_masked = centre_masked
        self.centre_base = centre_base
        self.nbs = nbs

    def label(self):
        return "centre[%s%s] nbs[%s]" % ("masked " if self.centre_masked else "",
                                         "base" if self.centre_base else "",
                                         "; ".join(n.label() for n in self.nbs))

    def lower_unmasked(self):
        return [n for n in self.nbs if not n.masked and n.rel == "lower"]


def scenarios(kmax, with_centre_flags=True):
    out = []
    for k in range(0, kmax + 1):
        opts = []
        classes = ["zero", "tiny"] + list(range(1, max(k, 1) + 1))
        for masked in (False, True):
            opts.append((masked, "higher", None))
            opts.append((masked, "equal", None))
            for c in classes:
                opts.append((masked, "lower", c))
        for combo in itertools.product(opts, repeat=k):
            nbs = [Neighbour(i, m, r, c) for i, (m, r, c) in enumerate(combo)]
            flags = [(False, False), (True, False), (False, True), (True, True)] if with_centre_flags \
                else [(False, False)]
            for cm, cb in flags:
                out.append(Scenario(cm, cb, nbs))
        if k == 2:
            # the same node listed twice (wrap-around on a looped axis of two nodes)
            for (m, r, c) in opts:
                a, b = Neighbour(0, m, r, c), Neighbour(1, m, r, c)
                b.idx = a.idx
                out.append(Scenario(False, False, [a, b]))
    return out


# ------------------------------------------------------------------------------------ tables

class Table:
    """a graph table (receivers, distances, weights, donors, counts): dict (row[, col]) -> value"""

    def __init__(self, name, ncols=None, default=None):
        self.name = name
        self.cells = {}
        self.fills = []
        self.default = default
        self.ncols = ncols

    def __deepcopy__(self, memo):
        return self

    def key(self, args):
        return tuple(args)

    def get(self, key):
        if key in self.cells:
            return self.cells[key]
        for (col, v) in reversed(self.fills):
            if col is None or (len(key) > 1 and key[1] == col):
                return v
        return Sym("stale", "%s%s" % (self.name, list(key)))

    def __getitem__(self, key):
        return self.get(key)

    def fill_all(self, v):
        self.cells.clear()
        self.fills.append((None, v))

    def __setitem__(self, key, v):
        self.cells[key] = v


class FlatStorage:
    """row-major buffer of a table (xt container .storage())"""

    def __init__(self, table):
        self.table = table

    def __deepcopy__(self, memo):
        return self


class FlatIter:
    def __init__(self, table, pos):
        self.table = table
        self.pos = pos

    def __deepcopy__(self, memo):
        return self


class RowMajor:
    """the row-major buffer of a table with a known number of columns, as an indexable sequence
    (pointers into the table -- &table(i, j) -- are iterators into it)"""

    def __init__(self, table):
        self.table = table

    def __deepcopy__(self, memo):
        return self

    def __len__(self):
        return GRID_SIZE * self.table.ncols

    def __getitem__(self, k):
        return self.table.get(divmod(k, self.table.ncols))

    def __setitem__(self, k, v):
        self.table[divmod(k, self.table.ncols)] = v


class ColView:
    def __init__(self, table, col):
        self.table = table
        self.col = col

    def __deepcopy__(self, memo):
        return self


class RowView:
    """xt::view(table, row, xt::range(lo, hi)) / xt::row(table, row): cells (row, lo..hi-1)"""

    def __init__(self, table, row, lo, hi):
        self.table = table
        self.row = row
        self.lo = lo
        self.hi = hi

    def __deepcopy__(self, memo):
        return self


class Scaled:
    """positive quantity  sigma^deg * r  with unknown magnitude sigma in (0, +inf); deg == 0 means
    scale-free (proper interval [lo, hi], `one` = contains a term that is exactly 1)"""

    def __init__(self, deg, lo, hi, one=False, terms=None, desc=""):
        self.deg = deg
        self.lo = lo
        self.hi = hi
        self.one = one
        self.terms = terms or []
        self.desc = desc

    def hazard(self):
        return self.deg != 0

    def __repr__(self):
        return "Scaled(%s,%g,%g%s %s)" % (self.deg, self.lo, self.hi, ",one" if self.one else "", self.desc)

    def __deepcopy__(self, memo):
        return self


class RouterWorld(World):
    def __init__(self, sc):
        self.sc = sc
        self.tables = {}
        self.violations = []       # numeric hazards found while interpreting
        # (facts established by the code's own tests -- non-zero, finite -- are kept on the Scaled
        #  objects themselves, never in a table keyed by id(): ids are reused after collection)
        self.exp_sym = Sym("exp", "p")
        self.slope_syms = {}
        for name in ("m_receivers", "m_receivers_distance", "m_receivers_weight", "m_donors"):
            self.tables[name] = Table(name, ncols=8)     # any width >= 2: a multi-column layout
        for name in ("m_receivers_count", "m_donors_count"):
            self.tables[name] = Table(name)
        self.elev = Sym("elevarray", "elevation")
        self.graph = Sym("graph_impl", "g")
        self.grid = Sym("grid", "grid")
        self.pool = Sym("pool", "pool")
        self.skipped_calls = []

    # ------------------------------------------------------------------ symbols
    def nb_of(self, idx):
        for n in self.sc.nbs:
            if n.idx == idx:
                return n
        return None

    def elev_of(self, idx):
        if idx == CENTRE:
            return Sym("elev", "c", 0.0)
        if idx == PREV:
            return Sym("elev", "p", 100.0)
        if idx == PREV_NB:
            return Sym("elev", "pn", 50.0)
        n = self.nb_of(idx)     # (a node listed twice has the same elevation in both entries)
        if n is None:
            raise AnalysisBroken("router model: elevation of unknown node %r" % (idx,))
        return Sym("elev", "n%d" % n.k, n.elev_rep())

    def rep(self, v):
        if isinstance(v, Sym) and v.kind in ("elev", "slope", "drop"):
            return v.data
        if isinstance(v, bool):
            return float(v)
        if isinstance(v, (int, float)):
            return float(v)
        return None

    def sym_cmp(self, op, a, b):
        if isinstance(a, Scaled) or isinstance(b, Scaled):
            return None
        for x in (a, b):
            if isinstance(x, Sym) and x.kind in ("stale", "exp"):
                return None     # a value left by a previous call / the runtime exponent: any outcome
        if any(isinstance(x, Sym) and x.kind == "dropdist" for x in (a, b)):
            return self.cmp_products(op, a, b)
        kinds = {x.kind for x in (a, b) if isinstance(x, Sym)}
        if kinds <= {"elev"} or kinds <= {"slope"} or kinds <= {"drop"}:
            ra, rb = self.rep(a), self.rep(b)
            if ra is None or rb is None:
                raise AnalysisBroken("router model: comparison %r %s %r" % (a, op, b))
            # comparing a slope / drop with a numeric constant is meaningful, an elevation is not
            if "elev" in kinds and not (isinstance(a, Sym) and isinstance(b, Sym)):
                raise AnalysisBroken("router model: elevation compared with a constant: %r %s %r" % (a, op, b))
            return {"<": ra < rb, "<=": ra <= rb, ">": ra > rb, ">=": ra >= rb, "==": ra == rb,
                    "!=": ra != rb}[op]
        if kinds == {"dist"}:
            if isinstance(a, Sym) and isinstance(b, Sym):
                return {"==": a.tag == b.tag, "!=": a.tag != b.tag}.get(op, None)
        raise AnalysisBroken("router model: un-whitelisted comparison %r %s %r" % (a, op, b))

    def slope_of_drop(self, tag):
        src, dst = tag
        if tag == ("p", "pn"):
            return PREV_SLOPE
        if src != "c":
            raise AnalysisBroken("router model: drop %r" % (tag,))
        return self.sc.nbs[int(dst[1:])].slope_rep()

    def cmp_products(self, op, a, b):
        """drop_a * dist_b  <op>  drop_b * dist_a  (slopes compared by cross-multiplication).  In real
        arithmetic this is slope_a <op> slope_b; in floating point both products may overflow to +inf
        (huge finite elevations) or underflow to 0 (subnormal drops) although the two slopes are
        finite and different: a strict comparison is then false whatever the slopes, a non-strict
        one true.  Both outcomes are explored where they differ."""
        def parts(x):
            if isinstance(x, Sym) and x.kind == "dropdist":
                return x.tag
            if isinstance(x, (int, float)) and not isinstance(x, bool) and x == 0:
                return None
            raise AnalysisBroken("router model: product of a drop and a distance compared with %r" % (x,))
        pa, pb = parts(a), parts(b)
        if op not in ("<", "<=", ">", ">="):
            raise AnalysisBroken("router model: products compared with %s" % op)

        def val(p):
            """(slope representative, exact?) of one side"""
            if p is None:
                return 0.0, True
            d, f = p
            if d[0] == "const":
                return None, False
            exact = f[0] == "const" and f[1] == 1.0          # x * 1.0 is x
            return self.slope_of_drop(d), exact
        (sa, ea), (sb, eb) = val(pa), val(pb)
        if sa is None or sb is None:
            raise AnalysisBroken("router model: constant times a distance in a slope comparison")
        if pa is not None and pb is not None:
            # cross-multiplication: each side pairs a drop with the OTHER side's distance
            def dist_of(p):
                return p[1]

            def own_dist(p):
                d = p[0]
                return ("dist", "pn") if d == ("p", "pn") else ("dist", d[1])
            if not (dist_of(pa) == own_dist(pb) or dist_of(pa)[0] == "const") or \
                    not (dist_of(pb) == own_dist(pa) or dist_of(pb)[0] == "const"):
                raise AnalysisBroken("router model: products %r and %r are not a cross-multiplication" % (pa, pb))
        if sa == 0.0 and pa is not None:
            sa = DBL_MIN / 4      # (a strictly positive drop: its product is not the literal 0)
        if sb == 0.0 and pb is not None:
            sb = DBL_MIN / 4
        math_ = {"<": sa < sb, "<=": sa <= sb, ">": sa > sb, ">=": sa >= sb}[op]
        if (ea or pa is None) and (eb or pb is None):
            return math_
        degenerate = op in ("<=", ">=")       # inf <op> inf, 0 <op> 0
        if math_ == degenerate:
            return math_
        return None         # fork: the exact outcome and the overflow / underflow outcome

    def sym_binop(self, op, a, b):
        ak = a.kind if isinstance(a, Sym) else None
        bk = b.kind if isinstance(b, Sym) else None
        if op == "*" and {ak, bk} == {"drop", "dist"}:
            d, f = (a, b) if ak == "drop" else (b, a)
            return Sym("dropdist", (d.tag, ("dist", f.tag)), None)
        if op == "*" and "drop" in (ak, bk) and any(isinstance(x, (int, float)) and not isinstance(x, bool) and x > 0
                                                    for x in (a, b)):
            d, c = (a, b) if ak == "drop" else (b, a)
            return Sym("dropdist", (d.tag, ("const", float(c))), None)
        if op == "*" and "dist" in (ak, bk) and any(isinstance(x, (int, float)) and not isinstance(x, bool) and x == 0
                                                    for x in (a, b)):
            return 0.0
        if op == "-" and ak == "elev" and bk == "elev":
            # sign lemma: sign(a - b) = order(a, b), exact under gradual underflow
            return Sym("drop", (a.tag, b.tag), a.data - b.data)
        if op == "/" and ak == "drop" and bk == "dist" and a.tag == ("p", "pn") and b.tag == "pn":
            return Sym("slope", "pn", PREV_SLOPE)
        if op == "/" and ak == "drop" and bk == "dist":
            src, dst = a.tag
            n = self.sc.nbs[int(b.tag[1:])]
            if src != "c" or self.sc.nbs[int(dst[1:])].idx != n.idx:
                raise AnalysisBroken("router model: slope from mismatched drop/distance %r / %r" % (a, b))
            return Sym("slope", b.tag, n.slope_rep())
        if op == "pow" and ak == "slope":
            if a.data <= 0 and not (a.data == 0.0):
                raise AnalysisBroken("router model: pow of a non-positive slope")
            return Scaled("p", 0.0, INF, terms=[a.tag], desc="slope^p(%s)" % a.tag)
        if op == "pow" and isinstance(a, Scaled) and a.deg == 0:
            if a.one and a.lo == a.hi == 1.0:
                return Scaled(0, 1.0, 1.0, one=True, terms=list(a.terms), desc="1^p")   # pow(1, p) == 1
            if a.hi > 1.0:
                raise AnalysisBroken("router model: pow of a ratio that may exceed 1")
            return Scaled(0, 0.0, 1.0, one=False, terms=list(a.terms), desc="ratio^p")
        if op == "/" and ak == "slope" and bk == "slope":
            # ratio of two slopes of the same node: scale-free; exactly 1 when it is the same slope
            if b.data == 0.0:
                self.hazard("division of a slope by a slope that may be zero (%s / %s)" % (a.tag, b.tag))
                return Scaled("nan", 0.0, INF)
            r = a.data / b.data
            if r == 1.0:
                # x / x == 1 exactly (and equal computed slopes divide to exactly 1)
                return Scaled(0, 1.0, 1.0, one=True, terms=[a.tag], desc="%s/%s" % (a.tag, b.tag))
            if r < 1.0:
                return Scaled(0, 0.0, 1.0, one=False, terms=[a.tag], desc="%s/%s" % (a.tag, b.tag))
            return Scaled(0, 1.0, INF, one=False, terms=[a.tag], desc="%s/%s" % (a.tag, b.tag))
        for x in (a, b):
            if isinstance(x, Scaled) and x.deg == "nan":
                return x            # a hazard was already recorded on this path: NaN propagates
        if op == "/" and bk == "slope" and isinstance(a, (int, float)) and not isinstance(a, bool) and a > 0:
            # reciprocal of a slope: overflows to +inf when the slope is subnormal
            if b.data <= 0.0:
                self.hazard("reciprocal of a slope that may be zero (%s)" % (b.tag,))
                return Scaled("nan", 0.0, INF)
            if b.data <= DBL_MIN:
                self.hazard("reciprocal of a subnormal slope overflows to inf (1 / %s): the scaled weights "
                            "become inf / inf = NaN" % (b.tag,))
                return Scaled("nan", 0.0, INF)
            r = Scaled(-1, 0.0, INF, terms=[b.tag], desc="1/%s" % (b.tag,))
            r.recip = b
            return r
        if op == "*" and ((ak == "slope" and isinstance(b, Scaled) and b.deg == -1) or
                          (bk == "slope" and isinstance(a, Scaled) and a.deg == -1)):
            sl, rc = (a, b) if ak == "slope" else (b, a)
            den = getattr(rc, "recip", None)
            if den is None:
                raise AnalysisBroken("router model: product with an unknown reciprocal")
            # same classes as the quotient of the two slopes (x * (1/x) is 1 within one rounding: the
            # interval is kept closed at 1 but the `one` lemma is NOT available)
            r = sl.data / den.data
            if r <= 1.0:
                return Scaled(0, 0.0, 1.0, one=False, terms=[sl.tag], desc="%s*(1/%s)" % (sl.tag, den.tag))
            return Scaled(0, 1.0, INF, one=False, terms=[sl.tag], desc="%s*(1/%s)" % (sl.tag, den.tag))
        if op in ("+", "/") and (ak == "slope" or bk == "slope"):
            # raw slopes used as weights: quantities of unknown magnitude (degree 1)
            def raw(x):
                if isinstance(x, Sym) and x.kind == "slope":
                    return Scaled(1, 0.0, INF, terms=[x.tag], desc="slope(%s)" % (x.tag,))
                return x
            return self.scaled_arith(op, raw(a), raw(b))
        if isinstance(a, Scaled) or isinstance(b, Scaled):
            return self.scaled_arith(op, a, b)
        raise AnalysisBroken("router model: un-whitelisted operation %r %s %r" % (a, op, b))

    def hazard(self, text):
        self.violations.append(text)

    def scaled_arith(self, op, a, b):
        def lift(x):
            if isinstance(x, Scaled):
                return x
            if isinstance(x, (int, float)) and not isinstance(x, bool):
                return Scaled(0, float(x), float(x), one=(x == 1), desc=repr(x))
            raise AnalysisBroken("router model: weight arithmetic with %r" % (x,))
        a, b = lift(a), lift(b)
        if op == "+":
            if a.deg == 0 and a.lo == a.hi == 0.0:
                return Scaled(b.deg, b.lo, b.hi, b.one, list(b.terms), b.desc)
            if b.deg == 0 and b.lo == b.hi == 0.0:
                return Scaled(a.deg, a.lo, a.hi, a.one, list(a.terms), a.desc)
            if a.deg != b.deg:
                raise AnalysisBroken("router model: sum of differently scaled weights")
            one = a.one or b.one
            lo = a.lo + b.lo
            return Scaled(a.deg, lo, a.hi + b.hi, one, a.terms + b.terms, "sum")
        if op == "/":
            if b.hazard():
                f = getattr(b, "known", {})
                if not (f.get("nonzero") and f.get("finite")):
                    self.hazard("weights divided by a sum of slope^p terms that can underflow to 0 "
                                "or overflow to inf (0/0 or inf/inf = NaN): terms %s" % b.terms)
                return Scaled("norm", 0.0, 1.0, terms=[("norm", tuple(a.terms), tuple(b.terms), b)],
                              desc="w/sum")
            if b.lo <= 0.0:
                self.hazard("division by a scale-free quantity that may be 0")
            return Scaled("norm" if a.deg == 0 else a.deg, 0.0, INF,
                          terms=[("norm", tuple(a.terms), tuple(b.terms), b)], desc="w/sum")
        raise AnalysisBroken("router model: weight operation %s" % op)

    def on_decision(self, op, a, b, outcome):
        for x, y in ((a, b), (b, a)):
            if isinstance(x, Scaled) and isinstance(y, (int, float)) and y == 0:
                positive = (op in (">", "!=") and outcome) or (op in ("<=", "==") and not outcome)
                if x is a and op == ">" and outcome or x is a and op == "!=" and outcome \
                        or x is a and op == "==" and not outcome or x is a and op == "<=" and not outcome:
                    x.known = dict(getattr(x, "known", {}), nonzero=True)

    # ------------------------------------------------------------------ library model
    def member(self, it, fn, node, base, frame):
        n = node["n"]
        if isinstance(base, Sym) and base.kind == "graph_impl":
            if n in self.tables:
                return self.tables[n]
            raise AnalysisBroken("router model: graph member %s" % n)
        return NOT_HANDLED

    def before_call(self, it, fn, call, callee, frame):
        bn = callee.bn
        name = bn.split("::")[-1]
        args = call.get("a", [])
        if callee.cls == "fastscapelib::thread_pool":
            if name == "run_blocks":
                f = it.rv(it.eval(args[2], frame))
                lo = it.rv(it.eval(args[0], frame))
                hi = it.rv(it.eval(args[1], frame))
                if not isinstance(f, Closure):
                    raise AnalysisBroken("router model: run_blocks callable is not a closure")
                # one block covering the requested range (all nodes but the centre and its
                # neighbours are masked bystanders)
                if not (isinstance(lo, int) and isinstance(hi, int)):
                    raise AnalysisBroken("router model: run_blocks over an abstract range")
                it.call_closure(f, [0, lo, hi], call)
                return None
            return None
        if name == "is_masked":
            i = it.rv(it.eval(args[0], frame))
            if i == CENTRE:
                return self.sc.centre_masked
            n = self.nb_of(i)
            if i in (PREV, PREV_NB):
                return False
            if n is None:
                if isinstance(i, int) and 0 <= i < GRID_SIZE:
                    return True         # a bystander node (not the centre, not a neighbour): masked
                raise AnalysisBroken("router model: is_masked(%r)" % (i,))
            return n.masked
        if name == "is_base_level":
            i = it.rv(it.eval(args[0], frame))
            if i == CENTRE:
                return self.sc.centre_base
            if isinstance(i, int) and 0 <= i < GRID_SIZE:
                return False            # neighbours / bystanders are no base levels in the scenarios
            raise AnalysisBroken("router model: is_base_level(%r)" % (i,))
        if name == "base_levels" and callee.cls.endswith("flow_graph_impl"):
            return PyVec([CENTRE] if self.sc.centre_base else [])
        if name == "grid" and callee.cls.endswith("flow_graph_impl"):
            return self.grid
        if name == "nodes_indices":
            return PyVec([PREV, CENTRE])
        if name == "size":
            return GRID_SIZE
        if name == "neighbors":
            out = PyVec()
            who = it.rv(it.eval(args[0], frame)) if args else CENTRE
            if who == PREV:
                out.append(Obj("fastscapelib::neighbor", {"idx": PREV_NB, "distance": Sym("dist", "pn"), "status": 0}))
                return out_param(it, frame, args, 1, out)
            if who != CENTRE:
                return out_param(it, frame, args, 1, out)      # the neighbourhood of any other node is outside the scenario: none
            for n in self.sc.nbs:
                out.append(Obj("fastscapelib::neighbor", {"idx": n.idx, "distance": Sym("dist", "n%d" % n.k),
                                                           "status": 0}))
            return out_param(it, frame, args, 1, out)
        if name in ("compute_dfs_indices_bottomup", "compute_dfs_indices_topdown",
                    "compute_bfs_indices_bottomup", "compute_donors"):
            self.skipped_calls.append(name)
            return None
        if name == "threads_count":
            return NOT_HANDLED
        return NOT_HANDLED

    def address_of(self, it, ref):
        from ..interp import Iter
        if isinstance(ref, ElemRef) and isinstance(ref.c, Table) and ref.c.ncols and isinstance(ref.k, tuple) \
                and len(ref.k) == 2 and all(isinstance(x, int) for x in ref.k):
            rm = getattr(ref.c, "_rowmajor", None)
            if rm is None:
                rm = ref.c._rowmajor = RowMajor(ref.c)
            return Iter(rm, ref.k[0] * ref.c.ncols + ref.k[1], 1)
        return NOT_HANDLED

    def external(self, it, fn, call, frame):
        bn = call.get("bn", "")
        name = bn.split("::")[-1]
        args = call.get("a", [])
        obj = call.get("obj")
        if bn in ("xt::col",):
            t = it.rv(it.eval(args[0], frame))
            c = it.rv(it.eval(args[1], frame))
            if isinstance(t, Table):
                return ColView(t, c)
        if bn in ("xt::view", "xt::row") and args:
            t = it.rv(it.eval(args[0], frame))
            if isinstance(t, Table) and t.ncols:
                sel = [strip(a) for a in args[1:]]
                row = it.rv(it.eval(sel[0], frame)) if sel else None
                lo, hi = 0, t.ncols
                ok = isinstance(row, int) and not isinstance(row, bool)
                if len(sel) == 2:
                    r = sel[1]
                    while isinstance(r, dict) and r.get("k") == "construct" and len(r.get("a", [])) == 1:
                        r = strip(r["a"][0])
                    if isinstance(r, dict) and r.get("k") == "call" and r.get("bn") == "xt::range" and len(r.get("a", [])) == 2:
                        lo = it.rv(it.eval(r["a"][0], frame))
                        hi = it.rv(it.eval(r["a"][1], frame))
                        ok = ok and all(isinstance(x, int) and not isinstance(x, bool) for x in (lo, hi))
                    elif isinstance(r, dict) and r.get("k") == "call" and r.get("bn") == "xt::all":
                        pass
                    else:
                        ok = False
                elif len(sel) > 2:
                    ok = False
                if ok:
                    if lo < 0 or hi > t.ncols or lo > hi:
                        from ..interp import OutOfRange
                        raise OutOfRange("router model: view of columns %d..%d of %s (%d columns)" % (lo, hi, t.name, t.ncols))
                    return RowView(t, row, lo, hi)
        if bn == "std::fill_n" and len(args) == 3:
            a0 = it.rv(it.eval(args[0], frame))
            if isinstance(a0, FlatIter):
                cnt = it.rv(it.eval(args[1], frame))
                v = it.rv(it.eval(args[2], frame))
                if not isinstance(cnt, int):
                    raise AnalysisBroken("router model: fill_n over an abstract count")
                t = a0.table
                for k in range(a0.pos, a0.pos + cnt):
                    key = divmod(k, t.ncols) if t.ncols else (k,)
                    t.cells[tuple(key) if t.ncols else key] = v
                return FlatIter(t, a0.pos + cnt)
        if bn == "std::isfinite":
            v = it.rv(it.eval(args[0], frame))
            if isinstance(v, Scaled):
                d = it.decide(call)
                if d:
                    v.known = dict(getattr(v, "known", {}), finite=True)
                return d
            return NOT_HANDLED
        if obj is not None:
            o = it.rv(it.eval(obj, frame))
            if isinstance(o, FlatStorage) and name in ("begin", "cbegin", "data"):
                return FlatIter(o.table, 0)
            if isinstance(o, Table):
                if name in ("storage", "data") and not args:
                    # the flat row-major buffer behind the table
                    return FlatStorage(o) if name == "storage" else FlatIter(o, 0)
                if name in ("operator()", "operator[]", "flat", "at"):
                    key = tuple(it.rv(it.eval(a, frame)) for a in args)
                    if not all(isinstance(k, int) for k in key):
                        raise AnalysisBroken("router model: abstract table index %r in %s" % (key, o.name))
                    return ElemRef(o, key)
                if name == "fill":
                    o.fills.append((None, it.rv(it.eval(args[0], frame))))
                    o.cells.clear()
                    return None
            if isinstance(o, RowView) and (name == "fill" or call.get("op") in ("=", "/=", "*=", "+=", "-=")) and len(args) == 1:
                v = it.rv(it.eval(args[0], frame))
                if isinstance(v, (RowView, ColView, Table, list)):
                    raise AnalysisBroken("router model: array operand of a row view")
                op_ = "=" if name == "fill" else call["op"]
                for j in range(o.lo, o.hi):
                    o.table[(o.row, j)] = v if op_ == "=" else it.arith(op_[0], o.table.get((o.row, j)), v)
                return it.eval(obj, frame)
            if isinstance(o, ColView) and name == "fill":
                o.table.fills.append((o.col, it.rv(it.eval(args[0], frame))))
                for k in [k for k in o.table.cells if len(k) > 1 and k[1] == o.col]:
                    del o.table.cells[k]
                return None
            if isinstance(o, Sym) and o.kind == "elevarray" and name in ("flat", "operator()", "operator[]"):
                i = it.rv(it.eval(args[0], frame))
                return self.elev_of(i)
            if isinstance(o, Sym) and o.kind == "pool":
                return None
            if isinstance(o, Obj) and bn.startswith("std::shared_ptr") or bn.startswith("std::__shared_ptr"):
                return NOT_HANDLED
        return NOT_HANDLED

    def range_iter(self, it, fn, node, value, frame):
        return NOT_HANDLED


def make_impl(it, apply_fn, op_obj):
    """the operator implementation object, built by the library's own constructor"""
    unit = apply_fn.unit
    rec = unit.rec_by_type.get(apply_fn.d.get("clst"))
    ctors = [f for f in unit.fns.values() if f.is_ctor and f.d.get("clst") == apply_fn.d.get("clst")
             and len(f.params) == 1]
    if rec is None or not ctors:
        return Obj(apply_fn.cls, {"m_op_ptr": op_obj})
    this = it.new_obj(apply_fn, rec)
    it.call_fn(ctors[0], this, [op_obj])
    if not isinstance(this.fields.get("m_op_ptr"), Obj):
        this.fields["m_op_ptr"] = op_obj
    return this


def run_router(apply_fn, sc, op_obj, world_cls=RouterWorld):
    """interpret <impl>::apply(graph_impl, elevation, pool) on one scenario; returns the list of
    final worlds, one per decision sequence (forks happen on undetermined comparisons)"""
    from ..interp import explore
    import copy as _copy

    def run(dec):
        w = world_cls(sc)
        it = Interp(w, dec)
        orig = it.compare

        def compare(op, a, b, node=None, _orig=orig):
            before = len(it.made)
            r = _orig(op, a, b, node)
            if len(it.made) > before:
                w.on_decision(op, it.rv(a), it.rv(b), r)
            return r
        it.compare = compare
        this = make_impl(it, apply_fn, _copy.deepcopy(op_obj))
        try:
            it.call_fn(apply_fn, this, [w.graph, w.elev, w.pool])
            w.threw = None
        except ThrowEx as ex:
            w.threw = ex.text
        return it, w
    return [w for made, w in explore(run, max_paths=64)]
