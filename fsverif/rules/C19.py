"""C19 — basin labels partition the graph by outlet (narrow claim).

C19-L1 (A5, flag domain, exhaustive over bottom-up sequences of <= 4 nodes): compute_basins gives
        every masked node the reserved maximum label and no outlet; every unmasked own-receiver
        node a new label (numbered consecutively from 0 in bottom-up order) and appends it to the
        outlets; every other node the current label.  The outlets list is reset first (A4) and
        pits() keeps exactly the outlets that are not base levels.
C19-L2 (A2) every read of basins / outlets inside the library (MST resolver, basin graph,
        flow_graph::basins) is preceded, in the same public call, by compute_basins() with no
        write to the receivers in between.
Not decided: "same label as its receiver" on arbitrary graphs (needs the bottom-up order property:
each root immediately followed by its subtree, C06).
"""
import itertools

from ..interp import Interp, World, Obj, PyVec, ThrowEx, NOT_HANDLED, ElemRef
from ..effects import Effects, fields_of
from ..flow import Walker
from ..sir import pp, strip, walk, AnalysisBroken
from .. import model
from .routers import Table
from . import persist

UNITS = ["raster_queen", "profile", "trimesh"]
MAXLABEL = (1 << 64) - 1


class BasinWorld(World):
    def __init__(self, order, masked, base):
        self.order = order
        self.masked = masked
        self.base = base

    def before_call(self, it, fn, call, callee, frame):
        name = callee.bn.split("::")[-1]
        args = call.get("a", [])
        if name == "nodes_indices_bottomup":
            return PyVec(list(self.order))
        if name == "size":
            return len(self.order)
        if name == "is_masked":
            return self.masked[it.rv(it.eval(args[0], frame))]
        if name == "is_base_level":
            return it.rv(it.eval(args[0], frame)) in self.base
        return NOT_HANDLED

    def external(self, it, fn, call, frame):
        name = call.get("bn", "").split("::")[-1]
        obj = call.get("obj")
        if obj is not None:
            o = it.rv(it.eval(obj, frame))
            if isinstance(o, Table) and name in ("operator()", "flat", "operator[]", "at"):
                key = tuple(it.rv(it.eval(a, frame)) for a in call.get("a", []))
                return ElemRef(o, key)
            if isinstance(o, frozenset):        # the base-level set
                if name == "size":
                    return len(o)
                if name == "empty":
                    return len(o) == 0
                if name == "count":
                    return 1 if it.rv(it.eval(call["a"][0], frame)) in o else 0
        return NOT_HANDLED


def run(db, chk):
    eff = Effects(db)
    nmax = 4 if chk.tier == "thorough" else 3
    chk.explanation = (
        "Exhaustive abstract interpretation (flag domain) of compute_basins and pits over every "
        "bottom-up sequence of up to %d nodes with (masked, own-receiver, base-level) flags; "
        "must-kill analysis of the outlets list; must-precede analysis of the freshness of "
        "basins / outlets where the library reads them." % nmax)
    chk.not_decided = ["'same label as its receiver' on arbitrary graphs (follows from the "
                       "bottom-up order property, C06, which is not decided)"]
    chk.rule("C19-L1", "labels / outlets / pits computed by compute_basins and pits equal the "
             "specification on every abstract bottom-up sequence; outlets are reset first",
             min_instances=50)
    chk.rule("C19-L2", "library-internal readers of basins / outlets call compute_basins() first "
             "(no receivers write in between)", min_instances=2)
    n_sc = 0
    for uname in UNITS:
        if uname not in db.units:
            continue
        cb = db.fns(unit=uname, pred=lambda f: f.cls == model.GRAPH_IMPL and f.name == "compute_basins")
        pt = db.fns(unit=uname, pred=lambda f: f.cls == model.GRAPH_IMPL and f.name == "pits")
        if not cb or not pt:
            raise AnalysisBroken("compute_basins / pits not instantiated in %s" % uname)
        cb, pt = cb[0], pt[0]
        nbad = 0
        for n in range(1, nmax + 1):
            # flags per node: (masked, own_receiver, base_level); masked nodes are own receivers
            opts = [(True, True, False), (True, True, True), (False, True, False), (False, True, True),
                    (False, False, False)]
            for combo in itertools.product(opts, repeat=n):
                unm = [c for c in combo if not c[0]]
                if unm and not unm[0][1]:
                    continue     # not a bottom-up order: the first unmasked node must be a root
                n_sc += 1
                order = list(range(n - 1, -1, -1))   # storage ids 0..n-1, bottom-up order reversed
                masked = {order[i]: combo[i][0] for i in range(n)}
                base = {order[i] for i in range(n) if combo[i][2]}
                rec = Table("m_receivers")
                for i in range(n):
                    rec[(order[i], 0)] = order[i] if combo[i][1] else order[0]
                basins = Table("m_basins")
                this = Obj(model.GRAPH_IMPL, {"m_outlets": PyVec([777, 778]), "m_pits": PyVec([779]),
                                               "m_basins": basins, "m_receivers": rec,
                                               "m_base_levels": frozenset(base), "m_mask_initialized": any(masked.values())})
                w = BasinWorld(order, masked, base)
                it = Interp(w)
                # members the model does not name start from their in-class initialiser (a freshly
                # constructed graph): e.g. flags guarding a cached result
                grec = [r for r in cb.unit.records if r["bn"] == model.GRAPH_IMPL]
                for fld in (grec[0]["fields"] if grec else []):
                    if fld["n"] not in this.fields and fld.get("init") is not None:
                        from ..interp import Frame
                        try:
                            this.fields[fld["n"]] = it.rv(it.eval(fld["init"], Frame(cb, this)))
                        except AnalysisBroken:
                            pass
                bad = []
                try:
                    it.call_fn(cb, this, [])
                    pits = it.rv(it.call_fn(pt, this, []))
                except ThrowEx as ex:
                    bad.append("threw: %s" % ex.text[:80])
                    pits = None
                if not bad:
                    want_out, want_lab = [], {}
                    cur = None
                    for i in range(n):
                        if combo[i][0]:
                            want_lab[order[i]] = MAXLABEL
                            continue
                        if combo[i][1]:
                            want_out.append(order[i])
                            cur = len(want_out) - 1
                        want_lab[order[i]] = cur
                    got_out = list(this.fields["m_outlets"])
                    got_lab = {k[0]: v for k, v in basins.cells.items()}
                    if got_out != want_out:
                        bad.append("outlets %r, expected %r" % (got_out, want_out))
                    if got_lab != want_lab:
                        bad.append("labels %r, expected %r" % (got_lab, want_lab))
                    want_pits = [o for o in want_out if o not in base]
                    if list(pits or []) != want_pits:
                        bad.append("pits %r, expected %r" % (list(pits or []), want_pits))
                if bad:
                    nbad += 1
                if not bad or nbad <= 5:
                    chk.ob("C19-L1", "[%s] bottom-up sequence %s" % (uname, ["%s%s%s" % (
                        "M" if c[0] else "", "R" if c[1] else "-", "B" if c[2] else "") for c in combo]),
                        not bad, where=cb.ploc, function=cb.bn, construct="labelling",
                        detail="; ".join(bad[:2]), sample=(n_sc % 29 == 1), extra={"unit": uname})
        # outlets reset first (A4)
        for fn, member in ((cb, "m_outlets"), (pt, "m_pits")):
            kw = persist.KillWalk(eff, lambda key, m=member: key == (("this",), ("f", m)))
            kw.stack.append(fn.key)
            kw.run_fn(fn, {("this",): {(("this",),)}}, frozenset())
            key = (("this",), ("f", member))
            ok = key in kw.touched and "kill" in kw.touched[key] and key not in kw.findings
            chk.ob("C19-L1", "[%s] %s resets %s before appending" % (uname, fn.name, member), ok,
                   where=(kw.findings.get(key) or (fn.ploc,))[0], function=fn.bn,
                   construct="reset(%s)" % member,
                   detail="" if ok else "entries of a previous call survive", extra={"unit": uname})

        # ---------------------------------------------------------------- L2
        readers = [f for f in db.fns(unit=uname) if
                   (f.cls == model.FLOW_GRAPH and f.name == "basins") or
                   (f.cls == model.IMPL and f.name == "apply" and model.impl_operator(f) == "fastscapelib::mst_sink_resolver")]
        if len(readers) < 2:
            raise AnalysisBroken("C19-L2: readers of basins not found in %s" % uname)
        for fn in readers:
            sites = []

            class W(Walker):
                def visit(self, node, st):
                    if node.get("k") == "call" and node.get("fid") is not None:
                        cal = fn.callee(node)
                        if cal is None:
                            return st
                        if cal.name == "compute_basins":
                            return st.add("ev", "fresh")
                        s = eff.summary(cal)
                        rd = {fields_of(p)[-1] for p in s.reads() | s.ret if fields_of(p)}
                        wr = {fields_of(p)[-1] for (k, p, h) in s.effects if k == "w" and fields_of(p)}
                        if rd & {"m_basins", "m_outlets"}:
                            sites.append((node, cal.name, st.has("ev", "fresh")))
                        if "m_receivers" in wr:
                            st = st.remove("ev", lambda x: x == "fresh")
                    return st
            W(fn).run()
            if not sites:
                raise AnalysisBroken("C19-L2: %s does not read basins / outlets any more" % fn.bn)
            for node, name, ok in sites:
                chk.ob("C19-L2", "[%s] %s: %s() reads basins / outlets after compute_basins()"
                       % (uname, fn.name, name), ok, where=fn.loc(node), function=fn.bn,
                       construct="fresh-basins(%s)" % name,
                       detail="" if ok else "labels of a previous routing state are used",
                       extra={"unit": uname})
    chk.absorb(db, "C06", {"C06-F1"}, "C19-L3", "the bottom-up order the labels are propagated along is rebuilt "
               "whenever receivers change (shared with C06-F1)", min_instances=9)
    chk.absorb(db, "C09", {"C09-P2"}, "C19-L4", "the base levels `pits()` tests against are exactly those last set "
               "(shared with C09-P2)", pred=lambda o: "set_base_levels" in o["instance"], min_instances=3)
    chk.absorb(db, "C16", {"C16-T1"}, "C19-L5", "every member compute_basins reads is carried into graph snapshots "
               "(shared with C16-T1): labels of a snapshot follow the snapshot's own receivers",
               pred=lambda o: "compute_basins" in o["instance"], min_instances=3)
    chk.absorb(db, "C04", {"C04-S1"}, "C19-L6", "no unmasked node is routed into a masked neighbour and masked nodes keep "
               "themselves as receiver (shared with C04-S1): a node's label is its receiver's, and masked nodes carry the "
               "reserved label", pred=lambda o: "masked" in o["instance"], min_instances=50)
    chk.count_scenarios(n_sc, True)
