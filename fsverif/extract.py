"""Runs the fsx extractor over the instantiation drivers (in parallel) against the CURRENT working
tree of the repository and returns a sir.DB.  A content-keyed cache avoids re-extraction while
neither the library sources, nor the drivers, nor the tool change."""
import hashlib
import os
import shutil
import subprocess
import sys
import time
from concurrent.futures import ThreadPoolExecutor

from .sir import DB, AnalysisBroken

VERIF = os.path.dirname(os.path.dirname(os.path.abspath(__file__)))
REPO = os.environ.get("FSVERIF_REPO", "/repo")
CACHE = os.environ.get("FSVERIF_CACHE", os.path.join(VERIF, ".cache"))
FSX = os.path.join(VERIF, "bin", "fsx")
DRIVERS = os.path.join(VERIF, "drivers")

ALL_UNITS = ["raster_queen", "raster_rook", "raster_bishop", "raster_nocache", "profile",
             "profile_nocache", "trimesh"]
FLAGS = ["-std=gnu++17", "-UNDEBUG", "-w"]


def _hash_tree():
    h = hashlib.sha256()
    roots = [os.path.join(REPO, "include", "fastscapelib"), DRIVERS,
             os.path.join(VERIF, "tool", "fsx.cc")]
    for root in roots:
        if os.path.isfile(root):
            h.update(root.encode())
            with open(root, "rb") as f:
                h.update(f.read())
            continue
        for dp, dn, fns in sorted(os.walk(root)):
            dn.sort()
            for fn in sorted(fns):
                p = os.path.join(dp, fn)
                h.update(os.path.relpath(p, root).encode())
                with open(p, "rb") as f:
                    h.update(f.read())
    h.update(" ".join(FLAGS).encode())
    h.update(REPO.encode())
    return h.hexdigest()[:24]


def ensure_tool():
    src = os.path.join(VERIF, "tool", "fsx.cc")
    if not os.path.exists(FSX) or os.path.getmtime(FSX) < os.path.getmtime(src):
        r = subprocess.run([os.path.join(VERIF, "tool", "build.sh"), "-f"], capture_output=True,
                           text=True)
        if r.returncode != 0 or not os.path.exists(FSX):
            raise AnalysisBroken("cannot build fsx: " + r.stderr[-2000:])


def _run_one(unit, outdir):
    out = os.path.join(outdir, unit + ".json")
    if os.path.exists(out):
        return unit, out, 0.0, ""
    tmp = out + ".tmp.%d" % os.getpid()
    t0 = time.time()
    cmd = [FSX, os.path.join(DRIVERS, "d_%s.cpp" % unit), "-o", tmp, "--",
           "-I" + os.path.join(REPO, "include")] + FLAGS
    r = subprocess.run(cmd, capture_output=True, text=True)
    if r.returncode != 0 or not os.path.exists(tmp):
        if os.path.exists(tmp):
            os.unlink(tmp)
        return unit, None, time.time() - t0, (r.stderr or r.stdout)[-4000:]
    os.replace(tmp, out)
    return unit, out, time.time() - t0, ""


def _prune_cache(keep):
    try:
        ents = [os.path.join(CACHE, d) for d in os.listdir(CACHE)]
        ents = [e for e in ents if os.path.isdir(e) and os.path.basename(e) != keep]
        ents.sort(key=os.path.getmtime, reverse=True)
        for e in ents[3:]:
            shutil.rmtree(e, ignore_errors=True)
    except OSError:
        pass


def load(units=None, quiet=False):
    """extract (or reuse) SIR for the given units and return (DB, info)"""
    units = list(units or ALL_UNITS)
    ensure_tool()
    key = _hash_tree()
    outdir = os.path.join(CACHE, key)
    os.makedirs(outdir, exist_ok=True)
    os.utime(outdir, None)
    t0 = time.time()
    paths = {}
    errs = []
    with ThreadPoolExecutor(max_workers=min(len(units), os.cpu_count() or 4)) as ex:
        for unit, out, dt, err in ex.map(lambda u: _run_one(u, outdir), units):
            if out is None:
                errs.append("unit %s: fsx failed:\n%s" % (unit, err))
            else:
                paths[unit] = out
    if errs:
        raise AnalysisBroken("extraction failed (the tree does not compile for the drivers?)\n"
                             + "\n".join(errs))
    _prune_cache(key)
    db = DB(paths)
    info = {"units": units, "cache_key": key, "extract_wall_s": round(time.time() - t0, 2),
            "repo": REPO, "functions": db.n_functions(),
            # normalisations applied to the serialised program before any rule looked at it
            "renamed_members_mapped_back": sorted({r for u in db.units.values() for r in u.renames}),
            "canonicalised_loops": sorted({"%s %s at %s" % (k, bn.split("::")[-1], loc)
                                           for u in db.units.values() for (bn, k, loc) in u.canon})}
    if not quiet:
        sys.stderr.write("[fsverif] SIR: %d units, %d functions (%.1fs, key %s)\n"
                         % (len(units), db.n_functions(), info["extract_wall_s"], key))
    return db, info


def repo_file(rel):
    return os.path.join(REPO, rel)
