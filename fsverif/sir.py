"""SIR loader: the resolved, instantiated program as serialised by bin/fsx (DESIGN.md §3.1).

A `DB` holds one `Unit` per instantiation driver.  Functions are wrapped in `Fn`.  Everything else
stays plain dicts (nodes have a kind "k"); helpers below give locations, pretty printing and
generic traversal.
"""
import json
import os


class AnalysisBroken(Exception):
    """The analysis cannot give a verdict (anchor vanished, unknown construct, ...): exit 2."""


class Unit:
    def __init__(self, name, path):
        self.name = name
        with open(path) as f:
            d = json.load(f)
        self.files = d["files"]
        self.types = d["types"]
        self.records = d["records"]
        self.patterns = d["patterns"]
        self.fns = {}
        for fd in d["functions"]:
            fn = Fn(self, fd)
            self.fns[fn.fid] = fn
        self.rec_by_type = RecIndex(self)
        self.renames = []
        if not os.environ.get("FSVERIF_NO_RENAME"):
            apply_renames(self)
        from .canon import canon_unit
        self.canon = canon_unit(self)

    def loc(self, l):
        if not l:
            return "?"
        return "%s:%d" % (self.files[l[0]], l[1])

    def type(self, t):
        if t is None or t < 0:
            return "?"
        return self.types[t]


_SCHEMA = None


def _schema():
    global _SCHEMA
    if _SCHEMA is None:
        p = os.path.join(os.path.dirname(os.path.dirname(os.path.abspath(__file__))), "anchor_schema.json")
        try:
            with open(p) as f:
                _SCHEMA = json.load(f).get("units", {})
        except (OSError, ValueError):
            _SCHEMA = {}
    return _SCHEMA


def _is_lib(name):
    return (name or "").startswith("fastscapelib")


def schema_of(unit):
    """names the rule modules may anchor on: fields per record type, method signatures per class"""
    recs = {}
    for r in unit.records:
        if _is_lib(r.get("bn")):
            recs[unit.types[r["t"]]] = [[f["n"], unit.types[f["t"]]] for f in r["fields"]]
    methods = {}
    for fn in unit.fns.values():
        if fn.is_lambda or fn.is_ctor or not _is_lib(fn.cls):
            continue
        sig = [[unit.type(p["t"]) for p in fn.params], unit.type(fn.d.get("rt")), bool(fn.is_const)]
        methods.setdefault(fn.clstype() if fn.d.get("clst") is not None else fn.cls, {}).setdefault(fn.name, []).append(sig)
    for c in methods.values():
        for k in c:
            c[k] = sorted(c[k], key=repr)
    return {"records": recs, "methods": methods}


def apply_renames(unit):
    """map renamed private members / methods back to the names recorded in anchor_schema.json when the
    match is unambiguous (same record, same type or signature multiset, exactly one candidate)"""
    ref = _schema().get(unit.name)
    if not ref:
        return
    cur = schema_of(unit)
    fmap = {}      # (plain class name, new field name) -> old
    for ts, fields in cur["records"].items():
        old_fields = ref["records"].get(ts)
        if old_fields is None:
            continue
        old_names = {n for n, _ in old_fields}
        new_names = {n for n, _ in fields}
        missing = [(n, t) for n, t in old_fields if n not in new_names]
        added = [(n, t) for n, t in fields if n not in old_names]
        rec = unit.rec_by_type.by_str.get(ts)
        for (on, ot) in missing:
            cands = [n for n, t in added if t == ot]
            rivals = [n for n, t in missing if t == ot]
            if len(cands) == 1 and len(rivals) == 1 and rec is not None:
                fmap[(rec["bn"], cands[0])] = on
                for f in rec["fields"]:
                    if f["n"] == cands[0]:
                        f["n"] = on
                unit.renames.append("%s::%s (was %s)" % (rec["bn"], cands[0], on))
    mmap = {}      # (class type string, new method name) -> old
    for cls, meths in cur["methods"].items():
        old_m = ref["methods"].get(cls)
        if old_m is None:
            continue
        missing = [n for n in old_m if n not in meths]
        added = [n for n in meths if n not in old_m]
        for on in missing:
            cands = [n for n in added if meths[n] == old_m[on]]
            rivals = [n for n in missing if old_m[n] == old_m[on]]
            if len(cands) == 1 and len(rivals) == 1:
                mmap[(cls, cands[0])] = on
    fid_new_bn = {}
    for fn in unit.fns.values():
        if fn.is_lambda or fn.is_ctor:
            continue
        cls = fn.clstype() if fn.d.get("clst") is not None else fn.cls
        on = mmap.get((cls, fn.name))
        if on is not None:
            new = fn.name
            fn.bn = fn.bn[: len(fn.bn) - len(new)] + on if fn.bn.endswith("::" + new) else fn.bn
            fn.qn = fn.qn.replace("::" + new, "::" + on) if isinstance(fn.qn, str) else fn.qn
            fn.name = on
            fn.d["n"], fn.d["bn"] = on, fn.bn
            fid_new_bn[fn.fid] = fn.bn
            unit.renames.append("%s::%s (was %s)" % (fn.cls, new, on))
    if not fmap and not fid_new_bn:
        return
    unit.renames = sorted(set(unit.renames))
    for fn in unit.fns.values():
        for ini in fn.d.get("inits", []) or []:
            if fn.cls and (fn.cls, ini.get("field")) in fmap:
                ini["field"] = fmap[(fn.cls, ini["field"])]
        stack = [fn.body] + [i.get("init") for i in (fn.d.get("inits") or [])]
        while stack:
            n = stack.pop()
            if isinstance(n, dict):
                if n.get("k") == "member" and n.get("mk") == "field":
                    on = fmap.get((n.get("cls"), n.get("n")))
                    if on is not None:
                        n["n"] = on
                if n.get("k") == "call" and n.get("fid") in fid_new_bn:
                    n["bn"] = fid_new_bn[n["fid"]]
                stack.extend(n.values())
            elif isinstance(n, list):
                stack.extend(n)
        # lambdas are named after their enclosing function
        if fn.is_lambda:
            for fid, bn in fid_new_bn.items():
                pass


class RecIndex:
    """records by type id, tolerant of cv-qualification of the queried type"""

    def __init__(self, unit):
        self.unit = unit
        self.by_id = {r["t"]: r for r in unit.records}
        self.by_str = {unit.types[r["t"]]: r for r in unit.records}

    def get(self, t, default=None):
        if t is None:
            return default
        r = self.by_id.get(t)
        if r is not None:
            return r
        if isinstance(t, int) and 0 <= t < len(self.unit.types):
            ts = self.unit.types[t]
            for pre in ("const volatile ", "const ", "volatile "):
                if ts.startswith(pre):
                    ts = ts[len(pre):]
            return self.by_str.get(ts, default)
        return default


class Fn:
    def __init__(self, unit, d):
        self.unit = unit
        self.d = d
        self.fid = d["fid"]
        self.bn = d["bn"]
        self.qn = d["qn"]
        self.name = d["n"]
        self.cls = d.get("cls")
        self.body = d.get("body")
        self.params = d.get("params", [])
        self.key = (unit.name, self.fid)
        self.ploc = unit.loc(d.get("ploc"))
        self.is_lambda = bool(d.get("lambda"))
        self.is_const = bool(d.get("const"))
        self.is_ctor = bool(d.get("ctor"))
        self.acc = d.get("acc")

    def loc(self, node):
        return self.unit.loc(node.get("l")) if isinstance(node, dict) else "?"

    def type(self, t):
        return self.unit.type(t)

    def clstype(self):
        return self.unit.type(self.d.get("clst"))

    def callee(self, call):
        fid = call.get("fid")
        if fid is None:
            return None
        return self.unit.fns.get(fid)

    def __repr__(self):
        return "<Fn %s %s@%s>" % (self.unit.name, self.bn, self.ploc)


class DB:
    def __init__(self, unit_paths):
        self.units = {}
        for name, path in unit_paths.items():
            self.units[name] = Unit(name, path)
        self.by_bn = {}
        for u in self.units.values():
            for fn in u.fns.values():
                self.by_bn.setdefault(fn.bn, []).append(fn)

    def fns(self, bn=None, unit=None, pred=None):
        if bn is not None:
            cands = self.by_bn.get(bn, [])
        else:
            cands = [f for u in self.units.values() for f in u.fns.values()]
        out = []
        for f in cands:
            if unit is not None and f.unit.name != unit:
                continue
            if pred is not None and not pred(f):
                continue
            out.append(f)
        return out

    def all_fns(self):
        for u in self.units.values():
            for f in u.fns.values():
                yield f

    def n_functions(self):
        return sum(len(u.fns) for u in self.units.values())

    def records(self, bn):
        out = []
        for u in self.units.values():
            for r in u.records:
                if r["bn"] == bn:
                    out.append((u, r))
        return out

    def pattern_coverage(self):
        """patterns (file:line of a function definition in the library) -> instantiated?"""
        pats = {}
        inst = set()
        for u in self.units.values():
            for p in u.patterns:
                pats[u.loc(p["ploc"])] = p["bn"]
            for f in u.fns.values():
                inst.add(f.ploc)
        return pats, inst


# ------------------------------------------------------------------------------------ traversal

CHILD_KEYS = ("obj", "ce", "a", "b", "e", "lhs", "rhs", "c", "then", "else", "init", "inc", "body",
              "range", "var", "vars", "caps", "i", "be", "handlers", "cvar", "v", "bindings",
              "inits", "hv")


def children(node):
    for k in CHILD_KEYS:
        v = node.get(k)
        if v is None:
            continue
        if isinstance(v, dict):
            yield v
        elif isinstance(v, list):
            for x in v:
                if isinstance(x, dict):
                    yield x


def walk(node):
    """pre-order over all dict nodes below `node` (inclusive)"""
    if node is None:
        return
    stack = [node]
    while stack:
        n = stack.pop()
        yield n
        ch = list(children(n))
        ch.reverse()
        stack.extend(ch)


def calls(node, bn=None):
    for n in walk(node):
        if n.get("k") == "call" and (bn is None or n.get("bn") == bn):
            yield n


def strip(e):
    """peel casts"""
    while isinstance(e, dict) and e.get("k") == "cast":
        e = e["e"]
    return e


def local_init(fn, d):
    """initialiser of the local variable with declaration id d, if the variable is never written
    afterwards (a named constant / alias); else None"""
    init = None
    for n in walk(fn.body):
        if "d" in n and "k" not in n and n.get("d") == d:
            init = n.get("init")
        if n.get("k") == "binop" and n.get("op") in ("=", "+=", "-=", "*=", "/=", "|=", "&=", "^=", "%="):
            l = strip(n["lhs"])
            if l.get("k") == "ref" and l.get("d") == d:
                return None
        if n.get("k") == "unop" and n.get("op") in ("++", "--", "pre++", "pre--", "post++", "post--"):
            o = strip(n.get("e") or {})
            if o.get("k") == "ref" and o.get("d") == d:
                return None
    return init


def resolve_alias(fn, e, depth=0):
    """follow references to never-reassigned locals to their initialiser (bounded)"""
    e = strip(e)
    while depth < 4 and e.get("k") == "ref" and e.get("rk") in ("local", "slocal") and e.get("d") is not None:
        ini = local_init(fn, e["d"])
        if ini is None:
            break
        e = strip(ini)
        depth += 1
    return e


def const_value(e):
    """constant value attached by clang's evaluator, or None"""
    if e is None:
        return None
    if "cv" in e:
        return e["cv"]
    if "cvs" in e:
        return int(e["cvs"])
    if "cvf" in e:
        return float(e["cvf"])
    return None


def has_const(e):
    return e is not None and ("cv" in e or "cvs" in e or "cvf" in e)


# ------------------------------------------------------------------------------------ printing

def pp(e, depth=0):
    """C++-like canonical rendering of an expression (used in reports and as fact keys)"""
    if e is None:
        return ""
    if depth > 40:
        return "..."
    k = e.get("k")
    d = depth + 1
    if k == "cast":
        if e.get("impl"):
            return pp(e["e"], d)
        return "cast(%s)" % pp(e["e"], d)
    if k == "lit":
        if "s" in e:
            return json.dumps(e["s"])
        if e.get("null"):
            return "nullptr"
        v = const_value(e)
        if "cen" in e:
            return e["cen"]
        if v is True:
            return "true"
        if v is False:
            return "false"
        if v is None:
            return "0" if e.get("zero") else "<lit>"
        return repr(v)
    if k == "this":
        return "this"
    if k == "ref":
        if e.get("rk") == "enum":
            return e.get("cen", e["n"])
        return e["n"]
    if k == "member":
        b = pp(e["b"], d)
        if b == "this":
            return "this->" + e["n"]
        return b + ("->" if e.get("arrow") else ".") + e["n"]
    if k == "call":
        args = ", ".join(pp(a, d) for a in e.get("a", []))
        op = e.get("op")
        obj = e.get("obj")
        if op is not None:
            if obj is not None:
                o = pp(obj, d)
                if op == "()":
                    return "%s(%s)" % (o, args)
                if op == "[]":
                    return "%s[%s]" % (o, args)
                if op in ("*", "->", "!", "~", "++", "--", "-") and not e.get("a"):
                    return "%s%s" % (op, o)
                if op in ("++", "--"):
                    return "%s%s" % (o, op)
                return "(%s %s %s)" % (o, op, args)
            a = e.get("a", [])
            if len(a) == 2:
                return "(%s %s %s)" % (pp(a[0], d), op, pp(a[1], d))
            return "operator%s(%s)" % (op, args)
        name = e.get("bn", "?").split("::")[-1]
        if obj is not None:
            o = pp(obj, d)
            sep = "->" if e.get("arrow") else "."
            if o == "this":
                return "this->%s(%s)" % (name, args)
            return "%s%s%s(%s)" % (o, sep, name, args)
        if e.get("bn") == "<indirect>":
            return "%s(%s)" % (pp(e.get("ce"), d), args)
        bn = e.get("bn", "?")
        short = bn if bn.startswith("std::") or bn.startswith("xt::") else name
        return "%s(%s)" % (short, args)
    if k == "construct":
        args = ", ".join(pp(a, d) for a in e.get("a", []))
        if (e.get("copy") or e.get("move")) and len(e.get("a", [])) == 1:
            return args
        return "%s{%s}" % (e.get("cls", "?").split("::")[-1], args)
    if k == "initlist":
        return "{%s}" % ", ".join(pp(a, d) for a in e.get("a", []) if a)
    if k == "unop":
        if e.get("post"):
            return "%s%s" % (pp(e["e"], d), e["op"])
        return "%s%s" % (e["op"], pp(e["e"], d))
    if k == "binop":
        return "(%s %s %s)" % (pp(e["lhs"], d), e["op"], pp(e["rhs"], d))
    if k == "cond":
        return "(%s ? %s : %s)" % (pp(e["c"], d), pp(e["then"], d), pp(e["else"], d))
    if k == "index":
        return "%s[%s]" % (pp(e["b"], d), pp(e["i"], d))
    if k == "lambda":
        return "<lambda>"
    if k == "throw":
        return "throw %s" % pp(e.get("e"), d)
    if k == "new":
        return "new(%s)" % pp(e.get("e"), d)
    if k == "delete":
        return "delete %s" % pp(e.get("e"), d)
    if k == "other":
        return "<%s>" % e.get("cn")
    return "<%s>" % k


def short_loc(fn, node):
    return fn.loc(node)
