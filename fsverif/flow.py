"""A2 — guards and dominance on structured SIR (DESIGN.md §3.3).

`Walker` walks one function body in evaluation order (short-circuit operators and ?: are control
flow) and maintains a *must* state: named sets whose join is intersection.

  facts : conditions known to hold (canonical strings), killed when a mentioned lvalue is written
  other named sets (client defined): events that have happened on every path so far

Clients override `visit(node, st)` (called for every expression node right after its operands were
evaluated; return the possibly updated state) and may inspect `self.exits` afterwards.
"""
from .sir import pp, strip, walk, AnalysisBroken

REL_NEG = {"<": ">=", "<=": ">", ">": "<=", ">=": "<", "==": "!=", "!=": "=="}
REL_MIRROR = {"<": ">", "<=": ">=", ">": "<", ">=": "<=", "==": "==", "!=": "!="}
# external (std:: / xt::) non-const member functions that only hand out access, never modify
ACCESSORS = {"operator[]", "operator()", "at", "flat", "front", "back", "begin", "end", "rbegin",
             "rend", "cbegin", "cend", "data", "get", "operator*", "operator->", "unchecked",
             "find", "lower_bound", "upper_bound", "top", "size", "shape", "empty", "count",
             "storage", "derived_cast", "native_handle", "joinable", "owns_lock", "mutex"}
ASSIGN_OPS = {"=", "+=", "-=", "*=", "/=", "%=", "&=", "|=", "^=", "<<=", ">>="}


class State:
    __slots__ = ("sets",)

    def __init__(self, sets=None):
        self.sets = sets or {}

    def get(self, name):
        return self.sets.get(name, frozenset())

    def add(self, name, item):
        s = dict(self.sets)
        s[name] = self.get(name) | {item}
        return State(s)

    def remove(self, name, pred):
        cur = self.get(name)
        new = frozenset(x for x in cur if not pred(x))
        if new == cur:
            return self
        s = dict(self.sets)
        s[name] = new
        return State(s)

    def has(self, name, item):
        return item in self.get(name)


def join(a, b):
    if a is None:
        return b
    if b is None:
        return a
    names = set(a.sets) | set(b.sets)
    return State({n: a.get(n) & b.get(n) for n in names})


def join_all(states):
    out = None
    for s in states:
        out = join(out, s)
    return out


def rel_fact(e, positive):
    """canonical fact strings for a condition expression with the given polarity"""
    e = strip(e)
    k = e.get("k")
    op = e.get("op")
    lhs = rhs = None
    if k == "binop" and op in REL_NEG:
        lhs, rhs = e["lhs"], e["rhs"]
    elif k == "call" and op in REL_NEG:
        ops = ([e["obj"]] if e.get("obj") is not None else []) + e.get("a", [])
        if len(ops) == 2:
            lhs, rhs = ops
    if lhs is not None:
        if not positive:
            op = REL_NEG[op]
        l, r = pp(lhs), pp(rhs)
        if l > r:
            l, r, op = r, l, REL_MIRROR[op]
        return "%s %s %s" % (l, op, r)
    if k == "unop" and op == "!":
        return rel_fact(e["e"], not positive)
    t = pp(e)
    return t if positive else "!(" + t + ")"


class Walker:
    def __init__(self, fn):
        self.fn = fn
        self.exits = []     # (kind, node, state)   kind in return|throw|end
        self.loop_stack = []

    # ---------------------------------------------------------------- hooks
    def visit(self, node, st):
        return st

    def enter_loop(self, stmt, st):
        """state at the loop head given the state before the loop"""
        return st

    def leave_scope(self, names, st):
        """variables `names` go out of scope (RAII objects are destroyed)"""
        return st

    def lib_call_kills(self, call, st):
        """conservative fact kill for a call"""
        return st

    # ---------------------------------------------------------------- writes
    def _kill(self, st, lv):
        txt = pp(strip(lv))
        if not txt:
            return st
        root = txt
        return st.remove("facts", lambda f: root in f)

    def on_write(self, lv, st, node):
        return self._kill(st, lv)

    # ---------------------------------------------------------------- expressions
    def eval(self, e, st):
        if e is None or st is None:
            return st
        k = e.get("k")
        if k == "binop":
            op = e["op"]
            if op in ("&&", "||"):
                t, f = self.cond(e, st)
                return join(t, f)
            if op in ASSIGN_OPS:
                st = self.eval(e["rhs"], st)
                st = self.eval(e["lhs"], st)
                st = self.visit(e, st)
                return self.on_write(e["lhs"], st, e)
            st = self.eval(e["lhs"], st)
            st = self.eval(e["rhs"], st)
            return self.visit(e, st)
        if k == "cond":
            t, f = self.cond(e["c"], st)
            a = self.eval(e["then"], t)
            b = self.eval(e["else"], f)
            return self.visit(e, join(a, b))
        if k == "unop":
            st = self.eval(e["e"], st)
            st = self.visit(e, st)
            if e["op"] in ("++", "--"):
                st = self.on_write(e["e"], st, e)
            return st
        if k == "call":
            if e.get("obj") is not None:
                st = self.eval(e["obj"], st)
            if e.get("ce") is not None:
                st = self.eval(e["ce"], st)
            for a in e.get("a", []):
                st = self.eval(a, st)
            st = self.visit(e, st)
            op = e.get("op")
            if op in ASSIGN_OPS or op in ("++", "--"):
                tgt = e.get("obj") if e.get("obj") is not None else (e.get("a") or [None])[0]
                if tgt is not None:
                    st = self.on_write(tgt, st, e)
            elif e.get("obj") is not None and not e.get("cm") and not e.get("sm") \
                    and not (not e.get("lib") and e.get("bn", "").split("::")[-1] in ACCESSORS):
                # non-const member call: the object may change
                st = self.on_write(e["obj"], st, e)
            return self.lib_call_kills(e, st)
        if k == "lambda":
            for c in e.get("caps", []):
                if c.get("init") is not None:
                    st = self.eval(c["init"], st)
            return self.visit(e, st)
        if k == "throw":
            st = self.eval(e.get("e"), st)
            st = self.visit(e, st)
            self.exits.append(("throw", e, st))
            return None
        # generic: children in order
        for key in ("b", "i", "e"):
            v = e.get(key)
            if isinstance(v, dict):
                st = self.eval(v, st)
        for a in e.get("a", []) or []:
            if isinstance(a, dict):
                st = self.eval(a, st)
        return self.visit(e, st)

    def cond(self, e, st):
        """evaluate e as a condition: returns (state if true, state if false)"""
        if st is None:
            return None, None
        e0 = e
        e = strip(e)
        k = e.get("k")
        if k == "unop" and e["op"] == "!":
            t, f = self.cond(e["e"], st)
            return f, t
        if k == "binop" and e["op"] == "&&":
            at, af = self.cond(e["lhs"], st)
            bt, bf = self.cond(e["rhs"], at)
            return bt, join(af, bf)
        if k == "binop" and e["op"] == "||":
            at, af = self.cond(e["lhs"], st)
            bt, bf = self.cond(e["rhs"], af)
            return join(at, bt), bf
        cv = e.get("cv")
        st2 = self.eval(e0, st)
        if st2 is None:
            return None, None
        if cv is True:
            return st2, None
        if cv is False:
            return None, st2
        return (st2.add("facts", rel_fact(e, True)), st2.add("facts", rel_fact(e, False)))

    # ---------------------------------------------------------------- statements
    def written_in(self, node):
        """texts of lvalues possibly written below node (syntactic, for loop heads)"""
        out = set()
        for n in walk(node):
            k = n.get("k")
            if k == "binop" and n["op"] in ASSIGN_OPS:
                out.add(pp(strip(n["lhs"])))
            elif k == "unop" and n["op"] in ("++", "--"):
                out.add(pp(strip(n["e"])))
            elif k == "call":
                op = n.get("op")
                if op in ASSIGN_OPS or op in ("++", "--"):
                    tgt = n.get("obj") if n.get("obj") is not None else (n.get("a") or [None])[0]
                    if tgt is not None:
                        out.add(pp(strip(tgt)))
                elif n.get("obj") is not None and not n.get("cm") and not n.get("sm") \
                        and not (not n.get("lib") and n.get("bn", "").split("::")[-1] in ACCESSORS):
                    out.add(pp(strip(n["obj"])))
            elif "d" in n and "n" in n and "k" not in n:
                out.add(n["n"])  # declared variable (re-initialised per iteration)
        out.discard("")
        return out

    def _loop_head(self, stmt, st, parts):
        w = set()
        for p in parts:
            if p is not None:
                w |= self.written_in(p)
        if w:
            st = st.remove("facts", lambda f: any(x in f for x in w))
        return self.enter_loop(stmt, st)

    def exec(self, s, st):
        """returns the state after s on the normal path (None if no normal path)"""
        if s is None or st is None:
            return st
        k = s.get("k")
        if k == "compound":
            declared = []
            for c in s["b"]:
                if c.get("k") == "decl":
                    declared.extend(v["n"] for v in c["vars"])
                st = self.exec(c, st)
                if st is None:
                    break
            if st is not None and declared:
                st = self.leave_scope(declared, st)
            return st
        if k == "expr":
            return self.eval(s["e"], st)
        if k == "decl":
            for v in s["vars"]:
                if v.get("init") is not None:
                    st = self.eval(v["init"], st)
                    if st is None:
                        return None
                st = self.visit_decl(v, st)
            return st
        if k == "if":
            if s.get("init") is not None:
                st = self.exec(s["init"], st)
            if s.get("cvar") is not None and s["cvar"].get("init") is not None:
                st = self.eval(s["cvar"]["init"], st)
            t, f = self.cond(s["c"], st)
            a = self.exec(s.get("then"), t)
            b = self.exec(s.get("else"), f) if s.get("else") is not None else f
            return join(a, b)
        if k in ("while", "for", "rangefor", "do"):
            return self._loop(s, st)
        if k == "return":
            st = self.eval(s.get("e"), st)
            if st is not None:
                self.exits.append(("return", s, st))
            return None
        if k == "break":
            if self.loop_stack:
                self.loop_stack[-1]["breaks"].append(st)
            return None
        if k == "continue":
            for fr in reversed(self.loop_stack):
                if fr.get("continues") is not None:
                    fr["continues"].append(st)
                    break
            return None
        if k == "null":
            return st
        if k == "switch":
            st = self.eval(s["c"], st)
            frame = {"breaks": [], "continues": None, "switch": True}
            self.loop_stack.append(frame)
            out = None
            body = s.get("body")
            cur = None
            has_default = False
            items = body["b"] if body and body.get("k") == "compound" else [body]
            for it in items:
                if it is None:
                    continue
                if it.get("k") in ("case", "default"):
                    if it["k"] == "default":
                        has_default = True
                    cur = join(cur, st)
                    inner = it
                    while inner is not None and inner.get("k") in ("case", "default"):
                        if inner["k"] == "default":
                            has_default = True
                        inner = inner.get("body")
                    cur = self.exec(inner, cur)
                else:
                    cur = self.exec(it, cur)
            self.loop_stack.pop()
            # without a default label the "no case matched" path exists, unless the condition is an
            # enumeration whose enumerators are all covered (as reported by clang)
            exhaustive = has_default or bool(s.get("all_enum"))
            out = join_all([cur] + frame["breaks"] + ([] if exhaustive else [st]))
            return out
        if k == "try":
            a = self.exec(s["body"], st)
            outs = [a]
            st_h = st.remove("facts", lambda f: True)
            for h in s.get("handlers", []):
                outs.append(self.exec(h, st_h))
            return join_all(outs)
        if k in ("case", "default"):
            return self.exec(s.get("body"), st)
        raise AnalysisBroken("flow: unsupported statement kind %r at %s" % (k, self.fn.loc(s)))

    def visit_decl(self, var, st):
        return st

    def _loop(self, s, st):
        k = s["k"]
        frame = {"breaks": [], "continues": []}
        if k == "for":
            st = self.exec(s.get("init"), st)
            if st is None:
                return None
            head = self._loop_head(s, st, [s.get("c"), s.get("inc"), s.get("body")])
            self.loop_stack.append(frame)
            if s.get("c") is not None:
                t, f = self.cond(s["c"], head)
            else:
                t, f = head, None
            b = self.exec(s.get("body"), t)
            b = join_all([b] + frame["continues"])
            if s.get("inc") is not None and b is not None:
                self.eval(s["inc"], b)
            self.loop_stack.pop()
            return join_all([f] + frame["breaks"])
        if k == "while":
            head = self._loop_head(s, st, [s.get("c"), s.get("body")])
            self.loop_stack.append(frame)
            t, f = self.cond(s["c"], head)
            self.exec(s.get("body"), t)
            self.loop_stack.pop()
            return join_all([f] + frame["breaks"])
        if k == "do":
            head = self._loop_head(s, st, [s.get("c"), s.get("body")])
            self.loop_stack.append(frame)
            b = self.exec(s.get("body"), head)
            b = join_all([b] + frame["continues"])
            t, f = self.cond(s["c"], b)
            self.loop_stack.pop()
            return join_all([f] + frame["breaks"])
        if k == "rangefor":
            st = self.eval(s["range"], st)
            if st is None:
                return None
            head = self._loop_head(s, st, [s.get("body")])
            self.loop_stack.append(frame)
            b0 = self.visit_decl(s["var"], head)
            self.exec(s.get("body"), b0)
            self.loop_stack.pop()
            return join_all([head] + frame["breaks"])
        raise AnalysisBroken("flow: loop kind %r" % k)

    def run(self, st=None):
        st = st or State()
        if self.fn.d.get("inits"):
            for ini in self.fn.d["inits"]:
                if ini.get("init") is not None:
                    st = self.eval(ini["init"], st)
        out = self.exec(self.fn.body, st)
        if out is not None:
            self.exits.append(("end", self.fn.body, out))
        return out
