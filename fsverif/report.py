"""Verdict protocol (DESIGN.md §4): obligations, violations, known findings, evidence, exit code."""
import json
import os
import sys
import time

from .sir import AnalysisBroken

VERIF = os.path.dirname(os.path.dirname(os.path.abspath(__file__)))
EVIDENCE = os.environ.get("FSVERIF_EVIDENCE", os.path.join(VERIF, "evidence"))
KNOWN = os.path.join(VERIF, "known_findings.json")


def load_known():
    if not os.path.exists(KNOWN):
        return []
    with open(KNOWN) as f:
        return json.load(f)["findings"]


_ABSORB_CACHE = {}


class Check:
    def __init__(self, pid, tier, seed, title=""):
        self.pid = pid
        self.tier = tier
        self.seed = seed
        self.title = title
        self.t0 = time.time()
        self.obligations = []      # dicts
        self.violations = []       # dicts (subset of failed obligations, not known)
        self.known_hits = []
        self.samples = []
        self.rules = {}            # rule id -> {"text":..., "n":0, "ok":0, "min": k}
        self.assumptions = []
        self.not_decided = []
        self.extra = {}
        self.explanation = ""
        self.scenarios = 0
        self.exhaustive = None
        self.known = [k for k in load_known() if k.get("property") == pid]
        self.info = {}

    # -- declaring rules ---------------------------------------------------------------------
    def rule(self, rid, text, min_instances=1):
        self.rules[rid] = {"text": text, "n": 0, "ok": 0, "min": min_instances}

    def assume(self, text):
        if text not in self.assumptions:
            self.assumptions.append(text)

    # -- recording ---------------------------------------------------------------------------
    def ob(self, rid, instance, ok, where="", function="", construct="", detail="", extra=None,
           sample=True):
        """record one obligation (rule instance) and its verdict.

        `function` (plain qualified name of the pattern function) and `construct` (member, callee,
        condition ... never a line number) identify the instance for the known-findings file."""
        r = self.rules[rid]
        r["n"] += 1
        rec = {"rule": rid, "instance": instance, "ok": bool(ok), "where": where}
        if detail:
            rec["detail"] = detail
        if function:
            rec["function"] = function
        if construct:
            rec["construct"] = construct
        if extra:
            rec.update(extra)
        self.obligations.append(rec)
        if ok:
            r["ok"] += 1
        else:
            hit = None
            for k in self.known:
                if k.get("status", "known") != "known":
                    continue
                if k.get("rule") == rid and k.get("function") == function \
                        and k.get("construct") == construct:
                    hit = k
                    break
            if hit is not None:
                self.known_hits.append((hit, rec))
            else:
                self.violations.append(rec)
        if sample and (len(self.samples) < 40 or not ok):
            self.samples.append(rec)
        return ok

    only = None

    def want(self, *rids):
        """False when this check runs on behalf of another property that shares none of `rids`
        (lets a rule module skip work whose obligations would be discarded)"""
        return self.only is None or any(r in self.only for r in rids)

    def absorb(self, db, module_name, rule_ids, new_rid, text, pred=None, min_instances=1, tier=None):
        """shared rules: run another property's rule module on the same program database and
        re-report the obligations of `rule_ids` (optionally filtered by pred(record)) under
        `new_rid` of this property.  Used where a clause decided under another property is also a
        necessary condition of this one."""
        if getattr(self, "is_sub", False):
            # rules are shared one level deep only: a module run on behalf of another property
            # reports its native rules (this also rules out cycles between properties)
            return 0
        import importlib
        mod = importlib.import_module("fsverif.rules." + module_name)
        tier = tier or self.tier      # (a shared rule may be run at the quick tier inside a thorough check:
        #                                its own property's thorough tier does the deep exploration)
        ck = (module_name, tier, id(db), frozenset(rule_ids))
        if ck in _ABSORB_CACHE:
            sub, broken = _ABSORB_CACHE[ck]
        else:
            sub = Check(module_name, tier, self.seed)
            sub.known = []
            sub.info = self.info
            sub.is_sub = True
            sub.only = set(rule_ids)
            broken = None
            try:
                mod.run(db, sub)
            except AnalysisBroken as ex:
                broken = ex
            _ABSORB_CACHE[ck] = (sub, broken)
        self.rule(new_rid, text, min_instances=min_instances)
        n = 0
        for o in sub.obligations:
            if o["rule"] not in rule_ids:
                continue
            if pred is not None and not pred(o):
                continue
            n += 1
            self.ob(new_rid, "(%s) %s" % (o["rule"], o["instance"]), o["ok"], where=o.get("where", ""),
                    function=o.get("function", ""), construct=o.get("construct", ""),
                    detail=o.get("detail", ""), sample=(not o["ok"]) or n <= 3)
        self.scenarios += sub.scenarios
        if broken is not None and not any((not o["ok"]) for o in sub.obligations if o["rule"] in rule_ids):
            raise broken
        return n

    def count_scenarios(self, n, exhaustive=True):
        self.scenarios += n
        if self.exhaustive is None:
            self.exhaustive = exhaustive
        else:
            self.exhaustive = self.exhaustive and exhaustive

    # -- finishing ---------------------------------------------------------------------------
    def finish(self):
        # vacuity gate: a rule with fewer instances than confirmed by hand is analysis-broken
        violated = {v["rule"] for v in self.violations} | {rec["rule"] for _, rec in self.known_hits}
        for rid, r in self.rules.items():
            if r["n"] < r["min"] and rid not in violated:
                raise AnalysisBroken("rule %s matched %d instance(s), expected at least %d: the "
                                     "anchor moved or vanished" % (rid, r["n"], r["min"]))
        os.makedirs(os.path.join(EVIDENCE, "replay"), exist_ok=True)
        for fnm in os.listdir(os.path.join(EVIDENCE, "replay")):
            if fnm.startswith(self.pid + "-"):
                os.unlink(os.path.join(EVIDENCE, "replay", fnm))
        # replay files
        lines = []
        seen_known = set()
        for hit, rec in self.known_hits:
            kid = (hit.get("rule"), hit.get("function"), hit.get("construct"))
            if kid in seen_known:
                continue
            seen_known.add(kid)
            lines.append("KNOWN-FINDING: property=%s %s" % (self.pid, hit.get("what", rec["instance"])))
        for i, v in enumerate(self.violations):
            path = os.path.join(EVIDENCE, "replay", "%s-%s-%d.json" % (self.pid, v["rule"], i))
            with open(path, "w") as f:
                json.dump({"property": self.pid, "rule": v["rule"],
                           "rule_text": self.rules[v["rule"]]["text"], "violation": v,
                           "repo": self.info.get("repo"), "tier": self.tier}, f, indent=1)
            v["replay"] = path
            lines.append("VIOLATION property=%s replay=%s" % (self.pid, path))
            lines.append("  rule %s at %s: %s%s" % (v["rule"], v.get("where", "?"), v["instance"],
                                                   (" -- " + v["detail"]) if v.get("detail") else ""))
        n_ob = len(self.obligations)
        n_ok = sum(1 for o in self.obligations if o["ok"])
        distinct = len({(o["rule"], o["instance"], o.get("where", "")) for o in self.obligations})
        cov = {
            "explanation": self.explanation,
            "obligations": n_ob,
            "discharged": n_ok,
            "evaluations": max(n_ob + self.scenarios, 1),
            "distinct_nontrivial": max(distinct, 0),
            "rule": "one obligation per rule instance found in the resolved program (function / "
                    "call site / member / table cell / abstract scenario); distinct = distinct "
                    "(rule, instance, location) triples",
            "rules": {rid: {"text": r["text"], "instances": r["n"], "holding": r["ok"],
                            "minimum_expected": r["min"]} for rid, r in self.rules.items()},
            "samples": self.samples[:60],
            "abstract_scenarios_enumerated": self.scenarios,
            "known_findings_reported": len(seen_known),
            "not_decided": self.not_decided,
            "analysed": self.info,
            "checker_cmd": "./check %s --tier %s" % (self.pid, self.tier),
            "trusted_base": ["clang 14 front end and constant evaluator", "bin/fsx serialisation",
                             "effect table for std::/xt:: calls (fsverif/effects.py)",
                             "rule definitions in fsverif/rules/%s.py" % self.pid],
        }
        if self.exhaustive is not None:
            cov["exhaustive"] = bool(self.exhaustive)
        cov.update(self.extra)
        ev = {
            "property_id": self.pid,
            "tier": self.tier,
            "seed": self.seed,
            "level": "other",
            "coverage": cov,
            "assumptions": self.assumptions + [
                "python bindings and utils/eigen_containers.hpp are not parsed (pybind11 / Eigen "
                "absent): not analysed",
                "only the template instantiations present in /verif/drivers are analysed; the "
                "pattern-coverage gate reports uninstantiated function patterns"],
            "wall_s": round(time.time() - self.t0, 3),
            "violations": len(self.violations),
        }
        with open(os.path.join(EVIDENCE, "%s.json" % self.pid), "w") as f:
            json.dump(ev, f, indent=1)
        for rid, r in self.rules.items():
            print("[%s] %s: %d/%d instances hold" % (self.pid, rid, r["ok"], r["n"]))
        for l in lines:
            print(l)
        if self.violations:
            print("[%s] FAIL: %d violation(s)" % (self.pid, len(self.violations)))
            return 1
        print("[%s] PASS (%d obligations, %d known finding(s))" % (self.pid, n_ob, len(seen_known)))
        return 0


def write_broken_evidence(pid, tier, seed, reason, t0):
    os.makedirs(EVIDENCE, exist_ok=True)
    ev = {"property_id": pid, "tier": tier, "seed": seed, "level": "other",
          "coverage": {"explanation": "ANALYSIS BROKEN, no verdict: " + reason,
                       "obligations": 0, "discharged": 0},
          "wall_s": round(time.time() - t0, 3), "violations": 0}
    with open(os.path.join(EVIDENCE, "%s.json" % pid), "w") as f:
        json.dump(ev, f, indent=1)
